"""C12 -- Wick's theorem: quadratic models give the free propagator and a vanishing vertex.

Specification: spec/Wick.tla: for an integer symmetric single-particle matrix h, G(z) = Adj(z)/Det(z) by the Faddeev-LeVerrier
recursion in exact integers (TLC checks (z-h) Adj(z) = Det(z) 1 coefficient by coefficient) -- an exact oracle that needs no
diagonalisation, so irrational and degenerate spectra are covered; chi0 is the documented antisymmetrised product.
  (1) TLC (WickGen) on the catalogue of h: all symmetric 2x2 over {-1,0,1}, 3x3 and 4x4 incl. zero, degenerate, block-diagonal and
      spin-mixing matrices;
  (2) the real library: G_ij(z) on and off the axis against Adj/Det; chi_ijkl(n1,n2;n3) for all (M=2) / sampled quadruples and all
      triples in {-2..1}^3 (coinciding frequencies, n1+n2 = -1) against chi0 built from the exact G; Vertex4::value against 0.
"""
import itertools, json, random, sys
import mpmath as mp
import pv, exact

H3 = [[[0, 0, 0], [0, 0, 0], [0, 0, 0]], [[1, 0, 0], [0, 1, 0], [0, 0, 1]], [[0, 1, 0], [1, 0, 1], [0, 1, 0]], [[2, 1, 0], [1, 2, 0], [0, 0, -1]],
      [[0, 1, 1], [1, 0, 1], [1, 1, 0]], [[1, -1, 0], [-1, 3, 2], [0, 2, -2]]]
H4 = [[[0, 1, 0, 0], [1, 0, 0, 0], [0, 0, 0, 1], [0, 0, 1, 0]], [[1, 0, 1, 0], [0, 1, 0, 1], [1, 0, -1, 0], [0, 1, 0, -1]],
      [[0, 1, 0, 0], [1, 0, 1, 0], [0, 1, 0, 1], [0, 0, 1, 0]], [[2, 0, 0, 0], [0, 2, 0, 0], [0, 0, 2, 0], [0, 0, 0, 2]],
      [[0, 1, 2, 0], [1, 0, 0, -1], [2, 0, 1, 1], [0, -1, 1, -3]]]


def poly(cs, z):
    v = mp.mpc(0)
    for k, c_ in enumerate(cs):
        v += (mp.mpc(c_[0], c_[1]) if isinstance(c_, (list, tuple)) else c_) * z ** k
    return v


def entry(x):
    """matrix entry of h: integer (real build) or [re, im] (complex build)"""
    return (x[0], x[1]) if isinstance(x, (list, tuple)) else (x, 0)


def run_family(c, exe, hs, pred, rng, thorough, cplx_build=False, ranks=0):
    betas = ["0.5", "3.0", "25.0"] if not cplx_build else ["0.5", "3.0"]
    NS = [-3, -1, 0, 2, 20]
    ZS = [["0.3", "1.7"], ["-1.5", "-0.2"]]
    tri = [[a, b, d] for a in (-2, -1, 0, 1) for b in (-2, -1, 0, 1) for d in (-2, -1, 0, 1)]
    scen, meta = [], {}
    for hh in hs:
        n = len(hh["h"])
        lay = exact.LAYOUTS[n][hs.index(hh) % len(exact.LAYOUTS[n])]
        tr = exact.triples(lay)
        build = []
        for i in range(n):
            for j in range(n):
                if entry(hh["h"][i][j]) != (0, 0):
                    build.append(["AddTerm", 1, {"ops": [[1, tr[i][0], tr[i][1], tr[i][2]], [0, tr[j][0], tr[j][1], tr[j][2]]], "v": 4 * entry(hh["h"][i][j])[0], "vi": 4 * entry(hh["h"][i][j])[1]}])
        if not build:    # h = 0: a lattice needs no terms at all
            build = []
        meta[hh["id"]] = (lay, tr, build)
    recs, crashed = pv.run_driver_resilient(exe, [{"kind": "model", "id": k, "sites": v[0], "den": 4, "build": v[2], "queries": [{"q": "index"}]} for k, v in meta.items()], timeout=3000)
    tabs = {r["id"]: r["tab"] for r in recs if r.get("e") == "Q" and "tab" in r}
    for hh in hs:
        lay, tr, build = meta[hh["id"]]
        n = len(hh["h"])
        if hh["id"] not in tabs:
            c.violation("quadratic model %s could not be built" % hh["h"], hh, cls="exception")
            continue
        lib = {(t[0], t[1], t[2]): i for i, t in enumerate(tabs[hh["id"]])}
        im = [lib[t] for t in tr]
        quads = [list(q) for q in itertools.product(range(n), repeat=4)]
        if n > 2:
            quads = rng.sample(quads, 12 if not thorough else 40)
        qs = []
        for b in betas:
            qs.append({"q": "gf", "beta": b, "pairs": [[im[i], im[j]] for i in range(n) for j in range(n)], "ns": NS, "zs": ZS, "tag": b})
            qs.append({"q": "chi", "beta": b, "quads": [[im[x] for x in q] for q in quads], "triples": tri, "tables": False, "tag": b})
            qs.append({"q": "vertex", "beta": b, "quads": [[im[x] for x in q] for q in quads[:6]], "windows": [], "triples": tri, "tag": b})
        scen.append({"kind": "model", "id": hh["id"], "sites": lay, "den": 4, "build": build, "queries": qs, "_im": im, "_quads": quads})
    def judge(recs, crashed, scen, where):
        byid = {}
        for r in recs:
            if r.get("e") == "Q":
                byid.setdefault(r["id"], []).append(r)
        for sc in scen:
            hh = [x for x in hs if x["id"] == sc["id"]][0]
            p = pred[sc["id"]]
            n = p["n"]
            M = n
            inv = {v: k for k, v in enumerate(sc["_im"])}
            rep0 = {"h": hh["h"], "sites": sc["sites"], "build": sc["build"]}
            if where:
                rep0["where"] = where.strip()
            if sc["id"] in crashed:
                c.violation("library crashed on the quadratic model h=%s" % hh["h"], rep0, cls="crash")
                continue

            def G(i, j, z):
                return poly(p["num"][i][j], z) / poly(p["det"], z)
            ok_model = True
            for r in byid.get(sc["id"], []):
                beta = r.get("tag")
                b = mp.mpf(beta)
                rep = dict(rep0, beta=beta)
                if "ex" in r or "fail" in r:
                    c.violation(("h=%s beta=%s" + where + ": %s failed: %s") % (hh["h"], beta, r["q"], r.get("fail") or r.get("ex")), rep, cls="exception")
                    ok_model = False
                    continue
                if r["q"] == "gf":
                    for o in r["gf"]:
                        i, j = inv[o["i"]], inv[o["j"]]
                        for (kind, lst) in (("n", o["n"]), ("z", o["z"])):
                            for (arg, v) in lst:
                                z = exact.matsubara(beta, arg) if kind == "n" else mp.mpc(mp.mpf(arg[0]), mp.mpf(arg[1]))
                                want = G(i, j, z)
                                got = exact.cplx(v)
                                tol = 1e-9 * (abs(want) + 1) + (4 ** M) * 1e-8 / abs(z.imag)
                                c.evaluations += 1
                                if not (abs(got - want) <= tol):
                                    c.violation(("h=%s beta=%s" + where + ": G_%d%d(%s) = %s but (z-h)^-1 gives %s") % (hh["h"], beta, o["i"], o["j"], arg, mp.nstr(got, 12), mp.nstr(want, 12)),
                                                dict(rep, component=[o["i"], o["j"]], arg=arg), cls="propagator")
                                    ok_model = False
                elif r["q"] == "chi":
                    for o in r["chi"]:
                        i, j, k, l = [inv[x] for x in o["q"]]
                        for t, v in zip(tri, o["ondemand"]):
                            n1, n2, n3 = t
                            z1, z2 = exact.matsubara(beta, n1), exact.matsubara(beta, n2)
                            want = mp.mpc(0)
                            if n2 == n3:
                                want += b * G(i, l, z1) * G(j, k, z2)
                            if n1 == n3:
                                want -= b * G(i, k, z1) * G(j, l, z2)
                            got = exact.cplx(v)
                            c.evaluations += 1
                            tol = 1e-7 * (1 + b * b)
                            if not (abs(got - want) <= tol):
                                c.violation(("h=%s beta=%s" + where + ": chi_%s%s = %s but the antisymmetrised product of free propagators is %s") % (
                                    hh["h"], beta, o["q"], t, mp.nstr(got, 12), mp.nstr(want, 12)), dict(rep, quad=o["q"], triple=t), cls="wick")
                                ok_model = False
                                break
                        if abs(want) > 0 or True:
                            c.nontriv("%s %s" % (sc["id"], (i, j, k, l)))
                elif r["q"] == "vertex":
                    for o in r["vertex"]:
                        for vv in o["values"]:
                            got = exact.cplx(vv["value"])
                            c.evaluations += 1
                            if not (abs(got) <= 1e-7 * (1 + b * b)):
                                c.violation(("h=%s beta=%s" + where + ": vertex of %s at %s is %s, expected 0") % (hh["h"], beta, o["q"], vv["t"], mp.nstr(got, 12)), dict(rep, quad=o["q"], triple=vv["t"]), cls="vertex")
                                ok_model = False
                                break
            if ok_model:
                c.traces += 1

    recs, crashed = pv.run_driver_resilient(exe, [{k: v for k, v in s.items() if not k.startswith("_")} for s in scen], timeout=3000)
    judge(recs, crashed, scen, "")
    if ranks:
        # several ranks: the parts of chi are computed by different ranks and their terms exchanged afterwards; every rank must hold the
        # complete, correct object (on-demand evaluation from the terms after compute(clear = false))
        sub = [s for s in scen if len(s["_im"]) <= 3][:6] + [s for s in scen if len(s["_im"]) == 4][:2]
        per, done, rc, err = pv.run_driver_ranks(exe, [{k: v for k, v in s.items() if not k.startswith("_")} for s in sub], ranks, timeout=1500)
        c.extra.setdefault("rank_tier", []).append({"ranks": ranks, "scenarios": len(sub)})
        if min(done) < len(sub):
            c.violation("%d ranks: the run did not complete (rc=%s): %s" % (ranks, rc, err[-300:].replace("\n", " | ")), {"ranks": ranks, "scenario": {k: v for k, v in sub[min(min(done), len(sub) - 1)].items() if not k.startswith("_")}}, cls="ranks:termination")
        for rk in range(ranks):
            judge(per[rk], set(), sub, " [rank %d of %d]" % (rk, ranks))


def main():
    c = pv.Check("C12")
    thorough = c.tier == "thorough"
    rng = random.Random(c.seed)
    exe = pv.harness("plain", "pv_driver")
    hs = []
    two = [[[a, b], [b, d]] for a in (-1, 0, 1) for b in (-1, 0, 1) for d in (-1, 0, 1)]
    if not thorough:
        two = rng.sample(two, 8) + [[[0, 0], [0, 0]], [[1, 0], [0, 1]]]
    for h in two + H3[: (len(H3) if thorough else 4)] + H4[: (len(H4) if thorough else 3)]:
        hs.append({"id": "h%d" % len(hs), "h": h})
    if thorough:
        for k in range(20):
            n = rng.choice([3, 4])
            a = [[0] * n for _ in range(n)]
            for i in range(n):
                for j in range(i, n):
                    a[i][j] = a[j][i] = rng.choice([-2, -1, 0, 0, 1, 2])
            hs.append({"id": "r%d" % k, "h": a})
    path = pv.OUT + "/C12/h.ndjson"
    import os
    os.makedirs(pv.OUT + "/C12", exist_ok=True)
    with open(path, "w") as f:
        for h in hs:
            f.write(json.dumps(h) + "\n")
    res = pv.run_tlc("WickGen", "WickGen", workers=4, timeout=1800, env={"MODELS": path})
    c.add_tlc(res, "WickGen")
    if res.violated:
        pv.log("INFRA: Wick.tla identity fails: %s" % res.violated)
        sys.exit(2)
    pred = {p["id"]: p for p in res.pv}
    run_family(c, exe, hs, pred, rng, thorough, ranks=3)
    # complex-Hermitian h in the complex matrix-element build (WickC.tla: the same recursion over Gaussian integers)
    chs = [{"id": "ch0", "h": [[[1, 0], [1, 2]], [[1, -2], [-1, 0]]]}, {"id": "ch1", "h": [[[0, 0], [0, 1]], [[0, -1], [0, 0]]]},
           {"id": "ch2", "h": [[[0, 0], [0, 1], [0, 0]], [[0, -1], [1, 0], [2, -1]], [[0, 0], [2, 1], [0, 0]]]},
           {"id": "ch3", "h": [[[1, 0], [1, 1], [0, 0], [0, 0]], [[1, -1], [1, 0], [0, 0], [0, 0]], [[0, 0], [0, 0], [-1, 0], [0, 2]], [[0, 0], [0, 0], [0, -2], [-1, 0]]]}]
    if thorough:
        for k in range(12):
            n = rng.choice([2, 3, 4])
            a = [[[0, 0] for _ in range(n)] for _ in range(n)]
            for i in range(n):
                a[i][i] = [rng.choice([-1, 0, 1, 2]), 0]
                for j in range(i + 1, n):
                    re, im = rng.choice([-1, 0, 1]), rng.choice([-2, -1, 0, 1])
                    a[i][j] = [re, im]
                    a[j][i] = [re, -im]
            chs.append({"id": "chr%d" % k, "h": a})
    cpath = pv.OUT + "/C12/hc.ndjson"
    with open(cpath, "w") as f:
        for h in chs:
            f.write(json.dumps(h) + "\n")
    cres = pv.run_tlc("WickCGen", "WickCGen", workers=4, timeout=1800, env={"MODELS": cpath})
    c.add_tlc(cres, "WickCGen")
    if cres.violated:
        pv.log("INFRA: WickC.tla identity fails: %s" % cres.violated)
        sys.exit(2)
    run_family(c, pv.harness("cplx", "pv_driver"), chs, {p["id"]: p for p in cres.pv}, rng, thorough, cplx_build=True)
    c.sample({"h": hs[3]["h"], "betas": ["0.5", "3.0", "25.0"], "triples": "all of {-2..1}^3", "complex_h": chs[0]["h"]})
    c.rule = "%d integer symmetric matrices h (2x2 over {-1,0,1}, 3x3, 4x4 incl. zero / degenerate / block-diagonal) x 3 betas: all G_ij at 5 Matsubara + 2 off-axis points; chi and vertex for all (n=2) or sampled quadruples x 64 triples; non-trivial = distinct (h, quadruple)" % len(hs)
    c.trusted = ["TLC", "tools comparator evaluating Adj/Det (mpmath)"]
    c.assumptions = ["real symmetric h (complex Hermitian needs the complex build)", "tolerance chi: 1e-7 (1 + beta^2)"]
    # the objects this property speaks about, under call histories of the documented workflow (spec/Workflow.tla; result shared with C01 etc.)
    import workflow
    workflow.attach(c, {"GF", "X", "V"}, "Green's function / two-particle function / vertex objects")
    c.finish()


def replay(path):
    print(open(path).read()[:3000])
    return 1
