"""C14 -- the dynamical susceptibility equals its definition, including the static limit.

Specification: spec/Lehmann.tla SusTerms / AvgTerms on the exact family: chi_AB(i W_n) = int_0^beta <T A(tau) B> e^{i W_n tau} as a Lehmann
sum over ALL pairs of eigenstates with exact matrix elements of A = c^+_a c_b, B = c^+_c c_d; pairs of equal energy contribute
beta w_n A_nm B_mn at W_n = 0 only; chi(tau) = sum A_nm B_mn w_n exp(tau (E_n - E_m)).
  (1) TLC (LehmannGen): model self-checks, prints the data;
  (2) the real library: Susceptibility at n in {-2..2} and on a tau grid, for operators that conserve and that change S_z / connect
      different blocks, without subtraction and with the three ways of supplying <A>, <B>; compared with the specification;
      relationally: the subtracted object differs from the plain one by beta <A><B> at W_n = 0 only (and by <A><B> in tau).
"""
import json, random, sys
import mpmath as mp
import pv, exact

NS = [-2, -1, 0, 1, 2]


def drop_bound(p, W):
    E = p["E"]
    dim = {}
    for e in E:
        dim[e] = dim.get(e, 0) + 1
    b = mp.mpf(0)
    for ea in dim:
        for eb in dim:
            if ea != eb:
                b += dim[ea] * dim[eb] * mp.mpf("1e-8") / abs(W - (eb - ea))
    return b


def main():
    c = pv.Check("C14")
    thorough = c.tier == "thorough"
    rng = random.Random(c.seed)
    exe = pv.harness("plain", "pv_driver")
    ms = exact.catalogue(rng, Ms=(2, 3), per_M=6 if not thorough else 12)
    for k in range(4 if not thorough else 30):
        ms.append(exact.random_model(rng, "R%d" % k, rng.choice([2, 3] if not thorough else [2, 3, 4])))
    ms += exact.with_phases(rng, ms)[: (4 if not thorough else 24)]
    for m in ms:
        M = m["M"]
        allq = [[a, b, cc, d] for a in range(M) for b in range(M) for cc in range(M) for d in range(M)]
        rng.shuffle(allq)
        dens = [[a, a, b, b] for a in range(M) for b in range(M)]
        flips = [[a, b, b, a] for a in range(M) for b in range(M) if a != b]
        m["sus"] = [list(q) for q in {tuple(x) for x in dens[:3] + flips[:3] + allq[: (4 if not thorough else 12)]}]
        m["avg"] = [list(x) for x in {(q[0], q[1]) for q in m["sus"]} | {(q[2], q[3]) for q in m["sus"]}]
    res, pred = exact.evaluate(ms, "C14/gen", timeout=3000)
    c.add_tlc(res, "LehmannGen")
    if res.violated:
        pv.log("INFRA: Lehmann.tla self-check %s failed" % res.violated)
        sys.exit(2)
    betas = ["0.3", "2.0", "15.0", "400.0"] if not thorough else ["0.05", "0.3", "2.0", "15.0", "120.0", "400.0", "900.0"]   # beta |pole| up to ~2000: both overflow-avoiding branches of the tau form
    recs, crashed = exact.run_split(exe, [exact.scenario(m, pred[m["id"]], queries=[{"q": "index"}]) for m in ms], ms)
    tabs = {r["id"]: r["tab"] for r in recs if r.get("e") == "Q" and "tab" in r}
    scen = []
    for m in ms:
        if m["id"] not in tabs:
            c.violation("model %s could not be built" % m["id"], m, cls="exception")
            continue
        im = exact.index_map(m, tabs[m["id"]])
        m["_im"] = im
        quads = [[im[x] for x in q] for q in m["sus"]]
        qs = []
        for b in betas:
            bb = mp.mpf(b)
            taus = [mp.nstr(bb * f, 17) for f in (0, mp.mpf(1) / 7, mp.mpf(1) / 2, 1)]
            qs.append({"q": "sus", "beta": b, "quads": quads, "ns": NS, "taus": taus, "tag": b})
        scen.append(exact.scenario(m, pred[m["id"]], queries=qs))
    recs, crashed = exact.run_split(exe, scen, ms)
    byid = {}
    for r in recs:
        if r.get("e") == "Q":
            byid.setdefault(r["id"], []).append(r)
    for sc in scen:
        m = [x for x in ms if x["id"] == sc["id"]][0]
        p = pred[m["id"]]
        if sc["id"] in crashed:
            c.violation("library crashed on model %s" % m["id"], sc, cls="crash")
            continue
        sus = {tuple(t["q"]): t["terms"] for t in p["sus"]}
        avg = {tuple(t["ab"]): t["terms"] for t in p["avg"]}
        inv = {v: k for k, v in enumerate(m["_im"])}
        for r in byid.get(sc["id"], []):
            beta = r.get("tag")
            desc = json.dumps({k: m[k] for k in ("M", "eps", "U", "rot", "bog", "ph")})
            rep = {"model": {k: m[k] for k in m if not k.startswith("_")}, "beta": beta}
            if "sus" not in r:
                c.violation("model %s beta=%s: susceptibility failed: %s" % (desc, beta, r.get("fail") or r.get("ex")), rep, cls="exception")
                continue
            ok = True
            for o in r["sus"]:
                q = tuple(inv[x] for x in o["q"])
                terms = sus[q]
                aA = exact.avg_value(p, avg[(q[0], q[1])], beta)
                aB = exact.avg_value(p, avg[(q[2], q[3])], beta)
                disc = aA * aB
                for key in ("plain", "sub_auto", "sub_ea", "sub_val", "sub_ea_prepared"):
                    sub = key != "plain"
                    for (n, v) in o[key]["n"]:
                        want, tot, npairs, dist = exact.sus_value(p, terms, beta, n)
                        if sub and n == 0:
                            want -= mp.mpf(beta) * disc
                        W = mp.mpc(0, 2 * n * mp.pi / mp.mpf(beta))
                        tol = 1e-9 * (tot + abs(mp.mpf(beta) * disc)) + drop_bound(p, W) + 1e-12
                        got = exact.cplx(v)
                        c.evaluations += 1
                        if not (abs(got - want) <= tol):
                            c.violation("model %s beta=%s: chi[%s](W_%d) for (a,b,c,d)=%s is %s, definition gives %s (allowed %s)" % (
                                desc, beta, key, n, o["q"], mp.nstr(got, 12), mp.nstr(want, 12), mp.nstr(tol, 3)), dict(rep, quad=o["q"], n=n, mode=key), cls="value:" + key)
                            ok = False
                            break
                    if not ok:
                        break
                    for (tau, v) in o[key]["tau"]:
                        want = exact.sus_tau(p, terms, beta, tau) - (disc if sub else 0)
                        got = exact.cplx(v)
                        c.evaluations += 1
                        if not (abs(got - want) <= 1e-7 + 1e-9 * abs(want)):
                            c.violation("model %s beta=%s: chi[%s](tau=%s) for %s is %s, definition gives %s" % (
                                desc, beta, key, tau, o["q"], mp.nstr(got, 12), mp.nstr(want, 12)), dict(rep, quad=o["q"], tau=tau, mode=key), cls="tau:" + key)
                            ok = False
                            break
                    if not ok:
                        break
                if not ok:
                    break
                # relational: subtraction changes W = 0 only
                pl = {n: exact.cplx(v) for (n, v) in o["plain"]["n"]}
                for key in ("sub_auto", "sub_ea", "sub_val", "sub_ea_prepared"):
                    for (n, v) in o[key]["n"]:
                        diff = pl[n] - exact.cplx(v)
                        exp = mp.mpf(beta) * exact.cplx(o["aveA"]) * exact.cplx(o["aveB"]) if n == 0 else 0
                        if not (abs(diff - exp) <= 1e-10 * (1 + abs(exp))):
                            c.violation("model %s beta=%s: plain - %s at W_%d for %s is %s, expected %s" % (desc, beta, key, n, o["q"], mp.nstr(diff, 12), mp.nstr(exp, 12)),
                                        dict(rep, quad=o["q"], n=n, mode=key), cls="subtraction")
                            ok = False
                if terms:
                    c.nontriv("%s %s %s" % (m["id"], q, "flip" if q[0] != q[1] else "dens"))
            if ok:
                c.traces += 1
    c.sample({"model": {k: ms[1][k] for k in ("M", "eps", "U", "rot", "bog", "ph")}, "quads": ms[1]["sus"][:4], "betas": betas, "n": NS})
    c.rule = "exact family: %d models x %d betas x ~10 operator pairs (density-density, spin-flip, random) x 5 bosonic frequencies + 4 times x 5 subtraction modes (incl. averages prepared by the caller and handed over twice); non-trivial = distinct (model, quadruple) with Lehmann terms" % (len(ms), len(betas))
    c.trusted = ["TLC", "tools/exact.py comparator"]
    c.assumptions = ["exact family only", "allowed deviation: 1e-9 relative + dropped-term bound over pairs of distinct levels (1e-8 each)"]
    # the container every part accumulates its Lehmann terms in (spec/TermList.tla): like terms are merged, nothing is lost except by the
    # negligibility rule -- every add_term history of a catalogue with chains of nearly equal poles, replayed on the real template
    import termlist
    termlist.run(c, ["SU"], thorough)
    # call histories of the documented workflow (spec/Workflow.tla): repeated prepare()/compute() are no-ops, a call changes the data of
    # its own object only, and whatever the history, the finished object holds the data of the canonical linear order
    import workflow
    workflow.attach(c, {"SU"}, 'susceptibility')
    c.finish()


def replay(path):
    print(open(path).read()[:3000])
    return 1
