"""C05 -- the symbolic operator algebra faithfully represents the fermionic algebra.

Specification: spec/Fermion.tla (Jordan-Wigner action, sparse matrices, products = composition) and spec/OperatorAlgebra.tla
(transcription of normalize_and_insert).
  (1) TLC: the transcribed normal ordering equals composition of actions for every product of <= 4 (thorough 5) elementary
      operators over 3 modes and yields normal-ordered monomials; CAR of the Jordan-Wigner matrices;
  (2) the real Operator class evaluates A*B, A+B, A-B, alpha*A, -A, [A,B], {A,B}, (A*B)*C, A*(B*C), commutes, == for enumerated and
      random polynomials; all Fock-space matrices (through getMatrixElement and actRight) and flags are recomputed by TLC from A, B, C
      (AlgebraTrace.tla) and must agree exactly; the monomials of A*B must be normal ordered;
  (3) the specialised N and S_z operators against occupation counting on every Fock state.
"""
import itertools, json, random, sys
import pv


def monos(M, maxlen):
    ops = [[c, i] for c in (0, 1) for i in range(M)]
    out = []
    for n in range(1, maxlen + 1):
        out += [list(t) for t in itertools.product(ops, repeat=n)]
    return out


def main():
    c = pv.Check("C05")
    thorough = c.tier == "thorough"
    rng = random.Random(c.seed)
    exe = pv.harness("plain", "pv_driver")
    cfg = open(pv.SPEC + "/OperatorAlgebraMC.cfg").read()
    if thorough:
        open(pv.SPEC + "/OperatorAlgebraDeep.cfg", "w").write(cfg.replace("MaxLen = 4", "MaxLen = 5"))
    r = pv.run_tlc("OperatorAlgebraMC", "OperatorAlgebraDeep" if thorough else "OperatorAlgebraMC", workers=16, timeout=3000, heap="8g")
    c.add_tlc(r, "OperatorAlgebra")
    if r.violated:
        pv.log("INFRA: OperatorAlgebra.tla: the transcribed normal ordering violates %s" % r.violated)
        sys.exit(2)
    open(pv.SPEC + "/OperatorAlgebraCAR.cfg", "w").write("SPECIFICATION Spec\nCONSTANTS\n  NM = 3\n  MaxLen = 0\nINVARIANTS CARHolds\nCHECK_DEADLOCK FALSE\n")
    r = pv.run_tlc("OperatorAlgebraMC", "OperatorAlgebraCAR", workers=2, timeout=600)
    c.add_tlc(r, "CAR")
    if r.violated:
        pv.log("INFRA: Fermion.tla violates CAR")
        sys.exit(2)

    scen = []
    m2 = monos(2, 2)
    coefs = [1, -1, 2]
    # exhaustive: single-monomial A and B over two modes, lengths 1..2
    pairs = [(a, b) for a in m2 for b in m2]
    if not thorough:
        rng.shuffle(pairs)
        pairs = pairs[:260]
    n = 0
    for (a, b) in pairs:
        n += 1
        ca, cb = rng.choice(coefs), rng.choice(coefs)
        scen.append({"kind": "algebra", "id": n, "M": 2, "A": [[ca, 0, a]], "B": [[cb, 0, b]], "alpha": [rng.choice([2, -1, 0, 3]), 0]})
    # multi-term polynomials incl. cancellations, constants, longer monomials, three modes, associativity
    m3 = monos(3, 3)
    nrand = 240 if not thorough else 4000
    for k in range(nrand):
        n += 1
        M = rng.choice([2, 3, 3])
        pool = m2 if M == 2 else m3

        def poly():
            ts = []
            for _ in range(rng.randint(1, 3)):
                mm = rng.choice(pool) if rng.random() < 0.9 else []
                ts.append([rng.choice([1, -1, 2, -3]), 0, mm])
            return ts
        A, B = poly(), poly()
        kind = rng.random()
        if kind < 0.15:
            B = [[-t[0], 0, t[2]] for t in A]              # A + B cancels to zero
        elif kind < 0.25:
            B = [list(t) for t in A]                        # equal operators
        elif kind < 0.35:
            B = [[t[0], 0, t[2] + [[1, 0], [0, 0]]] for t in A]   # B = A * n_0: monomials of different length with a common prefix
        s = {"kind": "algebra", "id": n, "M": M, "A": A, "B": B, "alpha": [rng.choice([2, -1, 0]), 0]}
        if k % 3 == 0:      # scalars of magnitude 2^-24 .. 2^-40: alpha A is alpha A, not zero
            s["alpha"] = [rng.choice([1, -3, 2]), 0]
            s["alpha_log2"] = rng.choice([24, 30, 36, 40])
        if rng.random() < 0.4:
            s["C"] = poly()
        scen.append(s)
    # shape probes for == (same number of monomials, different lengths)
    for (A, B) in [([[1, 0, [[0, 0], [0, 1]]]], [[1, 0, [[0, 0]]]]), ([[1, 0, [[0, 0]]]], [[1, 0, [[0, 0], [0, 1]]]]),
                   ([[1, 0, [[1, 0], [0, 0]]]], [[1, 0, [[1, 0], [0, 0], [1, 1], [0, 1]]]]), ([[1, 0, [[1, 0], [0, 0], [1, 1], [0, 1]]]], [[1, 0, [[1, 0], [0, 0]]]])]:
        n += 1
        scen.append({"kind": "algebra", "id": n, "M": 2, "A": A, "B": B, "alpha": [1, 0]})
    nsz = []
    for M in (1, 2, 3, 4):
        for up in itertools.combinations(range(M), M // 2):
            if M % 2 == 0:
                n += 1
                nsz.append({"kind": "nsz", "id": n, "M": M, "up": list(up)})
    # S_z of a sub-cluster (two-list constructor): the modes outside both lists are spectators
    for (M, up, down) in ((3, [0], [1]), (3, [2], [0]), (4, [1], [2]), (4, [0], [3]), (5, [1, 3], [0, 2]), (5, [0, 4], [1, 2]), (6, [1, 3], [0, 2]), (6, [5, 0], [2, 3])):
        n += 1
        nsz.append({"kind": "nsz", "id": n, "M": M, "up": up, "down": down})
    scen += nsz
    # many modes: Fock states wider than one machine word (the sign of an operator counts the occupied modes in front of it)
    big = []
    for M in ((65, 70, 130) if not thorough else (33, 64, 65, 70, 96, 130, 200)):
        rows = []
        for _ in range(60 if not thorough else 200):
            occ = sorted(rng.sample(range(M), rng.randint(0, M - 1)))
            nf = rng.randint(1, 3)
            mono = [[rng.choice([0, 1]), rng.choice([0, 1, M // 2, M - 2, M - 1, rng.randrange(M)])] for _ in range(nf)]
            rows.append([mono, occ])
        n += 1
        big.append({"kind": "bigfock", "id": n, "M": M, "rows": rows})
    scen += big
    recs, crashed = pv.run_driver_resilient(exe, scen, timeout=3000, scen_timeout=120)
    byid = {r["id"]: r for r in recs if r.get("e") in ("Alg", "NSz", "Big")}
    ev = []
    for s in scen:
        c.evaluations += 1
        if s["id"] in crashed:
            c.violation("library crashed evaluating %s" % json.dumps(s), s, cls="crash")
            continue
        r = byid.get(s["id"])
        if r is None:
            c.violation("no result for %s" % json.dumps(s), s, cls="crash")
            continue
        if "ex" in r:
            c.violation("exception %s for %s" % (r["ex"], json.dumps(s)), s, cls="exception")
            continue
        ev.append(r)
        if r["e"] == "Alg" and r["mul"]:
            c.nontriv(json.dumps([s["A"], s["B"]]))
    c.sample(scen[0])
    c.sample(scen[len(pairs) + 3])
    pos, guard = 0, 0
    while pos < len(ev) and guard < 60:
        guard += 1
        v = pv.validate_trace("AlgebraTrace", "AlgebraTrace", ev[pos:], "C05/trace-%d" % guard, timeout=3000, heap="8g")
        pv.tlc_or_die(v.res, "AlgebraTrace")
        c.states += v.res.distinct
        c.transitions += v.res.generated
        if guard == 1:
            c.tlc_cmds.append(v.res.cmd)
        if v.accepted:
            c.traces += len(ev) - pos
            break
        bad = ev[pos + v.matched]
        c.traces += v.matched
        s = [x for x in scen if x["id"] == bad["id"]][0]
        brief = {k: bad[k] for k in bad if k in ("commutes", "equal", "equal_self", "mul", "mulpoly")}
        c.violation("operator algebra disagrees with the Jordan-Wigner matrices for A=%s B=%s%s: %s" % (
            json.dumps(s.get("A", s.get("up"))), json.dumps(s.get("B")), (" C=%s" % json.dumps(s["C"])) if "C" in s else "", json.dumps(brief)[:300]),
            s, cls="algebra" if bad["e"] == "Alg" else "nsz")
        pos += v.matched + 1
    c.rule = ("pairs of single-monomial operators over 2 modes (lengths 1-2, %s), %d random multi-term polynomials over 2-3 modes incl. cancellations, "
              "equal operators, common-prefix monomials and associativity triples; non-trivial = distinct (A,B) with a non-zero product" % (
                  "all 400" if thorough else "260 of 400", nrand))
    c.exhaustive = thorough
    c.trusted = ["TLC", "harness/pv_algebra.hpp"]
    c.assumptions = ["integer coefficients (exact in double)", "real matrix-element build"]
    c.finish()


def replay(path):
    obj = json.load(open(path))["replay"]
    exe = pv.harness("plain", "pv_driver")
    recs, crashed = pv.run_driver_resilient(exe, [obj])
    if crashed:
        print("crashed", crashed)
        return 1
    ev = [r for r in recs if r.get("e") in ("Alg", "NSz", "Big")]
    print(json.dumps(ev)[:1500])
    v = pv.validate_trace("AlgebraTrace", "AlgebraTrace", ev, "C05/replay")
    print("accepted:", v.accepted)
    return 0 if v.accepted else 1
