"""C19 -- block truncation removes only contributions below the requested tolerance.

Specification: spec/Truncation.tla (retain rule, stripe filter; definition: a stripe is skipped only if all its blocks are discarded,
a block is discarded only if none of its states has weight above eps, so every lost Lehmann term has all weights <= eps).
  (1) TLC (TruncationMC): design level satisfies the definition level for all weight patterns / eps of the small model;
  (2) the real library (models with many blocks, beta up to values where all but one block are negligible, eps in {0, 1e-12, 1e-6,
      1e-3, 1e-2}): the retain flags against the library's own weights and the world stripes of G, chi and the susceptibility before
      and after truncation are validated by TLC against the design level (TruncTrace.tla);
  (3) values: |G_trunc - G| <= 2 eps dim / |Im z|, averages within eps dim, susceptibility within 2 eps dim max(beta, 1/|W_n|),
      chi within eps dim beta^3; with eps = 0 every value is bit-for-bit unchanged.
"""
import json, random, sys
import pv, models

EPS = ["0", "1e-12", "1e-6", "1e-3", "1e-2"]


def cplx(p):
    return complex(float(p[0]), float(p[1]))


def main():
    c = pv.Check("C19")
    thorough = c.tier == "thorough"
    rng = random.Random(c.seed)
    exe = pv.harness("plain", "pv_driver")
    r = pv.run_tlc("TruncationMC", "TruncationMC", workers=4, timeout=900)
    c.add_tlc(r, "TruncationMC")
    if r.violated:
        pv.log("INFRA: Truncation.tla design level violates its definition level")
        sys.exit(2)
    base = [models.hubbard_atom(), models.dimer(), models.dimer(t=-4, U=16, eps=-8), models.spinless_chain(3), models.mixed_sites(), models.kanamori(), models.heisenberg_dimer(),
            models.decoupled(), models.decoupled(eps=(4, -8), U=8), models.shifted(models.decoupled(eps=(-4, 8)), 64)]
    for k in range(4 if not thorough else 40):
        base.append(models.random_model(rng, "rnd%d" % k, max_modes=4, allow_break=False))
    betas = ["2.0", "8.0", "40.0"] if not thorough else ["0.5", "2.0", "8.0", "40.0", "200.0"]
    tri = [[0, 0, 0], [1, 0, 1], [0, 1, 1], [-1, 0, 0]]
    NS = [0, 1, -2]
    scen = []
    for m in base:
        M = models.nmodes(m)
        pairs = [[i, j] for i in range(M) for j in range(M)][: (16 if M <= 4 else 12)]
        quads = [[rng.randrange(M) for _ in range(4)] for _ in range(3)] + [[0, M - 1, M - 1, 0]]
        susq = [[0, 0, M - 1, M - 1], [0, M - 1, M - 1, 0]]
        for b in betas:
            # a HISTORY of truncations on the same density matrix: tolerances in arbitrary order (decreasing steps included), ending with 0
            seqs = [rng.sample(EPS[1:], 2) + ["0"], ["1e-2", "1e-6", "1e-12"]] if not thorough else [EPS[::-1], rng.sample(EPS, 3), ["1e-2", "1e-12", "1e-3", "0"]]
            for si, seq in enumerate(seqs if (thorough or b != betas[0]) else seqs[:1]):
                obsq = [{"q": "gf", "beta": b, "pairs": pairs, "ns": NS, "zs": [["0.5", "0.9"]]},
                        {"q": "chi", "beta": b, "quads": quads, "triples": tri, "tables": False},
                        {"q": "sus", "beta": b, "quads": susq, "ns": [0, 1, -1]},
                        {"q": "dm", "beta": b},
                        {"q": "parts", "beta": b, "pairs": pairs, "quads": quads, "sus": susq}]
                qs = [dict(q, tag="full") for q in obsq]
                for k, eps in enumerate(seq):
                    qs += [{"q": "truncate", "beta": b, "eps": eps, "tag": "trunc%d" % k}] + [dict(q, tag="cut%d" % k) for q in obsq]
                s = dict(m)
                s["id"] = "%s|b=%s|eps=%s" % (m["id"], b, ">".join(seq))
                s["queries"] = qs
                s["_beta"], s["_seq"], s["_M"] = b, seq, M
                scen.append(s)
    recs, crashed = pv.run_driver_resilient(exe, [{k: v for k, v in s.items() if not k.startswith("_")} for s in scen], timeout=3000)
    byid = {}
    for r in recs:
        if r.get("e") == "Q":
            byid.setdefault(r["id"], []).append(r)
    events, info = [], []
    for s in scen:
        c.evaluations += 1
        rep = {k: v for k, v in s.items() if not k.startswith("_")}
        if s["id"] in crashed:
            c.violation("library crashed on %s" % s["id"], rep, cls="crash")
            continue
        rs = byid.get(s["id"], [])
        if any(("fail" in r or "ex" in r) for r in rs) or len(rs) != len(s["queries"]):
            c.violation("%s failed: %s" % (s["id"], [r.get("fail") or r.get("ex") for r in rs if "fail" in r or "ex" in r][:2]), rep, cls="exception")
            continue
        get = lambda q, tag: [r for r in rs if r["q"] == q and r.get("tag") == tag][0]
        beta, M = float(s["_beta"]), s["_M"]
        dim = 2 ** M
        all_ok = True
        for k, eps_s in enumerate(s["_seq"]):
            eps = float(eps_s)
            tr = get("truncate", "trunc%d" % k)
            above = [float(x) > eps for x in tr["maxw"]]
            pf, pc = get("parts", "full"), get("parts", "cut%d" % k)
            obs_ev = []
            for key, nb in (("gf", 2), ("chi", 4), ("sus", 2)):
                for a, b in zip(pf[key], pc[key]):
                    obs_ev.append({"name": "%s%s" % (key, a.get("ij") or a.get("q")), "nb": nb, "full": a["parts"], "cut": b["parts"]})
            events.append({"e": "Trunc", "id": s["id"], "step": k, "eps": eps_s, "retained": tr["retained"], "above": above, "obs": obs_ev})
            info.append(rep)
            if not all(tr["retained"]):
                c.nontriv("%s#%d" % (s["id"], k))
            # (3) values
            bad = None
            cut = "cut%d" % k
            gf_f, gf_c = get("gf", "full"), get("gf", cut)
            for a, b in zip(gf_f["gf"], gf_c["gf"]):
                for grp in ("n", "z"):
                    for (x, va), (_, vb) in zip(a[grp], b[grp]):
                        imz = abs((2 * x + 1) * 3.141592653589793 / beta) if grp == "n" else abs(float(x[1]))
                        d = abs(cplx(va) - cplx(vb))
                        if eps == 0 and va != vb:
                            bad = "eps = 0 changed G_%d%d(%s): %s -> %s" % (a["i"], a["j"], x, va, vb)
                        elif not (d <= 2 * eps * dim / imz + 1e-12):
                            bad = "|G_trunc - G| = %g for G_%d%d(%s) exceeds 2 eps dim / |Im z| = %g" % (d, a["i"], a["j"], x, 2 * eps * dim / imz)
            ch_f, ch_c = get("chi", "full"), get("chi", cut)
            for a, b in zip(ch_f["chi"], ch_c["chi"]):
                for t, va, vb in zip(tri, a["ondemand"], b["ondemand"]):
                    d = abs(cplx(va) - cplx(vb))
                    if eps == 0 and va != vb:
                        bad = "eps = 0 changed chi_%s%s: %s -> %s" % (a["q"], t, va, vb)
                    elif not (d <= eps * dim * (beta ** 3 + 1) + 1e-12):
                        bad = "|chi_trunc - chi| = %g for %s%s exceeds eps dim beta^3 = %g" % (d, a["q"], t, eps * dim * beta ** 3)
            su_f, su_c = get("sus", "full"), get("sus", cut)
            for a, b in zip(su_f["sus"], su_c["sus"]):
                for (n, va), (_, vb) in zip(a["plain"]["n"], b["plain"]["n"]):
                    d = abs(cplx(va) - cplx(vb))
                    bound = 2 * eps * dim * max(beta, beta / (2 * 3.141592653589793 * abs(n)) if n else beta)
                    if eps == 0 and va != vb:
                        bad = "eps = 0 changed the susceptibility %s at W_%d" % (a["q"], n)
                    elif not (d <= bound + 1e-12):
                        bad = "|sus_trunc - sus| = %g for %s at W_%d exceeds %g" % (d, a["q"], n, bound)
            dm_f, dm_c = get("dm", "full"), get("dm", cut)
            for (i, j, va), (_, _, vb) in zip(dm_f["avg"], dm_c["avg"]):
                d = abs(cplx(va) - cplx(vb))
                if eps == 0 and va != vb:
                    bad = "eps = 0 changed <c+_%d c_%d>" % (i, j)
                elif not (d <= eps * dim + 1e-13):
                    bad = "|avg_trunc - avg| = %g for <c+_%d c_%d> exceeds eps dim = %g" % (d, i, j, eps * dim)
            if bad:
                c.violation("%s: after truncation step %d (eps = %s): %s" % (s["id"], k, eps_s, bad), rep, cls="value")
                all_ok = False
                break
        if all_ok:
            c.traces += 1
    c.sample({"model": base[1]["build"], "beta": "8.0", "eps_history": ["1e-2", "1e-6", "1e-12"]})
    pos, guard = 0, 0
    while pos < len(events) and guard < 60:
        guard += 1
        v = pv.validate_trace("TruncTrace", "TruncTrace", events[pos:], "C19/trace-%d" % (guard % 3), timeout=3000, heap="8g")
        pv.tlc_or_die(v.res, "TruncTrace")
        c.states += v.res.distinct
        c.transitions += v.res.generated
        if guard == 1:
            c.tlc_cmds.append(v.res.cmd)
        if v.accepted:
            break
        if pos + v.matched >= len(events):
            pv.log("INFRA: TruncTrace rejected without naming an event (matched %d of %d)\n%s" % (v.matched, v.total, v.res.stdout[-1500:]))
            sys.exit(2)
        bad = events[pos + v.matched]
        c.violation("%s: after truncation step %d (eps = %s) the retain flags %s (largest weight above eps: %s) or the selection of world stripes do not follow the truncation rule" % (bad["id"], bad["step"], bad["eps"], bad["retained"], bad["above"]),
                    info[pos + v.matched], cls="selection")
        pos += v.matched + 1
    c.rule = "%d models x %d betas x eps values (always incl. 0): flags, stripes of 16 G components / 4 chi / 2 susceptibilities before and after; values against the bounds; non-trivial = (model, beta, eps) with at least one discarded block" % (len(base), len(betas))
    c.trusted = ["TLC", "python comparison of doubles (maxw > eps, bounds)"]
    c.assumptions = ["bounds: G 2 eps dim/|Im z| ; averages eps dim ; susceptibility 2 eps dim max(beta, 1/|W|) ; chi eps dim beta^3"]
    c.finish()


def replay(path):
    print(open(path).read()[:3000])
    return 1
