"""C18 -- index bookkeeping is a bijection; physics invariant under relabelling.

Specification: spec/Indexing.tla.
  (1) TLC: for every lattice with <= 3 sites x 1..3 orbitals x 1..3 spins and both ordering modes the design level
      (the two enumeration orders of prepare()) satisfies the definition level (bijection, mutual inverses);
  (2) every such lattice is built in the real library under several labellings and insertion orders, the tables
      returned by getInfo/getIndex are recorded, and IndexTrace.tla checks the definition level on the recorded tables;
  (3) relabelling / ordering-mode invariance of observables (added with the model harness, see c18 part 2).
"""
import json, random, sys
import pv, models, obs

LABELSETS = [["A", "B", "C"], ["x1", "x10", "x2"], ["Z", "a", "_"], ["b", "A", "aa"], ["site 1", "site-2", "s"]]


def main():
    c = pv.Check("C18")
    thorough = c.tier == "thorough"
    rng = random.Random(c.seed)
    exe = pv.harness("plain", "pv_driver")
    res = pv.run_tlc("IndexingMC", "IndexingMC", workers=8, timeout=900)
    c.add_tlc(res, "Indexing")
    if res.violated:
        pv.log("INFRA: Indexing.tla design level violates its definition level: %s" % res.violated)
        sys.exit(2)
    scen = []
    expect = {}
    for i, t in enumerate(res.pv):
        lat = t["lat"]
        nlab = 1 if not thorough else 3
        for j in range(nlab):
            labels = sorted(rng.choice(LABELSETS))[:len(lat)] if j else sorted(LABELSETS[i % len(LABELSETS)])[:len(lat)]
            sites = [[labels[k], lat[k]["orb"], lat[k]["spin"]] for k in range(len(lat))]
            rng.shuffle(sites)            # insertion order is not the label order
            sid = "%d.%d" % (i, j)
            scen.append({"kind": "index", "id": sid, "sites": sites, "mode": t["mode"]})
            expect[sid] = t
    recs, crashed = pv.run_driver_resilient(exe, scen, timeout=900, scen_timeout=60)
    byid = {r["id"]: r for r in recs if r.get("e") == "Index"}
    good = []
    for s in scen:
        c.evaluations += 1
        t = expect[s["id"]]
        hetero = len({x["spin"] for x in t["lat"]}) > 1
        cls = "prepare:spin-major:unequal-spin-counts" if (t["mode"] and hetero) else "prepare"
        if s["id"] in crashed:
            c.violation("library crashed in IndexClassification::prepare(%s) for sites %s" % (s["mode"], s["sites"]), s, cls=cls + ":crash")
            continue
        r = byid.get(s["id"])
        if r is None or "ex" in r:
            c.violation("IndexClassification failed for sites %s: %s" % (s["sites"], r), s, cls=cls + ":exception")
            continue
        good.append(r)
        c.nontriv("%s/%s" % (json.dumps(t["lat"]), t["mode"]))
    c.sample(scen[len(scen) // 3])
    # recorded tables against the definition level
    pos = 0
    guard = 0
    ndesign = 0
    while pos < len(good) and guard < 30:
        guard += 1
        v = pv.validate_trace("IndexTrace", "IndexTrace", good[pos:], "C18/trace-%d" % guard, timeout=900)
        pv.tlc_or_die(v.res, "IndexTrace")
        c.states += v.res.distinct
        c.transitions += v.res.generated
        if guard == 1:
            c.tlc_cmds.append(v.res.cmd)
        if v.accepted:
            import re
            m = re.search(r"@@DESIGN\"?, (\d+), (\d+)", v.res.stdout)
            if m:
                ndesign += int(m.group(1))
            c.traces += len(good) - pos
            break
        bad = good[pos + v.matched]
        c.traces += v.matched
        s = [x for x in scen if x["id"] == bad["id"]][0]
        c.violation("recorded index table violates bijection/inverse: n=%s tab=%s" % (bad.get("n"), bad.get("tab")), s, cls="table")
        pos += v.matched + 1
    c.extra["tables_equal_to_design_level"] = ndesign

    # (3) relabelling and ordering-mode invariance of the physics (ObsTrace.tla): the same model under renamed sites (changing the
    # iteration order of the site map) and under spin-major ordering must give the same observables up to the induced permutation
    base = models.catalogue(thorough)[:8] + [models.random_model(rng, "rnd%d" % k, max_modes=4, spins=(1, 2, 2, 3)) for k in range(6 if not thorough else 40)]
    tri = [[0, 0, 0], [1, 0, 1], [0, 1, 1], [-1, 0, 0]]
    plan, sc2 = [], []
    for m in base:
        M = models.nmodes(m)
        labs = sorted(l for (l, o, s) in m["sites"])
        new = ["z" + l.lower() for l in labs]
        new.reverse()                                   # reverses the iteration order of the site map
        mapping = dict(zip(labs, ["Q%d_%s" % (len(labs) - i, l) for i, l in enumerate(labs)]))
        variants = [("ref", m, {}), ("renamed", models.rename(m, mapping), mapping), ("spin-major", dict(m, order_spins=True), {})]
        beta = rng.choice(["0.8", "2.5"])
        for (vn, mv, mp_) in variants:
            s = dict(mv)
            s["id"] = "%s#%s" % (m["id"], vn)
            s["queries"] = [{"q": "index"}]
            sc2.append(s)
            plan.append((m, vn, mv, mp_, beta))
    recs, crashed = pv.run_driver_resilient(exe, sc2, timeout=900, scen_timeout=60)
    tabs = {r["id"]: r.get("tab") for r in recs if r.get("e") == "Q"}
    sc3, meta = [], {}
    for (m, vn, mv, mp_, beta) in plan:
        sid = "%s#%s" % (m["id"], vn)
        ref_tab = tabs.get("%s#ref" % m["id"])
        tab = tabs.get(sid)
        if not ref_tab or not tab:
            c.violation("model %s could not be indexed under variant %s" % (m["id"], vn), mv, cls="relabel:exception")
            continue
        back = {v: k for k, v in mp_.items()}
        canon = {(t[0], t[1], t[2]): i for i, t in enumerate(ref_tab)}
        keys = [(back.get(t[0], t[0]), t[1], t[2]) for t in tab]
        if len(tab) != len(ref_tab) or any(k not in canon for k in keys) or len(set(keys)) != len(keys):
            c.violation("model %s, variant %s: the index table %s is not a relabelling of the reference table %s" % (m["id"], vn, json.dumps(tab)[:300], json.dumps(ref_tab)[:300]),
                        mv, cls="relabel:table")
            continue
        perm = [canon[k] for k in keys]       # library index -> reference index
        M = len(tab)
        inv = {v: k for k, v in enumerate(perm)}
        import zlib
        rq = random.Random(zlib.crc32(m["id"].encode()) & 0xffff)
        quads_ref = [[rq.randrange(M) for _ in range(4)] for _ in range(5)]
        if M >= 2:      # both pairs distinct, in both orders: stored component or doubly swapped alias, depending on labels / ordering mode
            quads_ref += [[0, M - 1, 0, M - 1], [M - 1, 0, M - 1, 0], [1, 0, 0, 1]]
        sus_ref = [[rq.randrange(M) for _ in range(4)] for _ in range(3)]
        s = dict(mv)
        s["id"] = sid
        s["queries"] = obs.queries(M, beta, [[inv[x] for x in q] for q in quads_ref], [[inv[x] for x in q] for q in sus_ref], tri, container=True)
        sc3.append(s)
        meta[sid] = (m, vn, perm, s)
    recs, crashed = pv.run_driver_resilient(exe, sc3, timeout=3000)
    byq = {}
    for r in recs:
        if r.get("e") == "Q":
            byq.setdefault(r["id"], []).append(r)
    lines, info = [], []
    for sid, (m, vn, perm, s) in meta.items():
        c.evaluations += 1
        if sid in crashed:
            c.violation("library crashed on %s" % sid, s, cls="relabel:crash")
            continue
        try:
            o = obs.collect(byq.get(sid, []), perm)
        except Exception as ex:
            c.violation("%s: %s" % (sid, ex), s, cls="relabel:exception")
            continue
        for e in obs.events(m["id"], vn, o):
            lines.append(e)
            info.append(s)
        c.nontriv("relabel " + sid)
    pos, guard = 0, 0
    while pos < len(lines) and guard < 40:
        guard += 1
        seen, head = set(), []
        for e in lines[:pos]:
            if e["key"] not in seen:
                seen.add(e["key"])
                head.append(e)
        v = pv.validate_trace("ObsTrace", "ObsTrace", head + lines[pos:], "C18/obs-%d" % (guard % 3), timeout=3000, heap="8g")
        pv.tlc_or_die(v.res, "ObsTrace")
        c.states += v.res.distinct
        c.transitions += v.res.generated
        if v.accepted:
            c.traces += len(lines) - pos
            break
        k = pos + v.matched - len(head)
        bad = lines[k]
        first = [e for e in lines if e["key"] == bad["key"]][0]
        c.traces += k - pos
        c.violation("observable %s changes under variant '%s' by more than the induced index permutation (units of the quantum: %s vs %s)" % (
            bad["key"], bad["var"], first["vals"][:6], bad["vals"][:6]), {"scenario": info[k], "observable": bad["key"]}, cls="relabel:invariance")
        pos = k + 1
    c.rule = "relabelling: %d models x {reference, renamed sites (reversed map order), spin-major ordering}; " % len(base) + "all lattices <=3 sites x 1..3 orbitals x 1..3 spins x both modes (1638), each under shuffled insertion order and %s labelling(s); non-trivial = distinct (lattice, mode)" % (3 if thorough else 1)
    c.exhaustive = True
    c.trusted = ["TLC", "harness/pv_index.hpp"]
    # call histories of the documented workflow with every object constructed up front (spec/Workflow.tla)
    import workflow
    workflow.attach(c, {"IC"}, 'index classification')
    c.finish()


def replay(path):
    obj = json.load(open(path))["replay"]
    exe = pv.harness("plain", "pv_driver")
    recs, crashed = pv.run_driver_resilient(exe, [obj])
    print(recs, crashed)
    if crashed:
        return 1
    v = pv.validate_trace("IndexTrace", "IndexTrace", [r for r in recs if r.get("e") == "Index"], "C18/replay")
    return 0 if v.accepted else 1
