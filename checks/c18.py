"""C18 -- index bookkeeping is a bijection; physics invariant under relabelling.

Specification: spec/Indexing.tla.
  (1) TLC: for every lattice with <= 3 sites x 1..3 orbitals x 1..3 spins and both ordering modes the design level
      (the two enumeration orders of prepare()) satisfies the definition level (bijection, mutual inverses);
  (2) every such lattice is built in the real library under several labellings and insertion orders, the tables
      returned by getInfo/getIndex are recorded, and IndexTrace.tla checks the definition level on the recorded tables;
  (3) relabelling / ordering-mode invariance of observables (added with the model harness, see c18 part 2).
"""
import json, random, sys
import pv

LABELSETS = [["A", "B", "C"], ["x1", "x10", "x2"], ["Z", "a", "_"], ["b", "A", "aa"], ["site 1", "site-2", "s"]]


def main():
    c = pv.Check("C18")
    thorough = c.tier == "thorough"
    rng = random.Random(c.seed)
    exe = pv.harness("plain", "pv_driver")
    res = pv.run_tlc("IndexingMC", "IndexingMC", workers=8, timeout=900)
    c.add_tlc(res, "Indexing")
    if res.violated:
        pv.log("INFRA: Indexing.tla design level violates its definition level: %s" % res.violated)
        sys.exit(2)
    scen = []
    expect = {}
    for i, t in enumerate(res.pv):
        lat = t["lat"]
        nlab = 1 if not thorough else 3
        for j in range(nlab):
            labels = sorted(rng.choice(LABELSETS))[:len(lat)] if j else sorted(LABELSETS[i % len(LABELSETS)])[:len(lat)]
            sites = [[labels[k], lat[k]["orb"], lat[k]["spin"]] for k in range(len(lat))]
            rng.shuffle(sites)            # insertion order is not the label order
            sid = "%d.%d" % (i, j)
            scen.append({"kind": "index", "id": sid, "sites": sites, "mode": t["mode"]})
            expect[sid] = t
    recs, crashed = pv.run_driver_resilient(exe, scen, timeout=900)
    byid = {r["id"]: r for r in recs if r.get("e") == "Index"}
    good = []
    for s in scen:
        c.evaluations += 1
        t = expect[s["id"]]
        hetero = len({x["spin"] for x in t["lat"]}) > 1
        cls = "prepare:spin-major:unequal-spin-counts" if (t["mode"] and hetero) else "prepare"
        if s["id"] in crashed:
            c.violation("library crashed in IndexClassification::prepare(%s) for sites %s" % (s["mode"], s["sites"]), s, cls=cls + ":crash")
            continue
        r = byid.get(s["id"])
        if r is None or "ex" in r:
            c.violation("IndexClassification failed for sites %s: %s" % (s["sites"], r), s, cls=cls + ":exception")
            continue
        good.append(r)
        c.nontriv("%s/%s" % (json.dumps(t["lat"]), t["mode"]))
    c.sample(scen[len(scen) // 3])
    # recorded tables against the definition level
    pos = 0
    guard = 0
    ndesign = 0
    while pos < len(good) and guard < 30:
        guard += 1
        v = pv.validate_trace("IndexTrace", "IndexTrace", good[pos:], "C18/trace-%d" % guard, timeout=900)
        pv.tlc_or_die(v.res, "IndexTrace")
        c.states += v.res.distinct
        c.transitions += v.res.generated
        if guard == 1:
            c.tlc_cmds.append(v.res.cmd)
        if v.accepted:
            import re
            m = re.search(r"@@DESIGN\"?, (\d+), (\d+)", v.res.stdout)
            if m:
                ndesign += int(m.group(1))
            c.traces += len(good) - pos
            break
        bad = good[pos + v.matched]
        c.traces += v.matched
        s = [x for x in scen if x["id"] == bad["id"]][0]
        c.violation("recorded index table violates bijection/inverse: n=%s tab=%s" % (bad.get("n"), bad.get("tab")), s, cls="table")
        pos += v.matched + 1
    c.extra["tables_equal_to_design_level"] = ndesign
    c.rule = "all lattices <=3 sites x 1..3 orbitals x 1..3 spins x both modes (1638), each under shuffled insertion order and %s labelling(s); non-trivial = distinct (lattice, mode)" % (3 if thorough else 1)
    c.exhaustive = True
    c.trusted = ["TLC", "harness/pv_index.hpp"]
    c.finish()


def replay(path):
    obj = json.load(open(path))["replay"]
    exe = pv.harness("plain", "pv_driver")
    recs, crashed = pv.run_driver_resilient(exe, [obj])
    print(recs, crashed)
    if crashed:
        return 1
    v = pv.validate_trace("IndexTrace", "IndexTrace", [r for r in recs if r.get("e") == "Index"], "C18/replay")
    return 0 if v.accepted else 1
