"""C10 -- eigenbasis field operators are the rotated operators and obey the CAR.

Specification: spec/Fermion.tla (Jordan-Wigner matrices, CAR) and the definition written in FieldOpTrace.tla.
  (1) TLC: CAR and c = (c^+)^+ of the Jordan-Wigner matrices (OperatorAlgebraMC, CARHolds);
  (2) the real library on catalogue + random models (degenerate spectra included) under default / ignored / custom partitions:
      every stored c^+_i, c_i (container shortcut and one-by-one) and c^+_i c_j rotated back with the stored eigenvectors and
      compared with the exact Jordan-Wigner matrix by TLC (FieldOpTrace.tla).
"""
import json, random, sys
import pv, models


def main():
    c = pv.Check("C10")
    thorough = c.tier == "thorough"
    rng = random.Random(c.seed)
    exe = pv.harness("plain", "pv_driver")
    open(pv.SPEC + "/OperatorAlgebraCAR10.cfg", "w").write("SPECIFICATION Spec\nCONSTANTS\n  NM = %d\n  MaxLen = 0\nINVARIANTS CARHolds\nCHECK_DEADLOCK FALSE\n" % (4 if thorough else 3))
    r = pv.run_tlc("OperatorAlgebraMC", "OperatorAlgebraCAR10", workers=2, timeout=1200)
    c.add_tlc(r, "CAR")
    if r.violated:
        pv.log("INFRA: Fermion.tla violates CAR")
        sys.exit(2)
    scen = []

    def add(m, part):
        m = dict(m)
        m["id"] = "%d:%s" % (len(scen), m["id"])
        m["partition"] = part
        m["queries"] = [{"q": "c10"}]
        scen.append(m)

    base = models.catalogue(thorough)
    nrand = 25 if not thorough else 250
    for k in range(nrand):
        base.append(models.random_model(rng, "rnd%d" % k, max_modes=4 if not thorough else 5))
    for m in base:
        add(m, {"mode": "default"})
        if rng.random() < 0.4 or thorough:
            add(m, {"mode": "ignore"})
        if rng.random() < 0.5 or thorough:
            cands = models.linear_candidates(rng, m)
            add(m, {"mode": "custom", "ops": rng.sample(cands, rng.randint(1, min(2, len(cands))))})
    recs, crashed = pv.run_driver_resilient(exe, scen, timeout=3000, scen_timeout=180)
    byid = {r["id"]: r for r in recs if r.get("e") == "Q"}
    ev, sc_of = [], {}
    for s in scen:
        c.evaluations += 1
        sc_of[s["id"]] = s
        if s["id"] in crashed:
            c.violation("library crashed computing field operators of %s" % s["id"], s, cls="crash")
            continue
        r = byid.get(s["id"])
        if r is None or "fail" in r or "ex" in r:
            c.violation("field operators of %s failed: %s" % (s["id"], (r or {}).get("fail") or (r or {}).get("ex")), s, cls="exception")
            continue
        ev.append(r)
        c.nontriv(s["id"])
    c.sample({k: scen[1][k] for k in ("sites", "build", "partition")})
    pos, guard = 0, 0
    while pos < len(ev) and guard < 100:
        guard += 1
        v = pv.validate_trace("FieldOpTrace", "FieldOpTrace", ev[pos:], "C10/trace-%d" % (guard % 5), timeout=3000, heap="8g")
        pv.tlc_or_die(v.res, "FieldOpTrace")
        c.states += v.res.distinct
        c.transitions += v.res.generated
        if guard == 1:
            c.tlc_cmds.append(v.res.cmd)
        if v.accepted:
            c.traces += len(ev) - pos
            break
        bad = ev[pos + v.matched]
        c.traces += v.matched
        s = sc_of[bad["id"]]
        c.violation("field operators of %s (sites %s, build %s, partition %s) are not the rotated Jordan-Wigner operators" % (
            s["id"], s["sites"], json.dumps(s["build"])[:200], json.dumps(s["partition"])), s, cls="fieldop")
        pos += v.matched + 1
    import cplxtier, rankstier
    cplxtier.run(c, {"q": "c10"}, "FieldOpTrace", "C10", "field operators", 8 if not thorough else 80)
    # the operators every rank holds (eigenvectors are broadcast, operators are computed on every rank)
    sub = [s for s in scen if s["id"] not in crashed][: (16 if not thorough else 80)]
    rankstier.run(c, sub, "FieldOpTrace", "C10", "field operators", nranks=3)
    c.rule = "catalogue + %d random models x partitions, all indices, container and one-by-one routes, all c^+_i c_j; non-trivial = distinct (model, partition)" % nrand
    c.trusted = ["TLC", "harness rotation U_to.part.U_from^+ (Eigen arithmetic)"]
    c.assumptions = ["tolerance 1e-9 per entry", "real build"]
    # call histories of the documented workflow (spec/Workflow.tla): repeated prepare()/compute() are no-ops, a call changes the data of
    # its own object only, and whatever the history, the finished object holds the data of the canonical linear order
    import workflow
    workflow.attach(c, {"CX", "C", "QA", "OPS"}, 'field operators')
    c.finish()


def replay(path):
    obj = json.load(open(path))["replay"]
    exe = pv.harness("plain", "pv_driver")
    recs, crashed = pv.run_driver_resilient(exe, [obj])
    ev = [r for r in recs if r.get("e") == "Q"]
    if crashed or not ev:
        return 1
    v = pv.validate_trace("FieldOpTrace", "FieldOpTrace", ev, "C10/replay")
    print("accepted:", v.accepted)
    return 0 if v.accepted else 1
