"""C17 -- no out-of-bounds access or undefined behaviour on any supported workflow.

Specification: spec/Chase.tla models the three index-chasing loops (GreensFunctionPart::compute, SusceptibilityPart::compute, chaseIndices
with its caller) over all pairs of ascending index sets within 0..4 and TLC checks InBounds (no index() on an invalid iterator) and
Complete (exactly the common indices are found); its counter-examples for the unguarded loops are the sparsity patterns "the lagging
iterator ends before reaching the other index", realised by off-diagonal components whose operators share a block.
The abstract variable of the property, "the run has executed no undefined behaviour so far", is observed through AddressSanitizer +
UndefinedBehaviorSanitizer: the library and the harness are rebuilt with -fsanitize=address,undefined and the scenario families of
C01-C15, C18-C20 are replayed (lattice histories, index tables, storage, operator algebra incl. the == shape probes, container
histories, and the full workflow -- symmetry analysis, diagonalisation, density matrix with truncation, field operators, G incl.
tau, chi incl. empty frequency lists and both table paths, vertex storage, susceptibilities, averages -- on catalogue, random and
exact-family models under default and ignored symmetries, i.e. with many 1x1 blocks and with one big block).
Level: exploration (sanitizers see executed paths only; single rank).
"""
import itertools, json, random, sys
import pv, models, exact
import c20, c13


def workflow_queries(rng, M, beta):
    pairs = [[i, j] for i in range(M) for j in range(M)]
    quads = [[rng.randrange(M) for _ in range(4)] for _ in range(3)] + [[0, M - 1, M - 1, 0], [0, 0, 0, 0]]
    tri = [[0, 0, 0], [1, 0, 1], [0, 1, 1], [-1, 0, 0]]
    return [{"q": "index"}, {"q": "hpoly"}, {"q": "c07"}, {"q": "c03", "scale": 16}, {"q": "c10"}, {"q": "spectrum"}, {"q": "eig"},
            {"q": "dm", "beta": beta},
            {"q": "gf", "beta": beta, "pairs": pairs, "ns": [-2, 0, 3], "zs": [["0.3", "1.1"]], "taus": ["0", repr(float(beta) / 2), beta], "terms": True},
            {"q": "gf", "beta": beta, "pairs": pairs[:4], "ns": [0], "via": "container", "fill_all": True},
            {"q": "chi", "beta": beta, "quads": quads, "triples": tri, "tables": True},
            {"q": "chi", "beta": beta, "quads": quads[:2], "triples": [], "tables": True},
            {"q": "sus", "beta": beta, "quads": quads[:3], "ns": [-1, 0, 1], "taus": ["0.1"]},
            {"q": "vertex", "beta": beta, "quads": quads[:2], "windows": [0, 1], "triples": tri},
            {"q": "parts", "beta": beta, "pairs": pairs[:6], "quads": quads[:2], "sus": quads[:2]},
            {"q": "truncate", "beta": beta, "eps": "1e-3"},
            {"q": "gf", "beta": beta, "pairs": pairs[:6], "ns": [0]},
            {"q": "chi", "beta": beta, "quads": quads[:2], "triples": tri[:2], "tables": False},
            {"q": "sus", "beta": beta, "quads": quads[:2], "ns": [0]},
            {"q": "dm", "beta": beta}]


def main():
    c = pv.Check("C17", level="exploration")
    thorough = c.tier == "thorough"
    rng = random.Random(c.seed)
    r = pv.run_tlc("ChaseMC", "ChaseMC", workers=4, timeout=900)
    c.add_tlc(r, "ChaseMC")
    if r.violated:
        pv.log("INFRA: Chase.tla (guarded loops) violates %s" % r.violated)
        sys.exit(2)
    exe = pv.harness("asan", "pv_driver")
    scen = []
    k = 0
    for _ in range(40 if not thorough else 400):
        k += 1
        scen.append({"kind": "lattice", "id": "lat%d" % k, "calls": c20.random_history(rng, 20), "log": "last"})
    for _ in range(40 if not thorough else 300):
        k += 1
        n = rng.randint(1, 3)
        sites = [[chr(97 + i) * rng.randint(1, 2), rng.randint(1, 3), rng.randint(1, 3)] for i in range(n)]
        scen.append({"kind": "index", "id": "idx%d" % k, "sites": sites, "mode": rng.random() < 0.5})
    for n in range(0, 4):
        scen.append({"kind": "store", "id": "store%d" % n, "N": n})
    # the same storage object refilled with shrinking, vanishing and growing windows
    for (i, Ns) in enumerate([[3, 1, 2, 0, 2, 1], [2, 0, 0, 3], [1, 0, 1]] + ([[4, 0, 4, 2, 0, 1, 3]] if thorough else [])):
        scen.append({"kind": "store", "id": "storeh%d" % i, "Ns": Ns})
    m2 = [list(t) for nlen in (1, 2, 3) for t in itertools.product([[cc, i] for cc in (0, 1) for i in range(3)], repeat=nlen)]
    for _ in range(120 if not thorough else 1500):
        k += 1
        poly = lambda: [[rng.choice([1, -1, 2]), 0, rng.choice(m2) if rng.random() < 0.9 else []] for _ in range(rng.randint(1, 3))]
        scen.append({"kind": "algebra", "id": "alg%d" % k, "M": 3, "A": poly(), "B": poly(), "C": poly(), "alpha": [rng.choice([0, 2]), 0]})
    for (A, B) in [([[1, 0, [[0, 0], [0, 1]]]], [[1, 0, [[0, 0]]]]), ([[1, 0, [[0, 0]]]], [[1, 0, [[0, 0], [0, 1]]]]), ([[1, 0, [[1, 0], [0, 0]]]], [[2, 0, []]]), ([[2, 0, []]], [[1, 0, [[1, 0], [0, 0]]]])]:
        k += 1
        scen.append({"kind": "algebra", "id": "alg%d" % k, "M": 2, "A": A, "B": B, "alpha": [1, 0]})
    for M in (2, 4):
        scen.append({"kind": "nsz", "id": "nsz%d" % M, "M": M, "up": list(range(0, M, 2))})
    base = c13.base_model()
    for h in range(8 if not thorough else 60):
        mm = dict(base if h % 2 == 0 else models.dimer())
        mm.update({"kind": "container4", "id": "cont%d" % h, "beta": "1.5", "triples": c13.TRIPLES[:3], "calls": c13.random_history(rng, 2 if h % 2 == 0 else 4, 10), "log": "last"})
        scen.append(mm)
    wf = models.catalogue(thorough) + [models.random_model(rng, "rnd%d" % i, max_modes=4, spins=(1, 2, 2, 3)) for i in range(8 if not thorough else 80)]
    for m in wf:
        M = models.nmodes(m)
        for part in ({"mode": "default"}, {"mode": "ignore"}):
            s = dict(m)
            s["id"] = "wf:%s:%s" % (m["id"], part["mode"])
            s["partition"] = part
            s["queries"] = workflow_queries(rng, M, rng.choice(["0.7", "3.0", "30.0"]))
            scen.append(s)
    ems = exact.catalogue(rng, Ms=(2, 3), per_M=3 if not thorough else 8, prefix="X")
    res, pred = exact.evaluate(ems, "C17/gen", timeout=1800)
    c.add_tlc(res, "LehmannGen")
    for m in ems:
        if m["id"] in pred:
            for part in ({"mode": "default"}, {"mode": "ignore"}):
                scen.append(exact.scenario(m, pred[m["id"]], id="ex:%s:%s" % (m["id"], part["mode"]), partition=part, queries=workflow_queries(rng, m["M"], "2.0")))
    recs, crashed = pv.run_driver_resilient(exe, scen, timeout=3000)
    kinds = {}
    for s in scen:
        c.evaluations += 1
        kind = s["id"].split(":")[0].rstrip("0123456789")
        kinds[kind] = kinds.get(kind, 0) + 1
        if s["id"] in crashed:
            why = crashed[s["id"]]
            cls = "sanitizer:" + why.split(" in ")[-1].split(" <- ")[0].strip() if "SANITIZER" in why else "crash"
            c.violation("scenario %s: %s" % (s["id"], why[:400]), s, cls=cls)
        else:
            c.nontriv(s["id"])
    # workflow stages that could not run are reported (they would hide paths from the sanitizers)
    for r in recs:
        if r.get("e") == "Q" and ("fail" in r) and r["id"].startswith(("wf:", "ex:")):
            c.notes.append("stage failure in %s: %s" % (r["id"], r["fail"]))
    c.extra["scenarios_by_kind"] = kinds
    c.sample({"id": scen[-1]["id"], "queries": [q["q"] for q in scen[-1]["queries"]]})
    c.sample(scen[0])
    c.rule = "every scenario is one run of the sanitised library; non-trivial = scenarios that ran to completion without a sanitizer report (distinct inputs); families: " + json.dumps(kinds)
    c.trusted = ["AddressSanitizer / UndefinedBehaviorSanitizer (gcc 12) as the monitor", "TLC for Chase.tla"]
    c.assumptions = ["only executed paths of single-rank runs are observed", "leak detection off (the library leaks by design)"]
    # every documented transition of the life-cycle graph (spec/Workflow.tla; repeated and interleaved prepare/compute/get calls) plus
    # simulated long histories, executed by the sanitised library
    import workflow
    workflow.attach(c, set(), "workflow", variant="asan")
    c.finish()


def replay(path):
    obj = json.load(open(path))["replay"]
    exe = pv.harness("asan", "pv_driver")
    recs, crashed = pv.run_driver_resilient(exe, [obj])
    print(crashed)
    return 1 if crashed else 0
