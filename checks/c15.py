"""C15 -- vertex and its precomputed Matsubara storage are transparent.

Specification: spec/MatsubaraStore.tla (layout of MatsubaraContainer4, transparency, exact window, fill covers slots).
  (1) TLC: Transparent / WindowExact / FillCoversSlots for N = 0..4 (thorough: 0..6) on the box +-(2N+3);
  (2) the real template instantiated over a probe source whose value encodes its arguments: Fill and Lookup events
      are validated against the specification by TLC (StoreTrace.tla);
  (3) real Vertex4 objects: operator() vs value() bit-for-bit on the box for N = 0..3, and value() against
      chi - chi0 assembled from the library's own chi and G (documented combination).
"""
import json, re, sys
import pv, models


def cplx(p):
    return complex(float(p[0]), float(p[1]))


def main():
    c = pv.Check("C15")
    thorough = c.tier == "thorough"
    exe = pv.harness("plain", "pv_driver")
    cfg = "MatsubaraStoreMC"
    res = pv.run_tlc("MatsubaraStoreMC", cfg, workers=5, timeout=900)
    c.add_tlc(res, "MatsubaraStore")
    if res.violated:
        pv.log("INFRA: MatsubaraStore.tla design level violates its definition level: %s" % res.violated)
        sys.exit(2)
    # (1b) Apalache: the same two layout properties for EVERY window size N >= 0 and EVERY integer triple (unbounded integers, SMT)
    import subprocess, os, shutil, tempfile
    od = tempfile.mkdtemp(prefix="apa-", dir=os.path.join(pv.VERIF, "build"))
    try:
        p = subprocess.run(["timeout", "600", "apalache-mc", "check", "--init=Init", "--next=Next", "--inv=Inv", "--length=0", "--out-dir=" + od, os.path.join(pv.SPEC, "StoreApa.tla")],
                           stdout=subprocess.PIPE, stderr=subprocess.STDOUT, text=True, cwd=od)
        out = p.stdout
    finally:
        shutil.rmtree(od, ignore_errors=True)
    if "The outcome is: NoError" in out:
        c.extra["apalache_unbounded_N"] = "Transparent and WindowExact hold for all N >= 0 and all integer triples"
        c.tlc_cmds.append("apalache-mc check --inv=Inv --length=0 spec/StoreApa.tla")
    elif "The outcome is: Error" in out:
        pv.log("INFRA: StoreApa.tla (unbounded layout) has a counter-example; the specification is wrong\n" + out[-1500:])
        sys.exit(2)
    else:
        c.extra["apalache_unbounded_N"] = "not completed (bounded TLC result stands alone): " + out[-200:]

    # (2) probe
    maxn = 4 if not thorough else 6
    scen = [{"kind": "store", "id": "N%d" % n, "N": n} for n in range(0, maxn + 1)]
    # the same object refilled with shrinking and growing windows (stale slots of an earlier, larger window must never be served)
    scen += [{"kind": "store", "id": "hist1", "Ns": [3, 1, 2, 0, 2, 1] if not thorough else [4, 1, 3, 0, 2, 5, 2, 1]},
             {"kind": "store", "id": "hist2", "Ns": [2, 1, 3, 2] if not thorough else [5, 3, 4, 2, 1, 0, 3]}]
    recs, crashed = pv.run_driver_resilient(exe, scen, timeout=900)
    # a large window filled with several OpenMP threads active (the library is built with OpenMP; any loop over the slices may be parallel)
    big = [{"kind": "store", "id": "N9t3", "N": 9, "box": 12}] + ([{"kind": "store", "id": "N12t4", "N": 12, "box": 15}] if thorough else [])
    recs_b, crashed_b = pv.run_driver_resilient(exe, big, timeout=900, threads=3 if not thorough else 4)
    recs += recs_b
    crashed.update(crashed_b)
    scen = scen + big
    for s in scen:
        if s["id"] in crashed:
            c.violation("MatsubaraContainer4 crashed for N=%s" % (s.get("N", s.get("Ns")),), s, cls="store:crash")
    ev = [r for r in recs if r.get("e") in ("Fill", "Lookup")]
    pos, guard = 0, 0
    while pos < len(ev) and guard < 20:
        guard += 1
        v = pv.validate_trace("StoreTrace", "StoreTrace", ev[pos:], "C15/trace-%d" % guard, timeout=900)
        pv.tlc_or_die(v.res, "StoreTrace")
        c.states += v.res.distinct
        c.transitions += v.res.generated
        if guard == 1:
            c.tlc_cmds.append(v.res.cmd)
        if v.accepted:
            m = re.search(r"@@LAYOUT\"?, (\w+)", v.res.stdout)
            c.extra["layout_equals_design_level"] = (m.group(1) == "TRUE") if m else None
            c.traces += 1
            break
        bad = ev[pos + v.matched]
        what = "storage not transparent for N=%s" % bad.get("N")
        if bad["e"] == "Lookup":
            wrong = [[bad["n1"]] + r for r in bad["rows"] if [bad["n1"], r[0], r[1]] != r[2:5]][:3]
            what += ": (n1,n2,n3,returned...) %s" % wrong
        c.violation(what, {"kind": "store", "N": bad.get("N"), "event": {k: bad[k] for k in bad if k != "rows"}}, cls="store")
        # skip to the next N
        nxt = pos + v.matched + 1
        while nxt < len(ev) and ev[nxt]["e"] != "Fill":
            nxt += 1
        pos = nxt
    for r in ev:
        if r["e"] == "Lookup":
            c.evaluations += len(r["rows"])
    c.sample({"N": 2, "lookup": [1, -3, 1], "meaning": "store(n1,n2,n3) over a probe source must decode to (n1,n2,n3)"})
    for n in range(0, maxn + 1):
        c.nontriv("probe N=%d" % n)
    c.nontriv("probe refill histories")

    # (3) real Vertex4
    # inequivalent sites / a polarised site: G14 and G23 (and G13, G24) must be different functions, otherwise exchanging them is invisible
    magn = models.model("atom(U=8,e=-4,h=4)", [["A", 1, 2]], [["Preset", 1, ["addCoulombS", "A", 8, -4]], ["Preset", 1, ["addMagnetization", "A", 4]]])
    ms = [models.hubbard_atom(), models.dimer(), models.spinflip_atom(), models.dimer(t=4, U=0, eps=0, eps2=8), magn]
    if thorough:
        ms += [models.pair_atom(), models.mixed_sites(), models.hubbard_atom(U=0, eps=4)]
    scen = []
    for mi, m in enumerate(ms):
        quads = [[0, 1, 1, 0], [0, 0, 0, 0], [1, 0, 1, 0]] if not thorough else [[0, 1, 1, 0], [0, 0, 0, 0], [1, 0, 1, 0], [0, 1, 0, 1], [1, 1, 1, 1]]
        triples = [[a, b, d] for a in (-2, -1, 0, 1) for b in (-2, -1, 0, 1) for d in (-2, -1, 0, 1)]
        if models.nmodes(m) >= 3:
            quads = quads + [[0, 2, 2, 0], [0, 2, 0, 2], [2, 0, 0, 2]]
        m = dict(m)
        # a temperature scan in one process: every Vertex4 uses its own beta (nothing may be shared between vertex objects)
        betas = [["3.0", "1.25"], ["7.5"], ["2.0"], ["3.0"], ["0.75"], ["5.0"], ["3.0"], ["1.5"]][mi % 8]
        m["queries"] = [{"q": "vertex", "beta": b, "quads": quads if bi == 0 else quads[:1], "windows": ([2, 0, 3, 1, 2] if thorough else [2, 0, 1, 2]) if bi == 0 else [1],
                         "triples": triples} for bi, b in enumerate(betas)]
        scen.append(m)
    recs, crashed = pv.run_driver_resilient(exe, scen, timeout=1500)
    for s in scen:
        if s["id"] in crashed:
            c.violation("library crashed computing the vertex of %s" % s["id"], s, cls="vertex:crash")
    for r in recs:
        if r.get("q") != "vertex":
            continue
        if "ex" in r or "fail" in r:
            c.violation("vertex computation failed for %s: %s" % (r["id"], r.get("ex") or r.get("fail")), [s for s in scen if s["id"] == r["id"]][0], cls="vertex:exception")
            continue
        beta = float(r["beta"])
        for o in r["vertex"]:
            for w in o["windows"]:
                c.evaluations += w["total"]
                c.nontriv("%s %s N=%d" % (r["id"], o["q"], w["N"]))
                if w["bitdiff"]:
                    c.violation("%s quad %s: storage (N=%d) differs from value() at %d of %d triples, first %s" % (
                        r["id"], o["q"], w["N"], w["bitdiff"], w["total"], w["first"]),
                        {"model": [s for s in scen if s["id"] == r["id"]][0], "quad": o["q"], "N": w["N"], "first": w["first"]}, cls="vertex:storage")
            for vv in o["values"]:
                n1, n2, n3 = vv["t"]
                chi0 = 0
                if n2 == n3:
                    chi0 += beta * cplx(vv["g14"]) * cplx(vv["g23"])
                if n1 == n3:
                    chi0 -= beta * cplx(vv["g13"]) * cplx(vv["g24"])
                want = cplx(vv["chi"]) - chi0
                got = cplx(vv["value"])
                c.evaluations += 1
                if not (abs(want - got) <= 1e-12 * (abs(want) + abs(chi0) + abs(cplx(vv["chi"]))) + 1e-14):
                    c.violation("%s quad %s at %s: value()=%s but chi-chi0=%s" % (r["id"], o["q"], vv["t"], got, want),
                                {"model": [s for s in scen if s["id"] == r["id"]][0], "quad": o["q"], "t": vv["t"]}, cls="vertex:formula")
    c.sample({"model": ms[1]["id"], "build": ms[1]["build"], "quad": [0, 1, 1, 0], "windows": [0, 1, 2]})
    c.rule = ("probe: every triple of the box +-(2N+3) for N=0..%d; vertex: %d models x quadruples x windows, every triple of the box; "
              "non-trivial = distinct (source, quadruple, window)" % (maxn, len(ms)))
    c.exhaustive = True
    c.trusted = ["TLC", "harness/pv_store.hpp probe encoding", "python assembly of chi - chi0 from the library's own chi and G"]
    c.assumptions = ["lookups before the first compute() are outside the specification (a Fill comes first)"]
    # call histories of the documented workflow (spec/Workflow.tla): repeated prepare()/compute() are no-ops, a call changes the data of
    # its own object only, and whatever the history, the finished object holds the data of the canonical linear order
    import workflow
    workflow.attach(c, {"V"}, 'vertex')
    c.finish()


def replay(path):
    print("re-run ./check C15; replay file:", path)
    print(open(path).read()[:2000])
    return 1
