"""C16 -- the job dispatcher runs every job exactly once and always terminates.

Specification: spec/Dispatcher.tla (master/worker protocol of mpi_dispatcher.cpp driven by the loop of mpi_skel::run,
one action per MPI call, FIFO channels, R consecutive rounds).
  (1) TLC: ExactlyOnce, AtMostOnce, MapTruthful, MapComplete, Drained, StackSound, FinishSafe on every reachable state
      (all interleavings) for small P, J, R; Termination under weak fairness (FairSpec);
  (2) real runs of mpi_skel<CountingJob>::run under mpiexec with seeded delays at every MPI call: the per-rank PMPI logs
      must admit an interleaving that is a behaviour of the specification (DispatcherTrace.tla), with the invariants
      evaluated along it and the returned maps compared on all ranks;
  (3) independent of TLC, the harness-level facts (each job once per round, identical maps, map truthful) are asserted.
A run that exceeds its time limit twice with the same seed is a non-termination violation.
"""
import json, os, random, sys
import pv, mpi


def write_cfg(name, P, J, R, live=False, boss=True):
    b = "TRUE" if boss else "FALSE"
    # a pure master may be given any distinct job ids (constructor taking the list): model-check with sparse, unordered-looking ids
    J = "{%s}" % ", ".join(str(i if boss else (7 * i + 3) % 11) for i in range(J))
    with open(os.path.join(pv.SPEC, name + ".cfg"), "w") as f:
        if live:
            f.write("SPECIFICATION FairSpec\nCONSTANTS\n  P = %d\n  JobIds = %s\n  R = %d\n  BossWorks = %s\nPROPERTY Termination\nCHECK_DEADLOCK FALSE\n" % (P, J, R, b))
        else:
            f.write("SPECIFICATION Spec\nCONSTANTS\n  P = %d\n  JobIds = %s\n  R = %d\n  BossWorks = %s\nINVARIANTS TypeOK ExactlyOnce AtMostOnce MapTruthful MapComplete RealJobs Drained StackSound FinishSafe\nCHECK_DEADLOCK FALSE\n" % (P, J, R, b))


def scenario(rng, J, R, seed):
    comp, us = [], []
    for r in range(R):
        c = list(range(1, J + 1))
        rng.shuffle(c)
        if J >= 2 and rng.random() < 0.3:
            c[0] = c[1]          # ties are legal input too
        comp.append(c)
        us.append([rng.choice([0, 0, 50, 400, 3000]) for _ in range(J)])
    return {"mode": "dispatch", "J": J, "R": R, "complexity": comp, "usec": us, "seed": seed, "maxus": rng.choice([0, 200, 1500])}


def scenario_pure_master(rng, J, R, seed, joblist):
    """rank 0 is a pure master (MPIMaster(..., include_boss = false)); joblist selects the constructor taking the vector of job ids"""
    sc = scenario(rng, J, R, seed)
    sc.update({"mode": "dispatch_nomaster", "joblist": joblist, "boss": False})
    if joblist and J and seed % 3:
        # the list constructor takes the job ids themselves: a sparse selection (re-running a subset), not a permutation of 0..J-1
        sc["ids"] = sorted(rng.sample(range(0, 40), J), key=lambda _: rng.random())
    return sc


def harness_facts(run, P, J, R, boss=True, ids=None):
    """returns None or a description of a violated fact"""
    ids = sorted(ids) if ids is not None else list(range(J))
    maps = []
    runs = {}
    for k, evs in enumerate(run.logs):
        rnd = 1
        for e in evs:
            if e.get("e") == "Run":
                runs.setdefault(rnd, []).append((e["job"], k))
            elif e.get("e") == "RoundEnd":
                maps.append((k, e["round"], tuple(tuple(x) for x in e["map"])))
                rnd += 1
            elif e.get("e") in ("Terminate", "Watchdog"):
                return "rank %d: %s %s" % (k, e.get("e"), e.get("what", ""))
    for r in range(1, R + 1):
        jobs = sorted(j for (j, k) in runs.get(r, []))
        if jobs != ids:
            return "round %d executed jobs %s, expected each of %s exactly once" % (r, jobs, ids)
        ms = {m for (k, rr, m) in maps if rr == r and (boss or k == 0)}       # a pure master alone holds the map
        if len(ms) != 1 or len([1 for (k, rr, m) in maps if rr == r]) != P:
            return "round %d: returned maps differ between ranks or are missing: %s" % (r, sorted(ms)[:3])
        m = dict(list(ms)[0])
        if sorted(m) != ids:
            return "round %d: the returned map has keys %s, the jobs are %s" % (r, sorted(m), ids)
        for (j, k) in runs.get(r, []):
            if m.get(j) != k:
                return "round %d: map says job %d ran on rank %s, it ran on rank %d" % (r, j, m.get(j), k)
    return None


def main():
    c = pv.Check("C16")
    thorough = c.tier == "thorough"
    rng = random.Random(c.seed)
    exe = pv.harness("plain", "pv_mpi")

    # (1) model checking
    safety = [(1, 2, 2), (2, 0, 2), (2, 3, 2), (3, 1, 1), (3, 2, 2), (3, 3, 1)] if not thorough else \
             [(1, 3, 3), (2, 0, 2), (2, 4, 2), (3, 2, 2), (3, 3, 2), (3, 4, 1), (4, 2, 2), (4, 3, 1), (4, 4, 1)]
    pure = [(2, 2, 2), (3, 0, 1), (3, 3, 1)] if not thorough else [(2, 3, 3), (3, 0, 2), (3, 3, 2), (4, 2, 2), (4, 4, 1)]
    for (P, J, R, boss) in [(P, J, R, True) for (P, J, R) in safety] + [(P, J, R, False) for (P, J, R) in pure]:
        write_cfg("DispatcherGen", P, J, R, boss=boss)
        r = pv.run_tlc("Dispatcher", "DispatcherGen", workers=16, timeout=3000, heap="16g")
        c.add_tlc(r, "Dispatcher P=%d J=%d R=%d boss=%s" % (P, J, R, boss))
        if r.violated:
            pv.log("INFRA: Dispatcher.tla violates %s for P=%d J=%d R=%d boss=%s\n%s" % (r.violated, P, J, R, boss, r.stdout[-3000:]))
            sys.exit(2)
        c.nontriv("mc P=%d J=%d R=%d boss=%s" % (P, J, R, boss))
    live = [(1, 1, 2), (2, 2, 1), (3, 2, 1), (2, 1, 2)] if not thorough else [(1, 2, 2), (2, 3, 1), (3, 3, 1), (2, 2, 2), (4, 2, 1)]
    for (P, J, R, boss) in [(P, J, R, True) for (P, J, R) in live] + [(2, 2, 1, False), (3, 1, 2, False)]:
        write_cfg("DispatcherGen", P, J, R, live=True, boss=boss)
        r = pv.run_tlc("Dispatcher", "DispatcherGen", workers=8, timeout=3000, heap="16g")
        c.add_tlc(r, "Dispatcher liveness P=%d J=%d R=%d boss=%s" % (P, J, R, boss))
        if r.violated:
            pv.log("INFRA: Dispatcher.tla violates Termination for P=%d J=%d R=%d boss=%s\n%s" % (P, J, R, boss, r.stdout[-3000:]))
            sys.exit(2)
        c.nontriv("live P=%d J=%d R=%d boss=%s" % (P, J, R, boss))

    # (2)+(3) real runs
    grid = [(1, 2, 1), (2, 0, 1), (2, 1, 3), (2, 5, 1), (3, 2, 3), (3, 5, 1), (3, 9, 1), (4, 1, 1), (4, 5, 3), (4, 9, 1), (8, 2, 1), (8, 9, 3)]
    seeds = 2 if not thorough else 12
    if thorough:
        grid += [(2, 9, 3), (3, 0, 3), (5, 9, 1), (8, 5, 1), (16, 9, 1), (16, 20, 1)]
    n = 0
    # rank 0 as a pure master (both MPIMaster constructors: number of jobs / explicit list of job ids)
    pm = [(2, 3, 2, "n"), (3, 0, 1, "n"), (3, 5, 2, "l"), (4, 2, 1, "l"), (4, 7, 1, "n"), (8, 9, 2, "l")] + ([(5, 9, 3, "n"), (16, 20, 1, "l")] if thorough else [])
    for (P, J, R, how) in [(P, J, R, "skel") for (P, J, R) in grid] + pm:
        if len(c.violations) >= 6:
            break           # the tree is broken: further runs would each cost their full time-out
        boss = how == "skel"
        for s in range(seeds):
            n += 1
            seed = c.seed * 1000 + n
            sc = scenario(rng, J, R, seed) if boss else scenario_pure_master(rng, J, R, seed, how == "l")
            tag = "C16/run-%d" % n
            run = mpi.run_mpi(exe, sc, P, tag, timeout=60)
            c.evaluations += 1
            replay = {"P": P, "scenario": sc}
            if run.timed_out or run.rc != 0:
                run2 = mpi.run_mpi(exe, sc, P, tag + "-again", timeout=60)
                if run2.timed_out or run2.rc != 0:
                    what = "did not terminate within 60 s" if run2.timed_out else "exited with status %s: %s" % (run2.rc, run2.stderr[-300:])
                    c.violation("dispatch P=%d J=%d R=%d seed=%d %s (twice)" % (P, J, R, seed, what), replay, cls="termination" if run2.timed_out else "crash")
                    continue
                run = run2
            why = harness_facts(run, P, J, R, boss, sc.get("ids"))
            if why:
                c.violation("dispatch P=%d J=%d R=%d seed=%d%s: %s" % (P, J, R, seed, "" if boss else " (pure master)", why), replay, cls="facts")
                continue
            if P <= 8:
                lines = mpi.dispatcher_trace(run, J, R, boss, sc.get("ids"))
                ok, r = mpi.validate_dispatcher(lines, tag + "-trace", timeout=150)
                if r.error and not ok and "timeout" in r.error:
                    # the search for an interleaving did not finish: inconclusive (neither accepted nor refuted); the harness-level
                    # facts above have been checked for this run
                    c.notes.append("trace search inconclusive (time limit) for P=%d J=%d R=%d seed=%d" % (P, J, R, seed))
                    c.extra["inconclusive_traces"] = c.extra.get("inconclusive_traces", 0) + 1
                    continue
                if r.error and not ok:
                    pv.tlc_or_die(r, "DispatcherTrace")
                c.states += r.distinct
                c.transitions += r.generated
                if n == 1:
                    c.tlc_cmds.append(r.cmd)
                    c.sample({"P": P, "scenario": sc, "rank1_events": lines[min(1, P - 1)]["ev"][:8]})
                if not ok:
                    inv = r.violated if r.violated and r.violated != "NotAccepted" else None
                    c.violation("dispatch P=%d J=%d R=%d seed=%d: recorded logs are not a behaviour of Dispatcher.tla%s" % (
                        P, J, R, seed, (" (invariant %s violated on the matched prefix)" % inv) if inv else ""),
                        {"P": P, "scenario": sc, "trace": os.path.join(pv.OUT, tag + "-trace.ndjson")}, cls="trace")
                    continue
                c.traces += 1
            c.nontriv("run P=%d J=%d R=%d %s" % (P, J, R, how))
    c.rule = ("model checking: all interleavings for the listed (P,J,R); runs: %d configurations x %d seeds with seeded delays at every MPI call; "
              "non-trivial = distinct (P,J,R) configurations model-checked or run" % (len(grid), seeds))
    c.trusted = ["TLC", "PMPI interposition logger in harness/pv_mpi.cpp", "OpenMPI, Boost.MPI"]
    c.assumptions = ["blocking sends of one int are eager", "per-pair FIFO delivery", "MPI_Cancel of the re-posted receive takes effect before the next round's first send",
                     "schedules on the real code are sampled (seeded delays), exhaustive only in TLC"]
    c.finish()


def replay(path):
    obj = json.load(open(path))["replay"]
    exe = pv.harness("plain", "pv_mpi")
    run = mpi.run_mpi(exe, obj["scenario"], obj["P"], "C16/replay", timeout=60)
    print("rc", run.rc, "timed_out", run.timed_out)
    sc = obj["scenario"]
    boss = sc.get("boss", True)
    why = harness_facts(run, obj["P"], sc["J"], sc["R"], boss, sc.get("ids")) if not run.timed_out else "timeout"
    print("facts:", why)
    if why:
        return 1
    ok, r = mpi.validate_dispatcher(mpi.dispatcher_trace(run, sc["J"], sc["R"], boss, sc.get("ids")), "C16/replay-trace")
    print("trace accepted:", ok)
    return 0 if ok else 1
