"""C07 -- the symmetry analysis yields a sound partition of the Fock space for every lattice.

Specification: spec/Symmetry.tla (design level: acceptance, quantum numbers, blocks in order of first appearance, first-state
image rule, bimap insertion; definition level: PartitionOK, HBlockDiagonal, SingleTarget, BimapFaithful).
  (1) TLC (SymmetryMC): design level satisfies the definition level for a catalogue of models (N / S_z conserved or broken,
      spinless and three-component sites) under default, ignored and all single/pairs of linear custom candidates;
  (2) real lattices (catalogue + random Hermitian models with heterogeneous sites) under default / ignored / custom partitions:
      the recorded partition, addresses and bimaps of every c^+_i, c_i, c^+_i c_j are checked against the definition level
      with the exact Hamiltonian (SymmetryTrace.tla); the analysis must complete without error.
Known findings (not repaired): F14 non-linear integrals of motion, F17 non-dyadic coefficients hashed as doubles.
"""
import json, random, sys
import pv, models


def main():
    c = pv.Check("C07")
    thorough = c.tier == "thorough"
    rng = random.Random(c.seed)
    exe = pv.harness("plain", "pv_driver")
    r = pv.run_tlc("SymmetryMC", "SymmetryMC", workers=16, timeout=3000, heap="8g")
    c.add_tlc(r, "SymmetryMC")
    if r.violated:
        pv.log("INFRA: Symmetry.tla design level violates its definition level: %s\n%s" % (r.violated, r.stdout[-1500:]))
        sys.exit(2)
    r2 = pv.run_tlc("SymmetryMC", "SymmetryNonLinear", workers=8, timeout=3000, heap="8g")
    pv.tlc_or_die(r2, "SymmetryNonLinear")
    c.extra["spec_level_nonlinear_unsound"] = bool(r2.violated)

    scen = []

    def add(m, part, cls):
        m = dict(m)
        m["id"] = "%d:%s" % (len(scen), m["id"])
        m["partition"] = part
        m["cls"] = cls
        m["queries"] = [{"q": "c07"}]
        scen.append(m)

    base = models.catalogue(thorough)
    nrand = 30 if not thorough else 300
    for k in range(nrand):
        base.append(models.random_model(rng, "rnd%d" % k, max_modes=4 if not thorough else 5, spins=(1, 2, 2, 3)))
    for m in base:
        add(m, {"mode": "default"}, "default")
        add(m, {"mode": "ignore"}, "ignore")
        cands = models.linear_candidates(rng, m)
        for _ in range(2 if not thorough else 4):
            ops = rng.sample(cands, rng.randint(1, min(3, len(cands))))
            add(m, {"mode": "custom", "ops": ops}, "custom-linear")
        # the fermion parity: conserved by every model, not linear in the occupation numbers (the linear part 1 - 2N alone is NOT conserved
        # when a pair field breaks N), alone and next to linear candidates
        if models.nmodes(m) <= 4:
            add(m, {"mode": "custom", "ops": [models.parity(models.nmodes(m))]}, "custom-parity")
            add(m, {"mode": "custom", "ops": [models.parity(models.nmodes(m))] + rng.sample(cands, 1)}, "custom-parity")
    # symmetry broken only by a term that is tiny but numerically non-zero (2^-30 ... 2^-20): the acceptance test of an integral of motion
    # and the matrix elements H is built from must agree on what "zero" is, or H gets elements between blocks.  The specification
    # knows the unperturbed model only; the perturbation is seen through the library's own operator expression (event field "cross").
    for (k, ex) in enumerate((30, 26, 22) if not thorough else (34, 30, 28, 26, 24, 22, 20)):
        d2 = models.dimer()
        # transverse field on site A breaks S_z; a pair field on site B breaks N
        tf = [{"ops": [[1, "A", 0, 0], [0, "A", 0, 1]], "exp": ex}, {"ops": [[1, "A", 0, 1], [0, "A", 0, 0]], "exp": ex}]
        pf = [{"ops": [[1, "B", 0, 0], [1, "B", 0, 1]], "exp": ex}, {"ops": [[0, "B", 0, 1], [0, "B", 0, 0]], "exp": ex}]
        add(dict(d2, id="tinySx%d" % ex, tiny=tf), {"mode": "default"}, "default")
        add(dict(d2, id="tinyPair%d" % ex, tiny=pf), {"mode": "default"}, "default")
        add(dict(d2, id="tinyBoth%d" % ex, tiny=tf + pf), {"mode": "default"}, "default")
    # probes of the two recorded defects, in classes of their own
    diag = models.model("diag2", [["A", 1, 2]], [models.P("addCoulombS", "A", 8, -4)])
    add(diag, {"mode": "custom", "ops": [[[1, 1, [0, 1]]]]}, "custom-nonlinear:n0n1")
    diag4 = models.model("diag4", [["A", 1, 2], ["B", 1, 2]], [models.P("addCoulombS", "A", 8, -4), models.P("addCoulombS", "B", 4, 4)])
    add(diag4, {"mode": "custom", "ops": [[[1, 1, [0, 2]], [1, 1, [1, 3]]]]}, "custom-nonlinear:n0n2+n1n3")
    ph = models.model("pairhop", [["A", 1, 2], ["B", 1, 2]],
                      [models.T([[1, "B", 0, 0], [1, "B", 0, 1], [0, "A", 0, 1], [0, "A", 0, 0]], 4),
                       models.T([[1, "A", 0, 0], [1, "A", 0, 1], [0, "B", 0, 1], [0, "B", 0, 0]], 4)])
    add(ph, {"mode": "custom", "ops": [[[1, 10, [0]], [2, 10, [1]], [3, 10, [2]], [0, 10, [3]]]]}, "custom-nondyadic:pairhop")

    recs, crashed = pv.run_driver_resilient(exe, scen, timeout=3000, scen_timeout=180)
    byid = {r["id"]: r for r in recs if r.get("e") == "Q"}
    ev, sc_of = [], {}
    for s in scen:
        c.evaluations += 1
        sc_of[s["id"]] = s
        if s["id"] in crashed:
            c.violation("library crashed in the symmetry analysis of %s (sites %s, partition %s)" % (s["id"], s["sites"], json.dumps(s["partition"])), s, cls=s["cls"] + ":crash")
            continue
        r = byid.get(s["id"])
        if r is None or "fail" in r or "ex" in r:
            c.violation("analysis of %s (sites %s) did not complete: %s" % (s["id"], s["sites"], (r or {}).get("fail") or (r or {}).get("ex")), s, cls=s["cls"] + ":exception")
            continue
        ev.append(r)
        if r["nblocks"] > 1:
            c.nontriv(s["id"])
    c.sample({k: scen[3][k] for k in ("sites", "build", "partition")})
    c.sample({k: scen[-4][k] for k in ("sites", "build", "partition")})
    pos, guard = 0, 0
    while pos < len(ev) and guard < 100:
        guard += 1
        v = pv.validate_trace("SymmetryTrace", "SymmetryTrace", ev[pos:], "C07/trace-%d" % (guard % 5), timeout=3000, heap="8g")
        pv.tlc_or_die(v.res, "SymmetryTrace")
        c.states += v.res.distinct
        c.transitions += v.res.generated
        if guard == 1:
            c.tlc_cmds.append(v.res.cmd)
        if v.accepted:
            c.traces += len(ev) - pos
            break
        bad = ev[pos + v.matched]
        c.traces += v.matched
        s = sc_of[bad["id"]]
        c.violation("partition of %s (sites %s, build %s, partition %s) is unsound: blocks %s" % (
            s["id"], s["sites"], json.dumps(s["build"])[:200], json.dumps(s["partition"]), bad["block"]), s, cls=s["cls"])
        pos += v.matched + 1
    import cplxtier
    cplxtier.run(c, {"q": "c07"}, "SymmetryTrace", "C07", "symmetry analysis", 5 if not thorough else 50)
    c.rule = "catalogue + %d random Hermitian models (<= %d modes, spinless / 2- / 3-component sites) x {default, ignored, custom linear sets}; non-trivial = more than one block" % (nrand, 5 if thorough else 4)
    c.trusted = ["TLC", "harness c07 projection"]
    c.assumptions = ["exact Hamiltonian = documented operators of the build calls (C04)", "custom candidates are diagonal in the Fock basis"]
    # call histories of the documented workflow (spec/Workflow.tla): repeated prepare()/compute() are no-ops, a call changes the data of
    # its own object only, and whatever the history, the finished object holds the data of the canonical linear order
    import workflow
    workflow.attach(c, {"S", "SYM"}, 'symmetry analysis / states classification')
    c.finish()


def replay(path):
    obj = json.load(open(path))["replay"]
    exe = pv.harness("plain", "pv_driver")
    recs, crashed = pv.run_driver_resilient(exe, [obj])
    ev = [r for r in recs if r.get("e") == "Q"]
    print(json.dumps(ev)[:1500], crashed)
    if crashed or not ev:
        return 1
    v = pv.validate_trace("SymmetryTrace", "SymmetryTrace", ev, "C07/replay")
    print("accepted:", v.accepted)
    return 0 if v.accepted else 1
