"""C03 -- block-wise diagonalisation reproduces the full Hamiltonian's eigen-system.

Specification: spec/Fermion.tla + spec/Hamiltonian.tla (exact Fock-space matrix of H), spec/Symmetry.tla (blocks), and the
definition level written in SpectrumTrace.tla: prepared block matrices = exact H; H has no element between blocks; every block has
a complete set of orthonormal eigenvectors with vanishing residual against that exact matrix (=> the union of block spectra is the
spectrum of H); ground energy = minimum over blocks; getEigenValues() = concatenation; getEigenValue(label) = entry at
(block(label), position(label)).
  (1) TLC: the exact matrices are Hermitian and the design-level partitions sound (SymmetryMC, shared with C07);
  (2) the real library on catalogue + random Hermitian models under default / ignored / custom partitions (1x1 blocks together with
      large ones): query "c03" validated by TLC (SpectrumTrace.tla).
"""
import json, random, sys
import pv, models


def main():
    c = pv.Check("C03")
    thorough = c.tier == "thorough"
    rng = random.Random(c.seed)
    exe = pv.harness("plain", "pv_driver")
    r = pv.run_tlc("SymmetryMC", "SymmetryMC", workers=16, timeout=3000, heap="8g")
    c.add_tlc(r, "SymmetryMC")
    if r.violated:
        pv.log("INFRA: SymmetryMC violated: %s" % r.violated)
        sys.exit(2)
    scen = []

    def add(m, part):
        m = dict(m)
        m["id"] = "%d:%s" % (len(scen), m["id"])
        m["partition"] = part
        m["queries"] = [{"q": "c03", "scale": 16}]
        scen.append(m)

    base = models.catalogue(thorough)
    base += [dict(models.dimer(), id="tiny:dimer", unit_log2=30), dict(models.shifted(models.spinflip_atom(), 64), id="tiny:shift:sxatom", unit_log2=28)]
    nrand = 40 if not thorough else 400
    for k in range(nrand):
        base.append(models.random_model(rng, "rnd%d" % k, max_modes=4 if not thorough else 6))
        if k % 4 == 1:      # a constant on top: spectrum strictly positive, the vacuum is not at 0 and the ground energy not <= 0
            base[-1] = models.shifted(base[-1], 128 if k % 8 == 1 else 512)
        if k % 4 == 3:      # the same physics in an energy unit of 2^-30 (2^-27): no absolute threshold may decide what a matrix element is
            base[-1] = dict(base[-1], id="tiny:" + base[-1]["id"], unit_log2=30 if k % 8 == 3 else 27)
    for m in base:
        add(m, {"mode": "default"})
        if rng.random() < 0.5 or thorough:
            add(m, {"mode": "ignore"})
        cands = models.linear_candidates(rng, m)
        add(m, {"mode": "custom", "ops": rng.sample(cands, rng.randint(1, min(2, len(cands))))})
    recs, crashed = pv.run_driver_resilient(exe, scen, timeout=3000, scen_timeout=180)
    byid = {r["id"]: r for r in recs if r.get("e") == "Q"}
    ev, sc_of = [], {}
    for s in scen:
        c.evaluations += 1
        sc_of[s["id"]] = s
        if s["id"] in crashed:
            c.violation("library crashed diagonalising %s" % s["id"], s, cls="crash")
            continue
        r = byid.get(s["id"])
        if r is None or "fail" in r or "ex" in r:
            c.violation("diagonalisation of %s failed: %s" % (s["id"], (r or {}).get("fail") or (r or {}).get("ex")), s, cls="exception")
            continue
        ev.append(r)
        if max(r["sizes"]) > 1:
            c.nontriv(s["id"])
    c.sample({k: scen[2][k] for k in ("sites", "build", "partition")})
    pos, guard = 0, 0
    while pos < len(ev) and guard < 100:
        guard += 1
        v = pv.validate_trace("SpectrumTrace", "SpectrumTrace", ev[pos:], "C03/trace-%d" % (guard % 5), timeout=3000, heap="8g")
        pv.tlc_or_die(v.res, "SpectrumTrace")
        c.states += v.res.distinct
        c.transitions += v.res.generated
        if guard == 1:
            c.tlc_cmds.append(v.res.cmd)
        if v.accepted:
            c.traces += len(ev) - pos
            break
        bad = ev[pos + v.matched]
        c.traces += v.matched
        s = sc_of[bad["id"]]
        brief = {"ground": bad.get("ground"), "eig": [{k: b[k] for k in ("E", "residq", "orthoq", "n")} for b in bad.get("eig", [])][:4]}
        c.violation("eigen-system of %s (sites %s, build %s, partition %s) violates the definition: %s" % (
            s["id"], s["sites"], json.dumps(s["build"])[:200], json.dumps(s["partition"]), json.dumps(brief)[:300]), s, cls="spectrum")
        pos += v.matched + 1
    import cplxtier, rankstier
    cplxtier.run(c, {"q": "c03", "scale": 16}, "SpectrumTrace", "C03", "eigen-system", 6 if not thorough else 60)
    # the eigen-system every rank holds after the distributed diagonalisation (blocks are diagonalised on one rank and broadcast)
    sub = [s for s in scen if s["id"] not in crashed][: (24 if not thorough else 120)]
    rankstier.run(c, sub, "SpectrumTrace", "C03", "eigen-system", nranks=3)
    if thorough:
        rankstier.run(c, sub[:40], "SpectrumTrace", "C03", "eigen-system", nranks=5)
    c.rule = "catalogue + %d random Hermitian models (<= %d modes) x partitions; non-trivial = at least one block larger than 1x1" % (nrand, 6 if thorough else 4)
    c.trusted = ["TLC", "harness c03 (residuals computed against the prepared matrices that TLC compares with the exact ones)", "Eigen for the residual arithmetic"]
    c.assumptions = ["residual and orthonormality tolerance 1e-9 relative to max|H|", "real build"]
    # call histories of the documented workflow (spec/Workflow.tla): repeated prepare()/compute() are no-ops, a call changes the data of
    # its own object only, and whatever the history, the finished object holds the data of the canonical linear order
    import workflow
    workflow.attach(c, {"H", "HP"}, 'Hamiltonian / Hamiltonian part')
    c.finish()


def replay(path):
    obj = json.load(open(path))["replay"]
    exe = pv.harness("plain", "pv_driver")
    recs, crashed = pv.run_driver_resilient(exe, [obj])
    ev = [r for r in recs if r.get("e") == "Q"]
    print(json.dumps(ev)[:1500], crashed)
    if crashed or not ev:
        return 1
    v = pv.validate_trace("SpectrumTrace", "SpectrumTrace", ev, "C03/replay")
    print("accepted:", v.accepted)
    return 0 if v.accepted else 1
