"""C02 -- the two-particle Green's function equals its definition on both evaluation paths.

Specification: spec/Lehmann.tla ChiPaths on the exact family: for each of the six time orderings of c_i(t1), c_j(t2), c^+_k(t3) (c^+_l at 0)
every closed path a -> b -> c -> d -> a of non-zero exact matrix elements, with its sign and numerator; the comparator carries out the
time-ordered triple integral of the exponentials symbolically (iterated integration of exponential polynomials with an exact case
split on vanishing exponents), i.e. straight from the documented definition, not from the multi-term formula of the library, so
resonant cases (n1 = n3, n2 = n3, n1 + n2 = -1, coinciding levels) fall out of the integration.
  (1) TLC (LehmannGen): model obligations; prints the paths;
  (2) the real library, three evaluation paths per (model, beta, quadruple, triple): operator()(n1,n2,n3); the table of
      compute(false, freqs) (+ on-demand afterwards); the table of compute(true, freqs) (terms purged) on a fresh object;
      plus the empty frequency list and identically vanishing components (the table must have one entry per frequency).
"""
import itertools, json, random, sys
import mpmath as mp
import pv, exact

TRI = [[a, b, d] for a in (-2, -1, 0, 1) for b in (-2, -1, 0, 1) for d in (-2, -1, 0, 1)]


def main():
    c = pv.Check("C02")
    thorough = c.tier == "thorough"
    rng = random.Random(c.seed)
    exe = pv.harness("plain", "pv_driver")
    ms = [exact.make_model("atom", 2, [-1, -1], [(0, 1, 2)]),                    # half-filled Hubbard atom
          exact.make_model("free2", 2, [0, 1], []),                                # non-interacting
          exact.make_model("deg2", 2, [0, 0], []),                                 # atomic limit, maximal degeneracy
          exact.make_model("rot2", 2, [1, -2], [(0, 1, 3)], rot=[(0, 1)], layout=exact.LAYOUTS[2][1]),
          exact.make_model("bog2", 2, [1, -1], [(0, 1, 2)], bog=[(0, 1)]),
          # non-interacting AND rotated: blocks larger than 1x1 with coinciding level differences, so resonant terms are merged
          exact.make_model("freerot2", 2, [1, -2], [], rot=[(0, 1)], layout=exact.LAYOUTS[2][1]),
          exact.make_model("degrot2", 2, [1, 1], [], rot=[(0, 1)], layout=exact.LAYOUTS[2][2])]
    ms3 = [exact.make_model("free3rot", 3, [1, -1, 0], [], rot=[(0, 1)], layout=exact.LAYOUTS[3][4]),
           exact.make_model("three", 3, [1, -2, 0], [(0, 1, 3), (1, 2, -1)], rot=[(0, 2)], layout=exact.LAYOUTS[3][0]),
           exact.make_model("three0", 3, [0, 0, 1], [(0, 1, 1)], layout=exact.LAYOUTS[3][1])]
    if thorough:
        ms += [exact.random_model(rng, "R%d" % k, 2) for k in range(6)]
        ms3 += [exact.random_model(rng, "S%d" % k, 3) for k in range(4)] + [exact.random_model(rng, "T%d" % k, 4) for k in range(2)]
    for m in ms:
        m["chi"] = [list(q) for q in itertools.product(range(2), repeat=4)]
    # three equal levels, non-interacting: many Lehmann multi-terms share their three poles and are merged in the term lists
    ms3.insert(0, exact.make_model("deg3", 3, [1, 1, 1], [], layout=exact.LAYOUTS[3][2]))
    ms3.insert(1, exact.make_model("deg3rot", 3, [1, 1, -2], [], rot=[(0, 2)], layout=exact.LAYOUTS[3][3]))
    for m in ms3:
        M3 = m["M"]
        allq = [list(q) for q in itertools.product(range(M3), repeat=4)]
        structured = [[i, i, i, i] for i in range(M3)] + [[i, j, j, i] for i in range(M3) for j in range(M3) if i != j][:4] + [[i, j, i, j] for i in range(M3) for j in range(M3) if i != j][:2]
        m["chi"] = structured + rng.sample(allq, 6 if not thorough else 40)
    ms = ms + ms3
    ms += exact.with_phases(rng, ms)[: (3 if not thorough else 12)]
    res, pred = exact.evaluate(ms, "C02/gen", timeout=3000)
    c.add_tlc(res, "LehmannGen")
    if res.violated:
        pv.log("INFRA: Lehmann.tla self-check %s failed" % res.violated)
        sys.exit(2)
    betas = ["0.6931471805599453", "1.0", "20.0"]
    recs, crashed = exact.run_split(exe, [exact.scenario(m, pred[m["id"]], queries=[{"q": "index"}]) for m in ms], ms)
    tabs = {r["id"]: r["tab"] for r in recs if r.get("e") == "Q" and "tab" in r}
    scen = []
    for m in ms:
        if m["id"] not in tabs:
            c.violation("model %s could not be built" % m["id"], m, cls="exception")
            continue
        im = exact.index_map(m, tabs[m["id"]])
        m["_im"] = im
        m["_tri"] = TRI if m["M"] == 2 else rng.sample(TRI, 16)
        quads = [[im[x] for x in q] for q in m["chi"]]
        qs = []
        for b in betas if (m["M"] == 2 or thorough) else betas[1:]:
            qs.append({"q": "chi", "beta": b, "quads": quads, "triples": m["_tri"], "tables": True, "tag": b})
        scen.append(exact.scenario(m, pred[m["id"]], queries=qs))
    recs, crashed = exact.run_split(exe, scen, ms)
    def judge(recs, crashed, scen, where, root=True):
        """root: the tables returned by compute(clear, freqs, comm) are the root's; every rank holds the terms (on-demand values)"""
        PATHS = ("ondemand", "table_keep", "table_clear", "table_keep_ondemand") if root else ("ondemand", "table_keep_ondemand")
        TABLES = ("table_keep", "table_clear", "table_keep_ondemand") if root else ("table_keep_ondemand",)
        byid = {}
        for r in recs:
            if r.get("e") == "Q":
                byid.setdefault(r["id"], []).append(r)
        for sc in scen:
            m = [x for x in ms if x["id"] == sc["id"]][0]
            p = pred[m["id"]]
            desc = json.dumps({k: m[k] for k in ("M", "eps", "U", "rot", "bog", "ph")})
            if sc["id"] in crashed:
                c.violation("library crashed on model %s: %s" % (desc, crashed[sc["id"]][-200:]), sc, cls="crash")
                continue
            ch = {tuple(t["q"]): t["paths"] for t in p["chi"]}
            inv = {v: k for k, v in enumerate(m["_im"])}
            tri = m["_tri"]
            for r in byid.get(sc["id"], []):
                beta = r.get("tag")
                rep = {"model": {k: m[k] for k in m if not k.startswith("_")}, "beta": beta}
                if where:
                    rep["where"] = where.strip()
                if "chi" not in r:
                    c.violation("model %s beta=%s: two-particle Green's function failed: %s" % (desc, beta, r.get("fail") or r.get("ex")), rep, cls="exception")
                    continue
                ok = True
                for o in r["chi"]:
                    q = tuple(inv[x] for x in o["q"])
                    paths = ch[q]
                    if o["len_nofreq"] != 0:
                        c.violation("model %s: compute() without frequencies returned a table of %d entries for %s" % (desc, o["len_nofreq"], o["q"]), dict(rep, quad=o["q"]), cls="table:nofreq")
                        ok = False
                    for key in TABLES:
                        if len(o[key]) != len(tri):
                            cls = "table:vanishing" if o["vanishing"] else "table:length"
                            c.violation("model %s beta=%s: %s of %s has %d entries for %d frequencies%s" % (desc, beta, key, o["q"], len(o[key]), len(tri), " (identically vanishing component)" if o["vanishing"] else ""),
                                        dict(rep, quad=o["q"], path=key), cls=cls)
                            ok = False
                    if not ok:
                        break
                    for ti, t in enumerate(tri):
                        want, tot = exact.chi_value(p, paths, beta, *t)
                        tol = 1e-8 * (1 + tot)
                        for key in PATHS:
                            got = exact.cplx(o[key][ti])
                            c.evaluations += 1
                            if not (abs(got - want) <= tol):
                                c.violation("model %s beta=%s: chi_%s%s via %s = %s, the definition gives %s (allowed %s)" % (
                                    desc, beta + where, o["q"], t, key, mp.nstr(got, 12), mp.nstr(want, 12), mp.nstr(tol, 3)), dict(rep, quad=o["q"], triple=t, path=key), cls="value:" + key)
                                ok = False
                                break
                        if not ok:
                            break
                        # the two table paths against on-demand evaluation of the same object: tight
                        a, b2 = exact.cplx(o["table_keep"][ti]), exact.cplx(o["table_keep_ondemand"][ti])
                        if root and not (abs(a - b2) <= 1e-12 * (1 + abs(a))):
                            c.violation("model %s beta=%s: table value %s differs from on-demand value %s of the same object for %s%s" % (desc, beta, a, b2, o["q"], t), dict(rep, quad=o["q"], triple=t), cls="table:ondemand")
                            ok = False
                            break
                    if not ok:
                        break
                    if paths:
                        c.nontriv("%s %s" % (m["id"], q))
                if ok:
                    c.traces += 1
    judge(recs, crashed, scen, "")
    # several ranks: the parts of one component are computed by different ranks; the table returned at the root is the sum over all of
    # them (clear = true and false), and with clear = false every rank holds all terms afterwards (on-demand evaluation)
    NR = 3
    sub = [s for s in scen if [x for x in ms if x["id"] == s["id"]][0]["M"] == 2][:(3 if not thorough else 5)] + [s for s in scen if [x for x in ms if x["id"] == s["id"]][0]["M"] == 3][:1]
    per, done, rc, err = pv.run_driver_ranks(exe, sub, NR, timeout=1500)
    c.extra["rank_tier"] = {"ranks": NR, "scenarios": len(sub)}
    if min(done) < len(sub):
        c.violation("%d ranks: the run did not complete (rc=%s): %s" % (NR, rc, err[-300:].replace("\n", " | ")), {"ranks": NR, "scenario": sub[min(min(done), len(sub) - 1)]}, cls="ranks:termination")
    for rk in range(NR):
        judge(per[rk], {}, sub, " [rank %d of %d]" % (rk, NR), root=(rk == 0))
    c.sample({"model": {k: ms[3][k] for k in ("M", "eps", "U", "rot", "bog", "ph")}, "betas": betas, "triples": "all of {-2..1}^3", "quads": "all 16"})
    c.rule = ("exact family: %d two-mode models x all 16 quadruples x all 64 triples of {-2..1}^3 x 3 betas, %d three/four-mode models x sampled quadruples and triples; "
              "4 evaluation paths each; non-trivial = distinct (model, quadruple) with at least one closed path" % (len(ms) - len(ms3), len(ms3)))
    c.trusted = ["TLC", "tools/exact.py: symbolic time-ordered integration of exponentials (about 40 lines) and evaluation (mpmath)"]
    c.assumptions = ["exact family only", "tolerance 1e-8 (1 + sum |path terms|)"]
    # the container every part accumulates its Lehmann terms in (spec/TermList.tla): like terms are merged, nothing is lost except by the
    # negligibility rule -- every add_term history of a catalogue with chains of nearly equal poles, replayed on the real template
    import termlist
    termlist.run(c, ["NR", "R"], thorough)
    # call histories of the documented workflow (spec/Workflow.tla): repeated prepare()/compute() are no-ops, a call changes the data of
    # its own object only, and whatever the history, the finished object holds the data of the canonical linear order
    import workflow
    workflow.attach(c, {"X"}, "two-particle Green's function")
    c.finish()


def replay(path):
    print(open(path).read()[:3000])
    return 1
