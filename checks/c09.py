"""C09 -- the density matrix is the normalised Gibbs state; averages are its traces.

Specification: spec/Lehmann.tla on the exact family: integer spectrum E_s, weights w_s = exp(-beta (E_s - E_0)) / Z kept symbolic,
averages as sums over ALL eigenstates of exact matrix elements (AvgTerms, DoccTerms).
  (1) TLC (LehmannGen): canonical transformation, Hermiticity, sum rules for every model; prints spectrum and average data;
  (2) the real library: getWeight for every state label, average energy, total and per-index occupancy, double occupancy for all
      (i,j), EnsembleAverage of c^+_i c_j for all (i,j) (off-diagonal and different-spin pairs are non-zero in the rotated /
      Bogoliubov models), for beta from 1e-3 to 1e3 and energy offsets +-1000, compared with the specification's expression;
  (3) for general (non-family) models the weights are checked relationally against the library's own eigenvalues:
      non-negative, sum 1, ln w_a - ln w_b = -beta (E_a - E_b).
"""
import json, math, random, sys
import mpmath as mp
import pv, exact, models

BETAS = ["0.001", "0.1", "1.0", "0.6931471805599453", "2.0794415416798357", "30.0", "1000.0"]


def relclose(a, b, rel, ab=0.0):
    return abs(a - b) <= rel * (abs(a) + abs(b)) + ab      # False for NaN


def cplx(p):
    return complex(float(p[0]), float(p[1]))


def main():
    c = pv.Check("C09")
    thorough = c.tier == "thorough"
    rng = random.Random(c.seed)
    exe = pv.harness("plain", "pv_driver")
    ms = exact.catalogue(rng, Ms=(1, 2, 3) if not thorough else (1, 2, 3, 4), per_M=6 if not thorough else 12)
    for k in range(6 if not thorough else 40):
        ms.append(exact.random_model(rng, "R%d" % k, rng.choice([2, 3] if not thorough else [2, 3, 4])))
    # wide spectra (bandwidth of order 100): at small beta every level still carries weight, at large beta all but the ground state underflow
    ms.append(exact.make_model("W1", 2, [-40, 35], [(0, 1, 90)], rot=[[0, 1]]))
    ms.append(exact.make_model("W2", 3, [50, -45, 10], [(0, 1, -80), (1, 2, 60)], bog=[[0, 2]]))
    if thorough:
        ms.append(exact.make_model("W3", 3, [-300, 200, 40], [(0, 1, 500), (0, 2, -100)], rot=[[1, 2]]))
    ms += exact.with_phases(rng, ms)[: (5 if not thorough else 30)]
    for m in ms:
        M = m["M"]
        m["avg"] = [[i, j] for i in range(M) for j in range(M)]
        m["docc"] = [[i, j] for i in range(M) for j in range(M)]
    res, pred = exact.evaluate(ms, "C09/gen")
    c.add_tlc(res, "LehmannGen")
    if res.violated:
        pv.log("INFRA: Lehmann.tla self-check %s failed\n%s" % (res.violated, res.stdout[-1500:]))
        sys.exit(2)
    betas = BETAS if thorough else ["0.001", "1.0", "0.6931471805599453", "30.0", "1000.0"]
    scen = []
    for m in ms:
        qs = [{"q": "index"}] + [{"q": "dm", "beta": b, "tag": b} for b in betas]
        scen.append(exact.scenario(m, pred[m["id"]], queries=qs))
    # general models, relational part
    # (weights by ratio; every average against the trace of rho -- rebuilt in the Fock basis by the harness -- with the operator
    # whose action on Fock states is written out independently of the library)
    gen = [dict(g, queries=[{"q": "dm", "beta": b, "tag": b, "averages": True, "traces": True} for b in ("0.5", "20.0")]) for g in models.catalogue(thorough)]
    for k in range(8 if not thorough else 60):
        g = models.random_model(rng, "tr%d" % k, max_modes=5 if not thorough else 6)
        gen.append(dict(g, queries=[{"q": "dm", "beta": b, "tag": b, "averages": True, "traces": True} for b in ("0.3", "4.0")]))
    recs, crashed = exact.run_split(exe, scen + gen, ms)
    byid = {}
    for r in recs:
        if r.get("e") == "Q":
            byid.setdefault(r["id"], []).append(r)
    for m in ms:
        sc = [s for s in scen if s["id"] == m["id"]][0]
        p = pred[m["id"]]
        if m["id"] in crashed:
            c.violation("library crashed on model %s" % json.dumps({k: m[k] for k in ("M", "eps", "U", "rot", "bog", "layout")}), sc, cls="crash")
            continue
        rs = byid.get(m["id"], [])
        idx = [r for r in rs if r["q"] == "index"]
        if not idx or "tab" not in idx[0]:
            c.violation("model %s could not be built: %s" % (m["id"], idx), sc, cls="exception")
            continue
        im = exact.index_map(m, idx[0]["tab"])
        for r in rs:
            if r["q"] != "dm":
                continue
            beta = r.get("tag")
            what = "model %s beta=%s" % (json.dumps({k: m[k] for k in ("M", "eps", "U", "rot", "bog", "ph")}), beta)
            rep = {"model": m, "scenario": sc, "beta": beta}
            if "fail" in r or "ex" in r or "w" not in r:
                c.violation("%s: density matrix failed: %s" % (what, r.get("fail") or r.get("ex")), rep, cls="exception")
                continue
            c.evaluations += 1
            b = float(beta)
            w, E = exact.weights(p, beta)
            emax = max(abs(float(e)) for e in E) + 1
            rel = 1e-9 + b * 2e-12 * emax * 4
            lw = [float(x) for x in r["w"]]
            le = [float(x) for x in r["E"]]
            if any((not math.isfinite(x)) or x < 0 for x in lw):
                c.violation("%s: weights not finite / negative: %s" % (what, lw[:8]), rep, cls="weights")
                continue
            if not (abs(sum(lw) - 1) <= 1e-12 * len(lw)):
                c.violation("%s: weights sum to %r" % (what, sum(lw)), rep, cls="weights")
                continue
            lib = sorted(zip(le, lw))
            spec = sorted(zip([float(e) for e in E], [float(x) for x in w]))
            bad = None
            for (a, bb) in zip(lib, spec):
                if not (abs(a[0] - bb[0]) <= 1e-9 * emax) or not relclose(a[1], bb[1], rel, 1e-15):
                    bad = (a, bb)
                    break
            if bad:
                c.violation("%s: (E, w) of the library %s differs from the Gibbs state of the specification %s" % (what, bad[0], bad[1]), rep, cls="weights")
                continue
            tolA = 1e-9 + b * 1e-11 * emax
            # averages
            avgE = sum(x * e for x, e in zip(w, E))
            if not relclose(float(r["avgE"]), float(avgE), tolA, 1e-9 * emax):
                c.violation("%s: average energy %s, specification %s" % (what, r["avgE"], mp.nstr(avgE, 15)), rep, cls="avgE")
                continue
            ok = True
            avg = {tuple(t["ab"]): t["terms"] for t in p["avg"]}
            docc = {tuple(t["ij"]): t["terms"] for t in p["docc"]}
            lib_avg = {(x[0], x[1]): complex(float(x[2][0]), float(x[2][1])) for x in r["avg"]}
            lib_docc = {(x[0], x[1]): float(x[2]) for x in r["docc"]}
            occ_tot = mp.mpf(0)
            for i in range(m["M"]):
                ni = exact.avg_value(p, avg[(i, i)], beta)
                occ_tot += ni.real
                if not (abs(float(r["occ_i"][im[i]]) - float(ni.real)) <= tolA):
                    c.violation("%s: occupancy of index %d is %s, specification %s" % (what, im[i], r["occ_i"][im[i]], mp.nstr(ni.real, 15)), rep, cls="occupancy")
                    ok = False
                    break
                for j in range(m["M"]):
                    a = exact.avg_value(p, avg[(i, j)], beta)
                    got = lib_avg[(im[i], im[j])]
                    if not (abs(got - complex(a)) <= tolA):
                        c.violation("%s: <c+_%d c_%d> = %s, specification %s" % (what, im[i], im[j], got, mp.nstr(a, 15)), rep, cls="ensemble-average")
                        ok = False
                        break
                    d = exact.docc_value(p, docc[(i, j)], beta)
                    if not (abs(lib_docc[(im[i], im[j])] - float(d.real)) <= tolA):
                        c.violation("%s: <n_%d n_%d> = %s, specification %s" % (what, im[i], im[j], lib_docc[(im[i], im[j])], mp.nstr(d.real, 15)), rep, cls="double-occupancy")
                        ok = False
                        break
                    if i != j and abs(a) > 1e-6:
                        c.nontriv("offdiag %s %s" % (m["id"], beta))
                if not ok:
                    break
            if ok and not (abs(float(r["occ"]) - float(occ_tot)) <= tolA * m["M"]):
                c.violation("%s: total occupancy %s, specification %s" % (what, r["occ"], mp.nstr(occ_tot, 15)), rep, cls="occupancy")
                ok = False
            if ok:
                c.traces += 1
                c.nontriv("%s %s" % (m["id"], beta))
    # relational part on general models
    for g in gen:
        if g["id"] in crashed:
            c.violation("library crashed on %s" % g["id"], g, cls="crash")
            continue
        for r in byid.get(g["id"], []):
            if "w" not in r:
                c.violation("density matrix of %s failed: %s" % (g["id"], r.get("fail") or r.get("ex")), g, cls="exception")
                continue
            c.evaluations += 1
            b = float(r["beta"])
            lw = [float(x) for x in r["w"]]
            le = [float(x) for x in r["E"]]
            if any((not math.isfinite(x)) or x < 0 for x in lw) or not (abs(sum(lw) - 1) <= 1e-12 * len(lw)):
                c.violation("%s beta=%s: weights negative or not normalised (sum %r)" % (g["id"], r["beta"], sum(lw)), g, cls="weights")
                continue
            k0 = max(range(len(lw)), key=lambda k: lw[k])
            bad = [k for k in range(len(lw)) if lw[k] > 1e-280 and abs(math.log(lw[k]) - math.log(lw[k0]) + b * (le[k] - le[k0])) > 1e-9 * (1 + b * abs(le[k] - le[k0]))]
            if bad:
                k = bad[0]
                c.violation("%s beta=%s: w[%d]/w[%d] = %r but exp(-beta dE) = %r" % (g["id"], r["beta"], k, k0, lw[k] / lw[k0], math.exp(-b * (le[k] - le[k0]))), g, cls="ratio")
                continue
            if "tr_occ_i" in r:
                escale = max(abs(x) for x in le) + 1
                tolT = 1e-10
                bad = None
                for i, (a, t) in enumerate(zip(r["occ_i"], r["tr_occ_i"])):
                    if not (abs(float(a) - cplx(t)) <= tolT):
                        bad = "occupancy of index %d is %s, trace of rho n_%d is %s" % (i, a, i, cplx(t))
                if not (abs(float(r["occ"]) - sum(cplx(t) for t in r["tr_occ_i"])) <= tolT * len(r["occ_i"])):
                    bad = "total occupancy %s, trace of rho N is %s" % (r["occ"], sum(cplx(t) for t in r["tr_occ_i"]))
                for (a, t) in zip(r["docc"], r["tr_docc"]):
                    if not (abs(float(a[2]) - cplx(t[2])) <= tolT):
                        bad = "<n_%d n_%d> = %s, trace is %s" % (a[0], a[1], a[2], cplx(t[2]))
                for (a, t) in zip(r.get("avg", []), r["tr_avg"]):
                    if not (abs(cplx(a[2]) - cplx(t[2])) <= tolT):
                        bad = "<c+_%d c_%d> = %s, trace is %s" % (a[0], a[1], cplx(a[2]), cplx(t[2]))
                    elif a[0] != a[1] and abs(cplx(t[2])) > 1e-6:
                        c.nontriv("%s %s offdiag" % (g["id"], r["beta"]))
                if not (abs(float(r["avgE"]) - cplx(r["tr_E"])) <= 1e-9 * escale):
                    bad = "average energy %s, trace of rho H is %s" % (r["avgE"], cplx(r["tr_E"]))
                if bad:
                    c.violation("%s beta=%s: %s" % (g["id"], r["beta"], bad), g, cls="trace")
                    continue
                c.nontriv("%s %s traces" % (g["id"], r["beta"]))
            c.traces += 1
    c.sample({"model": {k: ms[3][k] for k in ("M", "eps", "U", "rot", "bog", "layout")}, "betas": betas})
    c.rule = "exact family: %d models (layouts x parameter sets incl. offsets +-1000 and degeneracies x identity/rotation/Bogoliubov) x %d betas; non-trivial = (model, beta) compared, plus off-diagonal averages that are non-zero" % (len(ms), len(betas))
    c.trusted = ["TLC", "tools/exact.py comparator (mpmath, 40 digits)", "harness dm query"]
    c.assumptions = ["exact family (rational spectra) for the absolute comparison; general models relationally",
                     "tolerance 1e-9 + beta * 1e-11 * max|E| (propagated eigenvalue rounding)"]
    # call histories of the documented workflow (spec/Workflow.tla): repeated prepare()/compute() are no-ops, a call changes the data of
    # its own object only, and whatever the history, the finished object holds the data of the canonical linear order
    import workflow
    workflow.attach(c, {"DM", "EA"}, 'density matrix / ensemble average')
    c.finish()


def replay(path):
    print(open(path).read()[:3000])
    return 1
