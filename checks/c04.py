"""C04 -- lattice terms and presets produce exactly the documented Hamiltonian.

Specification: spec/LatticeTerms.tla (term lists of every preset, transcribed), spec/Hamiltonian.tla (the operators written in
the documentation, as polynomials), spec/Fermion.tla (their matrices).
  (1) TLC (PresetDocMC): for every preset call on every two-site layout with <= 6 modes the transcribed term list has the matrix
      of the documented operator, is Hermitian, and Kanamori (U'=U-2J) / spin-spin exchange commute with S^+;
  (2) the real library builds the lattice by the same calls, IndexHamiltonian/HamiltonianPart produce the Fock-space matrix with
      symmetries ignored, and TLC (HamTrace.tla) compares it entry by entry (exact integers) with the documented operators of the
      calls under the library's own index table: presets on all layouts, term factories, and user terms of 2, 4, 6 operators in
      arbitrary order (products that vanish included).
"""
import itertools, json, random, sys
import pv, models


def layouts():
    out = []
    for oa in (1, 2, 3):
        for sa in (1, 2):
            for ob in (1, 2):
                for sb in (1, 2):
                    if oa * sa + ob * sb <= 6:
                        out.append([["A", oa, sa], ["B", ob, sb]])
    return out


def preset_calls(rng, S):
    """valid preset calls for the layout S (dict label -> (orb, spin))"""
    calls = []
    amp = lambda: rng.choice([4, -8, 12])
    for l in S:
        o, s = S[l]
        calls.append(["addCoulombS", l, rng.choice([4, -8, 12, 0]), rng.choice([0, 4])])      # both amplitudes are guarded at zero in the code
        calls.append(["addLevel", l, amp()])
        if o > 1 and s > 1:
            calls.append(["addCoulombP", l, 8, rng.choice([4, 12]), rng.choice([0, 4]), rng.choice([0, 4])])
            calls.append(["addCoulombP3", l, 12, rng.choice([4, -4]), -8])
            # every amplitude that the code guards with "if (std::abs(x))" at zero while the others are not
            calls.append(["addCoulombP", l] + rng.choice([[8, 0, 4, 0], [0, 0, 4, 4], [0, 4, 0, 0], [0, 12, 4, 4], [8, 0, -4, 4]]))
            calls.append(["addCoulombP3", l] + rng.choice([[8, 4, -8], [8, 4, 0], [-8, -4, 4], [0, 4, 0]]))     # U' = U - 2J = 0 in the first three
        if s == 2:
            calls.append(["addSzSz", l, l, amp()])
            calls.append(["addSS", l, l, amp()])
    labs = sorted(S)
    for l1 in labs:
        for l2 in labs:
            if l1 == l2:
                continue
            if S[l1] == S[l2]:
                calls.append(["addHopping4", l1, l2, amp()])
                if S[l1][1] == 2:
                    calls.append(["addSzSz", l1, l2, amp()])
                    calls.append(["addSS", l1, l2, amp()])
            if S[l1][1] == S[l2][1]:
                calls.append(["addHopping6", l1, l2, amp(), rng.randrange(S[l1][0]), rng.randrange(S[l2][0])])
            calls.append(["addHopping8", l1, l2, amp(), rng.randrange(S[l1][0]), rng.randrange(S[l2][0]), rng.randrange(S[l1][1]), rng.randrange(S[l2][1])])
            calls.append(["addHopping7", l1, l2, amp(), rng.randrange(S[l1][0]), rng.randrange(S[l2][0]), rng.randrange(min(S[l1][1], S[l2][1]))])
    return calls


def factory_calls(rng, S):
    out = []
    labs = sorted(S)
    for _ in range(6):
        l1, l2 = rng.choice(labs), rng.choice(labs)
        o1, s1 = rng.randrange(S[l1][0]), rng.randrange(S[l1][1])
        o2, s2 = rng.randrange(S[l2][0]), rng.randrange(S[l2][1])
        out.append((["NupNdown", l1, l2, o1, o2, s1, s2], rng.choice([4, -8])))
        out.append((["Hopping", l1, l2, o1, o2, s1, s2], rng.choice([4, -8])))
        out.append((["Level", l1, o1, s1], 4))
        if S[l1][0] > 1 and S[l1][1] > 1:
            a, b = rng.sample(range(S[l1][0]), 2)
            out.append((["Spinflip", l1, a, b, 1, 0], rng.choice([4, -8])))
            out.append((["PairHopping", l1, a, b, 0, 1], rng.choice([4, -8])))
        if S[l1][1] == 2 and S[l2][1] == 2:
            o = rng.randrange(min(S[l1][0], S[l2][0]))
            out.append((["SplusSminus", l1, l2, o], 4))
            out.append((["SminusSplus", l1, l2, o], -8))
    return out


def main():
    c = pv.Check("C04")
    thorough = c.tier == "thorough"
    rng = random.Random(c.seed)
    exe = pv.harness("plain", "pv_driver")
    r = pv.run_tlc("PresetDocMC", "PresetDocMC", workers=16, timeout=3000, heap="8g")
    c.add_tlc(r, "PresetDocMC")
    if r.violated:
        pv.log("INFRA: LatticeTerms.tla and the documented operators disagree beyond the known finding: %s\n%s" % (r.violated, r.stdout[-1500:]))
        sys.exit(2)
    open(pv.SPEC + "/PresetDocMagn.cfg", "w").write("SPECIFICATION Spec\nINVARIANTS DocMatchesMagnetization\nCHECK_DEADLOCK FALSE\n")
    rm = pv.run_tlc("PresetDocMC", "PresetDocMagn", workers=4, timeout=900)
    pv.tlc_or_die(rm, "PresetDocMagn")
    c.extra["spec_level_doc_mismatch_addMagnetization"] = bool(rm.violated)

    scen = []
    n = 0
    q = [{"q": "hfock", "scale": 16}]
    part = {"mode": "ignore"}
    for lay in layouts():
        S = {s[0]: (s[1], s[2]) for s in lay}
        calls = preset_calls(rng, S)
        if not thorough:
            rng.shuffle(calls)
            calls = calls[:6]
        if any(o > 1 and sp > 1 for (o, sp) in S.values()):
            # the zero-amplitude regimes of the Kanamori preset are always included
            calls += [x for x in preset_calls(rng, S) if x[0].startswith("addCoulombP") and 0 in x[2:5]][:2]
        for cl in calls:
            n += 1
            scen.append(models.model("p%d" % n, lay, [["Preset", 1, cl]], partition=part, queries=q))
        # presets combined on one lattice
        n += 1
        combo = [["Preset", 1, x] for x in rng.sample(preset_calls(rng, S), 3)]
        scen.append(models.model("pc%d" % n, lay, combo, partition=part, queries=q))
        for (f, v) in factory_calls(rng, S)[: (None if thorough else 5)]:
            n += 1
            scen.append(models.model("f%d" % n, lay, [["Factory", 1, f, v]], partition=part, queries=q))
        # the preset whose documentation and code disagree (known finding F13) is kept in scenarios of its own
        for l in S:
            if S[l][1] == 2:
                n += 1
                scen.append(models.model("m%d" % n, lay, [["Preset", 1, ["addMagnetization", l, rng.choice([4, -8])]]], partition=part, queries=q))
    # user terms in arbitrary operator order on a heterogeneous lattice: A(1,2) + B(1,1)
    lay = [["B", 1, 1], ["A", 1, 2]]
    ops = [[cdag, l, 0, s] for cdag in (0, 1) for (l, s) in (("A", 0), ("A", 1), ("B", 0))]
    two = [list(t) for t in itertools.product(ops, repeat=2)]
    four = [list(t) for t in itertools.product(ops, repeat=4)]
    rng.shuffle(four)
    user = two + four[: (len(four) if thorough else 260)]
    for _ in range(60 if not thorough else 500):
        user.append([rng.choice(ops) for _ in range(6)])
    for t in user:
        n += 1
        scen.append(models.model("u%d" % n, lay, [models.T(t, rng.choice([4, -8, 12]))], partition=part, queries=q))
    # several user terms summed
    for _ in range(40 if not thorough else 300):
        n += 1
        b = [models.T(rng.choice(two + four[:200]), rng.choice([4, -8])) for _ in range(3)]
        scen.append(models.model("us%d" % n, lay, b, partition=part, queries=q))

    recs, crashed = pv.run_driver_resilient(exe, scen, timeout=3000)
    byid = {r["id"]: r for r in recs if r.get("e") == "Q"}
    ev, sc_of = [], {}
    for s in scen:
        c.evaluations += 1
        sc_of[s["id"]] = s
        cls = "doc:addMagnetization" if s["id"].startswith("m") else "ham"
        if s["id"] in crashed:
            c.violation("library crashed building %s" % json.dumps(s["build"]), s, cls=cls + ":crash")
            continue
        r = byid.get(s["id"])
        if r is None or "fail" in r or "ex" in r:
            c.violation("library failed on %s: %s" % (json.dumps(s["build"]), (r or {}).get("fail") or (r or {}).get("ex")), s, cls=cls + ":exception")
            continue
        ev.append(r)
        if r["entries"]:
            c.nontriv(json.dumps(s["build"]))
    c.sample({"sites": scen[0]["sites"], "build": scen[0]["build"]})
    c.sample({"sites": lay, "build": scen[-50]["build"]})
    pos, guard = 0, 0
    while pos < len(ev) and guard < 200:
        guard += 1
        v = pv.validate_trace("HamTrace", "HamTrace", ev[pos:], "C04/trace-%d" % (guard % 5), timeout=3000, heap="8g")
        pv.tlc_or_die(v.res, "HamTrace")
        c.states += v.res.distinct
        c.transitions += v.res.generated
        if guard == 1:
            c.tlc_cmds.append(v.res.cmd)
        if v.accepted:
            c.traces += len(ev) - pos
            break
        bad = ev[pos + v.matched]
        c.traces += v.matched
        s = sc_of[bad["id"]]
        cls = "doc:addMagnetization" if s["id"].startswith("m") else "ham:" + s["build"][0][0]
        c.violation("Hamiltonian matrix of sites %s built by %s differs from the documented operator (16*H entries: %s)" % (
            s["sites"], json.dumps(s["build"]), json.dumps(bad["entries"])[:200]), s, cls=cls)
        pos += v.matched + 1
    import cplxtier
    cplxtier.run(c, {"q": "hfock", "scale": 16}, "HamTrace", "C04", "Hamiltonian matrix", 10 if not thorough else 100, partitions=({"mode": "ignore"},))
    c.rule = ("every preset on every two-site layout with <= 6 modes (%s), term factories, user terms: all operator orders of length 2, %s of length 4, random of "
              "length 6 on A(1,2)+B(1,1); non-trivial = distinct builds with a non-zero matrix" % ("all calls" if thorough else "6 calls per layout", "all" if thorough else "260"))
    c.trusted = ["TLC", "harness hfock projection (block matrices placed on the Fock space)"]
    c.assumptions = ["amplitudes are multiples of 1/4; real build", "documented operators transcribed from LatticePresets.h"]
    # call histories of the documented workflow with every object constructed up front (spec/Workflow.tla)
    import workflow
    workflow.attach(c, {"HS", "HP"}, 'index Hamiltonian / block matrices of a Hamiltonian part')
    c.finish()


def replay(path):
    obj = json.load(open(path))["replay"]
    exe = pv.harness("plain", "pv_driver")
    recs, crashed = pv.run_driver_resilient(exe, [obj])
    ev = [r for r in recs if r.get("e") == "Q"]
    print(json.dumps(ev)[:1500], crashed)
    if crashed or not ev:
        return 1
    v = pv.validate_trace("HamTrace", "HamTrace", ev, "C04/replay")
    print("accepted:", v.accepted)
    return 0 if v.accepted else 1
