"""C06 -- results independent of MPI ranks and OpenMP threads; runs always terminate.

Specification: spec/MpiProgram.tla (per-rank programs of collectives of Hamiltonian::prepare/compute, TwoParticleGF::compute,
computeAll_split/nosplit, mpi_skel::run; rendezvous matching; placement of eigen-data, term lists, statuses, tables) with
Dispatcher.tla (C16) behind the abstract "Disp" collective.
  (1) TLC: NoMismatch, NoDeadlock, EigenEverywhere, TablesDelivered, TermsEvaluable for all P, component/part layouts and flags listed;
  (2) real multi-rank runs (mpiexec, seeded delays at every MPI call): the PMPI logs must be a behaviour of the specification
      (MpiProgramTrace.tla, per-rank cursors), and
  (3) what every rank holds at the end (eigen-data, G, chi from terms, returned tables) is compared with the 1-rank/1-thread run.
A run that does not finish within its time limit twice is a non-termination violation.
"""
import json, os, random, sys
import pv, mpi, models


def write_cfg(P, nparts, clear, split, B=2):
    n = list(nparts) + [0] * (4 - len(nparts))
    with open(os.path.join(pv.SPEC, "MpiProgramGen.cfg"), "w") as f:
        f.write("SPECIFICATION Spec\nCONSTANTS\n  P = %d\n  B = %d\n  KK = %d\n  N1 = %d\n  N2 = %d\n  N3 = %d\n  N4 = %d\n  NParts <- NPartsDef\n"
                "  Clear = %s\n  Split = %s\n  SkelBarrierOnWorld = FALSE\n  RootIsLowest = TRUE\n  StatusEverywhere = TRUE\n"
                "INVARIANTS NoMismatch NoDeadlock EigenEverywhere TablesDelivered TermsEvaluable\nCHECK_DEADLOCK FALSE\n" % (
                    P, B, len(nparts), n[0], n[1], n[2], n[3], "TRUE" if clear else "FALSE", "TRUE" if split else "FALSE"))


def cplx(p):
    return complex(float(p[0]), float(p[1]))


def data_of(run):
    """per rank: dict what -> payload ; plus failures"""
    out = []
    for evs in run.logs:
        d = {}
        for e in evs:
            if e.get("e") == "Data":
                d[e["what"]] = e
            elif e.get("e") in ("Exception", "Terminate", "Watchdog"):
                d["failure"] = "%s %s" % (e["e"], e.get("what", ""))
        d["finished"] = any(e.get("e") == "WorkflowEnd" for e in evs)
        out.append(d)
    return out


def close(a, b, rel, scale):
    return abs(a - b) <= rel * (scale + abs(a) + abs(b)) + 1e-300


def compare(ref, got, P, split, clear, members=None):
    """ref: data of the single rank of the reference run; got: list per rank. Returns None or description.
    members: world ranks that form the communicator handed to the library (None = all); the others only have to finish."""
    r0 = ref[0]
    first = min(members) if members else 0
    for k, d in enumerate(got):
        if members is not None and k not in members:
            if not d.get("finished"):
                return "rank %d (outside the sub-communicator) did not finish" % k
            continue
        if "failure" in d:
            return "rank %d: %s" % (k, d["failure"])
        if not d.get("finished"):
            return "rank %d did not finish the workflow" % k
        # eigen-data: bit-for-bit on every rank
        if d["eig"]["blocks"] != r0["eig"]["blocks"] or d["eig"]["ground"] != r0["eig"]["ground"]:
            for b, (x, y) in enumerate(zip(d["eig"]["blocks"], r0["eig"]["blocks"])):
                if x != y:
                    return "rank %d: eigen-data of block %d differs from the single-rank run (E %s vs %s)" % (k, b, x["E"][:3], y["E"][:3])
            return "rank %d: eigen-data differs from the single-rank run" % k
        for (a, b) in zip(d["gf"]["gf"], r0["gf"]["gf"]):
            for (x, y) in zip(a[2], b[2]):
                if not close(cplx(x), cplx(y), 1e-11, 1.0):
                    return "rank %d: G_%d%d differs from the single-rank run: %s vs %s" % (k, a[0], a[1], x, y)
        # tables: split -> every rank; nosplit -> rank 0
        if split or k == first:
            tr = {json.dumps(t[0]): t[1] for t in r0["tables"]["tables"]}
            tg = {json.dumps(t[0]): t[1] for t in d["tables"]["tables"]}
            if set(tr) != set(tg):
                return "rank %d: computeAll returned tables for %s, the single-rank run for %s" % (k, sorted(tg), sorted(tr))
            for q in tr:
                if len(tr[q]) != len(tg[q]):
                    return "rank %d: table of %s has %d entries, expected %d" % (k, q, len(tg[q]), len(tr[q]))
                sc = max([abs(cplx(x)) for x in tr[q]] + [1e-30])
                for i, (x, y) in enumerate(zip(tg[q], tr[q])):
                    if not close(cplx(x), cplx(y), 1e-11, sc):
                        return "rank %d: table of %s entry %d = %s, single-rank run %s" % (k, q, i, x, y)
        if not clear:
            tr = {json.dumps(t["q"]): t for t in r0["terms"]["terms"]}
            for t in d["terms"]["terms"]:
                q = json.dumps(t["q"])
                if t["ex"]:
                    return "rank %d: component %s cannot be evaluated: %s" % (k, q, t["ex"][:80])
                sc = max([abs(cplx(x)) for x in tr[q]["v"]] + [1e-30])
                for i, (x, y) in enumerate(zip(t["v"], tr[q]["v"])):
                    if not close(cplx(x), cplx(y), 1e-11, sc):
                        return "rank %d: chi_%s from terms at triple %d = %s, single-rank run %s" % (k, q, i, x, y)
    return None


WORKLOADS = [
    ("dimer4", models.dimer, [[0, 1, 0, 1], [0, 2, 0, 2], [0, 0, 1, 1], [2, 3, 2, 3]]),  # 4 components, the first (0011) vanishing
    ("sx2", models.spinflip_atom, [[0, 1, 0, 1], [0, 0, 0, 0]]),                          # 2 components: fewer than ranks, so colours have several ranks
    ("atom6", models.hubbard_atom, [[0, 1, 0, 1], [0, 0, 0, 0], [1, 1, 1, 1], [0, 1, 1, 1], [0, 0, 0, 1], [1, 1, 0, 1]]),
]
TRIPLES = [[a, b, d] for a in (-1, 0, 2) for b in (0, 1) for d in (-1, 0)]


def main():
    c = pv.Check("C06")
    thorough = c.tier == "thorough"
    rng = random.Random(c.seed)
    exe = pv.harness("plain", "pv_mpi")

    # (1) model checking
    layouts = [[1], [2, 1], [1, 0, 2], [1, 1, 1]] if not thorough else [[1], [2], [2, 1], [1, 0, 2], [1, 1, 1], [2, 2, 1], [1, 1, 1, 1], [0, 1], [2, 0, 1, 1]]
    Ps = [1, 2, 3] if not thorough else [1, 2, 3, 4, 5]
    for P in Ps:
        for np_ in layouts:
            for clear in (False, True):
                for split in (True, False):
                    if not thorough and P == 3 and len(np_) == 3 and sum(np_) > 3:
                        continue
                    if thorough and P >= 4 and (sum(np_) > 4):
                        continue
                    write_cfg(P, np_, clear, split, B=2 if P <= 3 else 1)
                    r = pv.run_tlc("MpiProgramMC", "MpiProgramGen", workers=8, timeout=3000, heap="12g")
                    c.add_tlc(r, "MpiProgram P=%d parts=%s" % (P, np_))
                    if r.violated:
                        pv.log("INFRA: MpiProgram.tla violates %s for P=%d parts=%s clear=%s split=%s\n%s" % (r.violated, P, np_, clear, split, r.stdout[-2500:]))
                        sys.exit(2)
                    c.nontriv("mc P=%d parts=%s clear=%s split=%s" % (P, np_, clear, split))

    # (2)+(3) real runs
    Pr = [2, 3, 4] if not thorough else [2, 3, 4, 5, 7, 8, 11, 16]
    seeds = 1 if not thorough else 3
    wl = WORKLOADS[:2] if not thorough else WORKLOADS
    n = 0
    for (name, mk, quads) in wl:
        for split in (True, False):
            for clear in (False, True):
                base = mk()
                base.update({"mode": "workflow", "beta": "2.0", "quads": quads, "triples": TRIPLES, "split": split, "clear": clear, "seed": 1, "maxus": 0})
                ref = mpi.run_mpi(exe, base, 1, "C06/ref", timeout=120, threads=1)
                rd = data_of(ref)
                if ref.timed_out or ref.rc != 0 or "failure" in rd[0] or not rd[0].get("finished"):
                    c.violation("%s split=%s clear=%s: the single-rank run fails: rc=%s %s" % (name, split, clear, ref.rc, rd[0].get("failure")),
                                {"P": 1, "threads": 1, "scenario": base}, cls="single-rank")
                    continue
                confs = [(P, 1, None) for P in Pr] + [(1, 4, None), (2, 4, None)] + ([(3, 16, None), (1, 16, None), (4, 2, None)] if thorough else [])
                # the library on a sub-communicator: ranks outside it never enter a collective, so anything addressed to the world hangs
                confs += [(3, 1, [1, 2]), (4, 1, [0, 2, 3])] + ([(5, 1, [1, 3, 4]), (4, 1, [3])] if thorough else [])
                for (P, thr, sub) in confs:
                    if len(c.violations) >= 6:
                        break       # the tree is broken: further runs would each cost their full time-out
                    for s in range(seeds):
                        n += 1
                        sc = dict(base)
                        sc["seed"] = c.seed * 100 + n
                        sc["maxus"] = rng.choice([0, 300, 2000])
                        if sub:
                            sc["subcomm"] = sub
                        tag = "C06/run-%d" % n
                        run = mpi.run_mpi(exe, sc, P, tag, timeout=90, threads=thr)
                        c.evaluations += 1
                        rep = {"P": P, "threads": thr, "scenario": sc}
                        label = "%s P=%d%s threads=%d split=%s clear=%s seed=%d" % (name, P, (" sub-communicator %s" % sub) if sub else "", thr, split, clear, sc["seed"])
                        if run.timed_out:
                            run2 = mpi.run_mpi(exe, sc, P, tag + "-again", timeout=90, threads=thr)
                            if run2.timed_out:
                                c.violation("%s: did not terminate within 90 s (twice)" % label, rep, cls="termination")
                                continue
                            run = run2
                        why = compare(rd, data_of(run), P, split, clear, sub)
                        if why:
                            c.violation("%s: %s" % (label, why), rep, cls="data")
                            continue
                        if run.rc != 0:
                            c.violation("%s: mpiexec exited with %s: %s" % (label, run.rc, run.stderr[-300:]), rep, cls="crash")
                            continue
                        if P <= 8 and not sub:
                            lines = mpi.program_trace(run)
                            ok, r = mpi.validate_program(lines, tag + "-trace", timeout=200)
                            if r.error and not ok and "timeout" in r.error:
                                c.notes.append("trace search inconclusive (time limit) for %s" % label)
                                c.extra["inconclusive_traces"] = c.extra.get("inconclusive_traces", 0) + 1
                                continue
                            if r.error and not ok:
                                pv.tlc_or_die(r, "MpiProgramTrace")
                            c.states += r.distinct
                            c.transitions += r.generated
                            if n == 1:
                                c.tlc_cmds.append(r.cmd)
                                c.sample({"P": P, "threads": thr, "model": base["build"], "quads": quads, "split": split, "clear": clear,
                                          "rank0_events": lines[1]["ev"][:6]})
                            if not ok:
                                inv = r.violated if r.violated and r.violated != "NotAccepted" else None
                                c.violation("%s: the recorded MPI calls are not a behaviour of MpiProgram.tla%s" % (label, (" (invariant %s)" % inv) if inv else ""),
                                            dict(rep, trace=os.path.join(pv.OUT, tag + "-trace.ndjson")), cls="trace")
                                continue
                            c.traces += 1
                        c.nontriv("run %s P=%d thr=%d split=%s clear=%s" % (name, P, thr, split, clear))
    c.rule = ("model checking: all dispatch outcomes and interleavings of collectives for the listed P / part layouts / flags; runs: workloads x split x clear x "
              "(ranks, threads) with seeded delays; non-trivial = distinct configurations")
    c.trusted = ["TLC", "PMPI logger and lexer (tools/mpi.py)", "OpenMPI, Boost.MPI, libgomp, Eigen"]
    c.assumptions = ["a collective may synchronise (rendezvous matching)", "the dispatcher inside mpi_skel::run is the abstract collective proved in C16",
                     "eigen-data is compared bit-for-bit, sums with relative tolerance 1e-11", "schedules on the real code are sampled"]
    c.finish()


def replay(path):
    obj = json.load(open(path))["replay"]
    exe = pv.harness("plain", "pv_mpi")
    sc = obj["scenario"]
    ref = mpi.run_mpi(exe, dict(sc, maxus=0), 1, "C06/replay-ref", timeout=120, threads=1)
    run = mpi.run_mpi(exe, sc, obj["P"], "C06/replay", timeout=90, threads=obj.get("threads", 1))
    if run.timed_out:
        print("timeout")
        return 1
    why = compare(data_of(ref), data_of(run), obj["P"], sc["split"], sc["clear"])
    print("data:", why)
    if why:
        return 1
    ok, r = mpi.validate_program(mpi.program_trace(run), "C06/replay-trace")
    print("trace accepted:", ok)
    return 0 if ok else 1
