"""C08 -- observables are invariant under the choice of symmetry partition.

Specification: ObsTrace.tla: an observable is a function of (model, beta, arguments) only; the first observation under a key is the
reference and every later observation under another partition must agree within one quantum (1e-8 relative to the scale of the
observable).  The block structure that makes this hold is specified in Symmetry.tla (C07: sound partition, faithful bimaps) -- TLC
model-checks it there; here the consequence is checked on the real library.
  (1) TLC (SymmetryMC): every accepted linear partition is sound (shared with C07);
  (2) general integer models (irrational spectra welcome) x partitions {default, ignored, {N}, {S_z}, {N,S_z}, per-mode and random
      linear candidates}: spectrum (sorted), weights, averages, occupancies, all G_ij (Matsubara, off-axis, tau), chi for sampled
      quadruples x triples, susceptibilities -- recorded and validated by TLC (ObsTrace.tla).
"""
import json, random, sys
import pv, models, obs


def main():
    c = pv.Check("C08")
    thorough = c.tier == "thorough"
    rng = random.Random(c.seed)
    exe = pv.harness("plain", "pv_driver")
    r = pv.run_tlc("SymmetryMC", "SymmetryMC", workers=16, timeout=3000, heap="8g")
    c.add_tlc(r, "SymmetryMC")
    if r.violated:
        pv.log("INFRA: SymmetryMC violated: %s" % r.violated)
        sys.exit(2)
    base = models.catalogue(thorough)
    for k in range(8 if not thorough else 80):
        base.append(models.random_model(rng, "rnd%d" % k, max_modes=4))
    scen, plan = [], []
    tri = [[0, 0, 0], [1, 0, 1], [0, 1, 1], [-1, 0, 0], [2, -3, 1], [0, -1, 0], [-2, 1, -2], [1, 1, 0]]
    for m in base:
        M = models.nmodes(m)
        quads = [[rng.randrange(M) for _ in range(4)] for _ in range(8)] + [[0, M - 1, M - 1, 0]]
        susq = [[rng.randrange(M) for _ in range(4)] for _ in range(4)] + [[0, 0, M - 1, M - 1]]
        beta = rng.choice(["0.8", "2.5", "9.0"])
        N = [[1, 1, [i]] for i in range(M)]
        parts = [("default", {"mode": "default"}), ("ignore", {"mode": "ignore"}), ("N", {"mode": "custom", "ops": [N]})]
        cands = models.linear_candidates(rng, m)
        parts.append(("alt", {"mode": "custom", "ops": [cands[3]]}))
        parts.append(("N+alt", {"mode": "custom", "ops": [N, cands[3]]}))
        for t in range(2 if not thorough else 4):
            parts.append(("rnd%d" % t, {"mode": "custom", "ops": rng.sample(cands, rng.randint(1, min(3, len(cands))))}))
        for (pn, part) in parts:
            s = dict(m)
            s["id"] = "%s#%s" % (m["id"], pn)
            s["partition"] = part
            s["queries"] = obs.queries(M, beta, quads, susq, tri)
            scen.append(s)
            plan.append((m["id"], pn, s))
    recs, crashed = pv.run_driver_resilient(exe, scen, timeout=3000, scen_timeout=180)
    byid = {}
    for r in recs:
        if r.get("e") == "Q":
            byid.setdefault(r["id"], []).append(r)
    lines = []
    info = []
    for (mid, pn, s) in plan:
        c.evaluations += 1
        if s["id"] in crashed:
            c.violation("library crashed on %s under partition %s" % (mid, json.dumps(s["partition"])), s, cls="crash")
            continue
        try:
            o = obs.collect(byid.get(s["id"], []))
        except Exception as ex:
            c.violation("%s under partition %s: %s" % (mid, json.dumps(s["partition"]), ex), s, cls="exception")
            continue
        for e in obs.events(mid, pn, o):
            lines.append(e)
            info.append(s)
        c.nontriv(s["id"])
    c.sample({"model": base[2]["build"], "partitions": ["default", "ignore", "N", "alt", "N+alt", "random linear"]})
    # several ranks: blocks, operators and parts are computed by different ranks and exchanged; on EVERY rank the observables must be
    # the same function of (model, beta, arguments) under every partition (the single-rank observations above are the references)
    NR = 3
    rmods = [m["id"] for m in base[:5]] + ([m["id"] for m in base[5:11]] if thorough else [])
    sub = [(mid, pn, s) for (mid, pn, s) in plan if mid in rmods and pn in ("default", "ignore", "N", "N+alt")]
    per, done, rc, err = pv.run_driver_ranks(exe, [s for (_, _, s) in sub], NR, timeout=1500)
    c.extra["rank_tier"] = {"ranks": NR, "scenarios": len(sub)}
    if min(done) < len(sub):
        c.violation("%d ranks: the run did not complete (rc=%s): %s" % (NR, rc, err[-300:].replace("\n", " | ")), {"ranks": NR, "scenario": sub[min(min(done), len(sub) - 1)][2]}, cls="ranks:termination")
    for rk in range(NR):
        rb = {}
        for r in per[rk]:
            if r.get("e") == "Q":
                rb.setdefault(r["id"], []).append(r)
        for (mid, pn, s) in sub:
            if s["id"] not in rb:
                continue
            c.evaluations += 1
            try:
                o = obs.collect(rb[s["id"]])
            except Exception as ex:
                c.violation("%d ranks, rank %d: %s under partition %s: %s" % (NR, rk, mid, json.dumps(s["partition"]), ex), dict(s, ranks=NR, rank=rk), cls="ranks:exception")
                continue
            for e in obs.events(mid, "%s@rank%d/%d" % (pn, rk, NR), o):
                lines.append(e)
                info.append(dict(s, ranks=NR, rank=rk))
            c.nontriv("%s@np%d" % (s["id"], NR))
    pos, guard = 0, 0
    while pos < len(lines) and guard < 60:
        guard += 1
        # a fresh run needs the references again: keep every first observation of each key that precedes pos
        seen, head = set(), []
        for e in lines[:pos]:
            if e["key"] not in seen:
                seen.add(e["key"])
                head.append(e)
        v = pv.validate_trace("ObsTrace", "ObsTrace", head + lines[pos:], "C08/trace-%d" % (guard % 4), timeout=3000, heap="8g")
        pv.tlc_or_die(v.res, "ObsTrace")
        c.states += v.res.distinct
        c.transitions += v.res.generated
        if guard == 1:
            c.tlc_cmds.append(v.res.cmd)
        if v.accepted:
            c.traces += len(lines) - pos
            break
        k = pos + v.matched - len(head)
        bad = lines[k]
        first = [e for e in lines if e["key"] == bad["key"]][0]
        c.traces += k - pos
        c.violation("observable %s differs between partition '%s' and partition '%s' (in units of 1e-8: %s vs %s)" % (
            bad["key"], first["var"], bad["var"], first["vals"][:6], bad["vals"][:6]), {"scenario": info[k], "reference_partition": first["var"], "observable": bad["key"]}, cls="invariance")
        pos = k + 1
    c.rule = "%d general integer models x 7 partitions x (spectrum, weights, averages, all G_ij, chi for 9 quadruples x 8 triples, 5 susceptibilities); non-trivial = distinct (model, partition)" % len(base)
    c.trusted = ["TLC", "tools/obs.py quantisation (floor(x / 1e-8 scale))"]
    c.assumptions = ["agreement within 2e-8 relative to the observable's scale"]
    c.finish()


def replay(path):
    print(open(path).read()[:3000])
    return 1
