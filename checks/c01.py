"""C01 -- the single-particle Matsubara Green's function equals its definition.

Specification: spec/Lehmann.tla on the exact family: G_ij(z) = sum over ALL pairs of eigenstates of
<n|c_i|m><m|c^+_j|n> (w_n + w_m) / (z - (E_m - E_n)), exact integers, weights symbolic.
  (1) TLC (LehmannGen): canonical transformation, Hermitian expansion, sum rule coefficient-wise in the weights and conjugation
      symmetry of the Lehmann data, for every model; prints the data;
  (2) the real library: every component (i,j) -- diagonal and off-diagonal; models without S_z or N conservation, multi-orbital
      layouts, degenerate spectra -- at Matsubara numbers n in {-3..2, +-50} and off-axis z, for several beta, read from a
      stand-alone GreensFunction and from GFContainer, compared with the specification's expression.
Allowed deviation (the property's own): 1e-9 * sum|terms| + sum over pairs of energy levels connected by both c_i and c_j of
dim(a) dim(b) 1e-8 / |z - (E_b - E_a)|  (residues below 1e-8 are dropped before like poles are merged).
"""
import json, random, sys
import mpmath as mp
import random
import pv, exact

NS = [-3, -2, -1, 0, 1, 2, 50, -50]
ZS = [["0.3", "1.7"], ["-0.3", "-1.7"], ["2.5", "0.4"]]


def drop_bound(p, gf, i, j, z):
    """The deviation the property allows: the library drops every Lehmann term whose residue is below 1e-8 BEFORE like poles are merged.
    Inside degenerate levels its eigenvectors are an arbitrary rotation of the specification's, so individual residues between two
    levels are generic numbers that only sum to the exact value; a term can be dropped only between two energy levels that both c_i
    and c_j connect: at most dim(a) * dim(b) terms of at most 1e-8 at the pole E_b - E_a."""
    E = p["E"]
    dim = {}
    for e in E:
        dim[e] = dim.get(e, 0) + 1
    ci = {(E[n], E[m]) for (n, m, pole, re, im) in gf[(i, i)]}
    cj = {(E[n], E[m]) for (n, m, pole, re, im) in gf[(j, j)]}
    b = mp.mpf(0)
    for (ea, eb) in ci & cj:
        b += dim[ea] * dim[eb] * mp.mpf("1e-8") / abs(z - (eb - ea))
    return b


def check_gf(c, m, p, im, r, beta, route, rep):
    gf = {tuple(t["ij"]): t["terms"] for t in p["gf"]}
    inv = {v: k for k, v in enumerate(im)}
    n_ok = 0
    for o in r["gf"]:
        i, j = inv[o["i"]], inv[o["j"]]
        terms = gf[(i, j)]
        if o["idx"] != [o["i"], o["j"]]:
            c.violation("model %s: %s returned the component %s when asked for (%d,%d)" % (m["id"], route, o["idx"], o["i"], o["j"]), rep, cls="component")
            return False
        pts = [("n", n, exact.matsubara(beta, n), v) for (n, v) in o["n"]] + [("z", z, mp.mpc(mp.mpf(z[0]), mp.mpf(z[1])), v) for (z, v) in o["z"]]
        for (kind, arg, z, v) in pts:
            want, tot, npairs, dist = exact.gf_value(p, terms, beta, z)
            got = exact.cplx(v)
            tol = 1e-9 * tot + drop_bound(p, gf, i, j, z) + 1e-13
            c.evaluations += 1
            if not (abs(got - want) <= tol):
                c.violation("model %s beta=%s %s: G_%d%d(%s=%s) = %s, definition gives %s (allowed deviation %s)" % (
                    json.dumps({k: m[k] for k in ("M", "eps", "U", "rot", "bog", "ph")}), beta, route, o["i"], o["j"], kind, arg, mp.nstr(got, 12), mp.nstr(want, 12), mp.nstr(tol, 3)),
                    dict(rep, component=[o["i"], o["j"]], arg=[kind, arg]), cls="value")
                return False
        if terms:
            c.nontriv("%s (%d,%d) %s" % (m["id"], i, j, "off" if i != j else "diag"))
        n_ok += 1
    return True


def gfcontainer_histories(c, thorough):
    import models
    cfg_mc, cfg_emit = "Container2MC", "Container2Emit"
    if thorough:
        for (src, dst) in (("Container2MC", "Container2MC4"), ("Container2Emit", "Container2Emit4")):
            open(pv.SPEC + "/%s.cfg" % dst, "w").write(open(pv.SPEC + "/%s.cfg" % src).read().replace("MaxCalls = 3", "MaxCalls = 4"))
        cfg_mc, cfg_emit = "Container2MC4", "Container2Emit4"
    r = pv.run_tlc("Container2MC", cfg_mc, workers=8, timeout=1800)
    c.add_tlc(r, "Container2MC")
    if r.violated:
        pv.log("INFRA: Container2.tla design level violates its definition level: %s" % r.violated)
        sys.exit(2)
    em = pv.run_tlc("Container2MC", cfg_emit, workers=1, timeout=1800, heap="8g")
    pv.tlc_or_die(em, "Container2MC/Emit")
    trans = em.pv
    exe = pv.harness("plain", "pv_driver")
    ms = [models.mixed_sites(), models.spinless_chain(3)] + ([models.spinflip_atom(), models.random_model(random.Random(c.seed), "c2rnd", max_modes=3)] if thorough else [])
    ms = [m for m in ms if models.nmodes(m) >= 3][:3] or ms[:1]
    scen = []
    for k, t in enumerate(trans):
        m = ms[k % len(ms)]
        calls = [list(a) for a in t["pre"]] + [t["act"]]
        scen.append(dict(m, kind="container2", id="c2:%s:%d" % (m["id"], k), beta="1.5", freqs=[-2, -1, 0, 1], calls=calls))
    recs, crashed = pv.run_driver_resilient(exe, scen, timeout=3000)
    sc_of = {s["id"]: s for s in scen}
    for s in scen:
        if s["id"] in crashed:
            c.violation("GFContainer: library crashed in the call history %s" % json.dumps(s["calls"]), s, cls="container2:crash")
    ev = [r for r in recs if r.get("e") in ("CBegin", "Call") and r.get("id") not in crashed]
    for r in recs:
        if r.get("e") == "Fail":
            c.violation("GFContainer: model %s could not be built: %s" % (r.get("id"), r.get("fail")), sc_of.get(r.get("id")), cls="container2:setup")
    pos, guard = 0, 0
    while pos < len(ev) and guard < 40:
        guard += 1
        v = pv.validate_trace("Container2Trace", "Container2Trace", ev[pos:], "C01/c2-%d" % (guard % 3), timeout=1800, heap="8g")
        pv.tlc_or_die(v.res, "Container2Trace")
        c.states += v.res.distinct
        c.transitions += v.res.generated
        if guard == 1:
            c.tlc_cmds.append(v.res.cmd)
        if v.accepted:
            break
        bad = ev[pos + v.matched]
        s = sc_of.get(bad["id"], {})
        c.violation("GFContainer after the call history %s: call %s returned %s with map %s, elements %s%s -- not a behaviour of Container2.tla" % (
            json.dumps(s.get("calls", [])[:-1]), json.dumps(bad["act"]), bad["res"], json.dumps(bad["em"])[:200], json.dumps(bad["el"])[:200],
            (", value differs from the directly constructed G by %s" % bad.get("maxdiff")) if bad["act"][0] == "Eval" else ""), s, cls="container2")
        nxt = pos + v.matched + 1
        while nxt < len(ev) and ev[nxt]["e"] != "CBegin":
            nxt += 1
        pos = nxt
    c.traces += len(scen)
    nv = 0
    for r in ev:
        if r.get("e") == "Call":
            c.evaluations += 1
            if r["act"][0] == "Eval" and r["res"] == "value" and r.get("nonzero_ref"):
                nv += 1
    c.nontriv("GFContainer transition graph: %d transitions replayed, %d evaluations of computed non-vanishing elements" % (len(trans), nv))
    c.extra["gfcontainer"] = {"transitions": len(trans), "models": [m["id"] for m in ms], "nonvanishing_evaluations": nv}


def main():
    c = pv.Check("C01")
    thorough = c.tier == "thorough"
    rng = random.Random(c.seed)
    exe = pv.harness("plain", "pv_driver")
    ms = exact.catalogue(rng, Ms=(2, 3) if not thorough else (1, 2, 3, 4), per_M=8 if not thorough else 14)
    if not thorough:
        ms += exact.catalogue(rng, Ms=(4,), per_M=4, prefix="F")
    for k in range(8 if not thorough else 60):
        ms.append(exact.random_model(rng, "R%d" % k, rng.choice([2, 3, 3, 4] if not thorough else [2, 3, 4, 4])))
    ms += exact.with_phases(rng, ms)[: (6 if not thorough else 40)]      # gauge-phased copies: complex Hamiltonians, complex build
    for m in ms:
        M = m["M"]
        m["gf"] = [[i, j] for i in range(M) for j in range(M)]
    res, pred = exact.evaluate(ms, "C01/gen", timeout=3000)
    c.add_tlc(res, "LehmannGen")
    if res.violated:
        pv.log("INFRA: Lehmann.tla self-check %s failed\n%s" % (res.violated, res.stdout[-1500:]))
        sys.exit(2)
    betas = ["0.1", "0.6931471805599453", "1.0", "7.3", "50.0"] if thorough else ["0.1", "1.0", "7.3", "50.0"]
    # phase 1: index tables
    recs, crashed = exact.run_split(exe, [exact.scenario(m, pred[m["id"]], queries=[{"q": "index"}]) for m in ms], ms)
    tabs = {r["id"]: r["tab"] for r in recs if r.get("e") == "Q" and "tab" in r}
    scen = []
    for m in ms:
        if m["id"] not in tabs:
            c.violation("model %s could not be built" % m["id"], exact.scenario(m, pred[m["id"]], queries=[{"q": "index"}]), cls="exception")
            continue
        im = exact.index_map(m, tabs[m["id"]])
        pairs = [[im[i], im[j]] for (i, j) in m["gf"]]
        qs = []
        for b in betas:
            qs.append({"q": "gf", "beta": b, "pairs": pairs, "ns": NS, "zs": ZS, "via": "direct", "tag": b})
            qs.append({"q": "gf", "beta": b, "pairs": pairs, "ns": NS[:4], "zs": ZS[:1], "via": "container", "tag": b, "fill_all": rng.random() < 0.5})
        m["_im"] = im
        scen.append(exact.scenario(m, pred[m["id"]], queries=qs))
    recs, crashed = exact.run_split(exe, scen, ms)
    byid = {}
    for r in recs:
        if r.get("e") == "Q":
            byid.setdefault(r["id"], []).append(r)
    for sc in scen:
        m = [x for x in ms if x["id"] == sc["id"]][0]
        if sc["id"] in crashed:
            c.violation("library crashed on model %s" % json.dumps({k: m[k] for k in ("M", "eps", "U", "rot", "bog", "layout")}), sc, cls="crash")
            continue
        for r in byid.get(sc["id"], []):
            rep = {"model": {k: m[k] for k in m if not k.startswith("_")}, "scenario": dict(sc, queries=[q for q in sc["queries"] if q["tag"] == r.get("tag") and q["via"] == r.get("via")])}
            if "gf" not in r:
                c.violation("model %s: Green's function failed: %s" % (m["id"], r.get("fail") or r.get("ex")), rep, cls="exception")
                continue
            if check_gf(c, m, pred[m["id"]], m["_im"], r, r["tag"], r["via"], rep):
                c.traces += 1
    c.sample({"model": {k: ms[2][k] for k in ("M", "eps", "U", "rot", "bog", "layout")}, "betas": betas, "n": NS, "z": ZS})
    c.rule = ("exact family: %d models x %d betas x all (i,j) x %d Matsubara numbers + %d off-axis points x {stand-alone, container}; non-trivial = distinct "
              "(model, component) with at least one Lehmann term" % (len(ms), len(betas), len(NS), len(ZS)))
    c.trusted = ["TLC", "tools/exact.py comparator (mpmath)", "harness gf query"]
    c.assumptions = ["exact family only (rational spectra): generic irrational spectra are reached by C08/C11/C12/C18", "real build"]
    # GFContainer as a state machine (spec/Container2.tla): TLC checks owner soundness, no sharing, evaluability after computeAll and
    # "prepareAll lists exactly the requested pairs" on every state reachable in 3 (thorough 4) calls; every explored transition is replayed
    # into a real GFContainer (map, element identities, statuses) and every evaluated element is compared bit for bit with a GreensFunction
    # constructed directly for that pair; simulated longer histories likewise (Container2Trace.tla)
    gfcontainer_histories(c, thorough)
    # the container every part accumulates its Lehmann terms in (spec/TermList.tla): like terms are merged, nothing is lost except by the
    # negligibility rule -- every add_term history of a catalogue with chains of nearly equal poles, replayed on the real template
    import termlist
    termlist.run(c, ["GF"], thorough)
    # call histories of the documented workflow (spec/Workflow.tla): repeated prepare()/compute() are no-ops, a call changes the data of
    # its own object only, and whatever the history, the finished object holds the data of the canonical linear order
    import workflow
    workflow.attach(c, {"GF"}, "Green's function")
    c.finish()


def replay(path):
    print(open(path).read()[:3000])
    return 1
