"""C11 -- the Green's function obeys fermionic symmetry, sum rules and the tau/frequency duality.

Specification: spec/Lehmann.tla: the same Lehmann data gives G(z) and G(tau) = -sum X_nm w_n exp(tau (E_n - E_m)); the sum rule
(sum of residues = delta_ij, coefficient-wise in the weights) and the conjugation symmetry are invariants TLC checks on the data.
  (1) TLC (LehmannGen): SumRules (sum rule + conjugation symmetry) for every model and component;
  (2) exact family: GreensFunction::of_tau on a grid of [0, beta] incl. both ends, beta small and large (up to beta * |pole| ~ 2000,
      where the two overflow-avoiding branches of the term matter), against the specification;
  (3) general models (irrational spectra), relationally on the library's own outputs: conj G_ij(z) = G_ji(conj z) on and off the
      axis; z G_ij(z) -> delta_ij at |z| = 1e6; Im G_ii(i w_n) < 0 for w_n > 0; G_ii(tau) <= 0; G_ij(0+) + G_ij(beta-) = -delta_ij;
      G_ii(beta-) = -<n_i>; and G(tau) against the Matsubara sum of G(i w_n) with the 1/(i w) tail treated analytically.
"""
import json, math, cmath, random, sys
import mpmath as mp
import pv, exact, models


def main():
    c = pv.Check("C11")
    thorough = c.tier == "thorough"
    rng = random.Random(c.seed)
    exe = pv.harness("plain", "pv_driver")
    ms = exact.catalogue(rng, Ms=(2, 3), per_M=6 if not thorough else 12)
    for k in range(4 if not thorough else 30):
        ms.append(exact.random_model(rng, "R%d" % k, rng.choice([2, 3, 4])))
    ms += exact.with_phases(rng, ms)[: (4 if not thorough else 24)]
    for m in ms:
        M = m["M"]
        m["gf"] = [[i, j] for i in range(M) for j in range(M)]
    res, pred = exact.evaluate(ms, "C11/gen", timeout=3000)
    c.add_tlc(res, "LehmannGen")
    if res.violated:
        pv.log("INFRA: Lehmann.tla self-check %s failed" % res.violated)
        sys.exit(2)
    betas = ["0.05", "1.0", "7.3", "400.0"]
    recs, crashed = exact.run_split(exe, [exact.scenario(m, pred[m["id"]], queries=[{"q": "index"}]) for m in ms], ms)
    tabs = {r["id"]: r["tab"] for r in recs if r.get("e") == "Q" and "tab" in r}
    scen = []
    for m in ms:
        if m["id"] not in tabs:
            c.violation("model %s could not be built" % m["id"], m, cls="exception")
            continue
        im = exact.index_map(m, tabs[m["id"]])
        m["_im"] = im
        pairs = [[im[i], im[j]] for (i, j) in m["gf"]]
        qs = []
        for b in betas:
            bb = mp.mpf(b)
            taus = [mp.nstr(bb * f, 17) for f in (0, mp.mpf(1) / 7, mp.mpf(1) / 2, mp.mpf(6) / 7, 1)]
            qs.append({"q": "gf", "beta": b, "pairs": pairs, "taus": taus, "tag": b})
        scen.append(exact.scenario(m, pred[m["id"]], queries=qs))
    # general models
    gen = []
    GB = ["0.7", "3.0", "25.0"]
    for g in models.catalogue(thorough):
        M = models.nmodes(g)
        pairs = [[i, j] for i in range(M) for j in range(M)]
        qs = []
        for b in GB:
            bb = float(b)
            zs = [["0.3", "1.7"], ["0.3", "-1.7"], ["-2.1", "0.4"], ["-2.1", "-0.4"], ["0", "1000000"], ["600000", "800000"]]
            taus = [repr(bb * f) for f in (0.0, 1.0 / 7, 0.5, 6.0 / 7, 1.0)]
            qs.append({"q": "gf", "beta": b, "pairs": pairs, "ns": list(range(-3, 4)) + [40, -41], "zs": zs, "taus": taus, "tag": b})
            qs.append({"q": "dm", "beta": b, "tag": b, "averages": False})
        # Matsubara sum: many frequencies for a few components
        qs.append({"q": "gf", "beta": "3.0", "pairs": pairs[: min(len(pairs), 6)], "ns": list(range(-600, 600)), "taus": [repr(3.0 * f) for f in (1.0 / 7, 0.5, 6.0 / 7)], "tag": "sum"})
        gen.append(dict(g, queries=qs))
    recs, crashed = exact.run_split(exe, scen + gen, ms)
    byid = {}
    for r in recs:
        if r.get("e") == "Q":
            byid.setdefault(r["id"], []).append(r)
    # (2) exact family, of_tau
    for sc in scen:
        m = [x for x in ms if x["id"] == sc["id"]][0]
        p = pred[m["id"]]
        if sc["id"] in crashed:
            c.violation("library crashed on model %s" % m["id"], sc, cls="crash")
            continue
        gf = {tuple(t["ij"]): t["terms"] for t in p["gf"]}
        inv = {v: k for k, v in enumerate(m["_im"])}
        for r in byid.get(sc["id"], []):
            beta = r.get("tag")
            rep = {"model": {k: m[k] for k in m if not k.startswith("_")}, "beta": beta}
            if "gf" not in r:
                c.violation("model %s beta=%s: of_tau failed: %s" % (m["id"], beta, r.get("fail") or r.get("ex")), rep, cls="exception")
                continue
            ok = True
            for o in r["gf"]:
                i, j = inv[o["i"]], inv[o["j"]]
                for (tau, v) in o["tau"]:
                    want = exact.gf_tau(p, gf[(i, j)], beta, tau)
                    got = exact.cplx(v)
                    c.evaluations += 1
                    if not (abs(got - want) <= 1e-8 + 1e-9 * abs(want)):       # also catches NaN
                        c.violation("model %s beta=%s: G_%d%d(tau=%s) = %s, definition gives %s" % (
                            json.dumps({k: m[k] for k in ("M", "eps", "U", "rot", "bog", "ph")}), beta, o["i"], o["j"], tau, mp.nstr(got, 12), mp.nstr(want, 12)),
                            dict(rep, component=[o["i"], o["j"]], tau=tau), cls="tau")
                        ok = False
                        break
                if not ok:
                    break
                if gf[(i, j)]:
                    c.nontriv("tau %s (%d,%d) %s" % (m["id"], i, j, beta))
            if ok:
                c.traces += 1
    # (3) general models
    def val(lst, key):
        for (k, v) in lst:
            if k == key:
                return complex(float(v[0]), float(v[1]))
        raise KeyError(key)

    for g in gen:
        if g["id"] in crashed:
            c.violation("library crashed on %s" % g["id"], g, cls="crash")
            continue
        rs = byid.get(g["id"], [])
        dms = {r["tag"]: r for r in rs if r["q"] == "dm"}
        for r in rs:
            if r["q"] != "gf":
                continue
            if "gf" not in r:
                c.violation("%s: Green's function failed: %s" % (g["id"], r.get("fail") or r.get("ex")), g, cls="exception")
                continue
            beta = float(r["beta"])
            M_ = models.nmodes(g)
            G = {(o["i"], o["j"]): o for o in r["gf"]}
            rep = {"model": g["id"], "build": g["build"], "sites": g["sites"], "beta": r["beta"]}
            bad = None
            if r["tag"] == "sum":
                for (i, j), o in G.items():
                    d = 1.0 if i == j else 0.0
                    for (tau, v) in o["tau"]:
                        t = float(tau)
                        s = 0
                        for (n, gv) in o["n"]:
                            w = (2 * n + 1) * math.pi / beta
                            s += cmath.exp(-1j * w * t) * (complex(float(gv[0]), float(gv[1])) - d / (1j * w))
                        approx = s / beta - d / 2
                        got = complex(float(v[0]), float(v[1]))
                        c.evaluations += 1
                        if not (abs(got - approx) <= 3e-3):
                            bad = "G_%d%d(tau=%s) = %s but the Matsubara sum of G(i w_n) gives %s" % (i, j, tau, got, approx)
                if bad:
                    c.violation("%s beta=%s: %s" % (g["id"], r["beta"], bad), rep, cls="duality")
                else:
                    c.traces += 1
                continue
            dm = dms.get(r["tag"])
            for (i, j), o in G.items():
                d = 1.0 if i == j else 0.0
                ot = G[(j, i)]
                # conjugation symmetry on and off the axis
                for n in range(-3, 3):
                    a, b = val(o["n"], n), val(ot["n"], -n - 1)
                    if not (abs(a.conjugate() - b) <= 1e-10 * (1 + abs(a))):
                        bad = "conj G_%d%d(i w_%d) = %s but G_%d%d(-i w_%d) = %s" % (i, j, n, a.conjugate(), j, i, n, b)
                zs = o["z"]
                zt = ot["z"]
                for k in (0, 2):
                    a = complex(float(zs[k][1][0]), float(zs[k][1][1]))
                    b = complex(float(zt[k + 1][1][0]), float(zt[k + 1][1][1]))
                    if not (abs(a.conjugate() - b) <= 1e-10 * (1 + abs(a))):
                        bad = "conj G_%d%d(z) = %s but G_%d%d(conj z) = %s at z = %s" % (i, j, a.conjugate(), j, i, b, zs[k][0])
                # high-frequency tail
                for k in (4, 5):
                    z = complex(float(zs[k][0][0]), float(zs[k][0][1]))
                    a = complex(float(zs[k][1][0]), float(zs[k][1][1]))
                    if not (abs(z * a - d) <= 1e-4):
                        bad = "z G_%d%d(z) = %s at |z| = 1e6, expected %s" % (i, j, z * a, d)
                t0 = complex(float(o["tau"][0][1][0]), float(o["tau"][0][1][1]))
                tb = complex(float(o["tau"][-1][1][0]), float(o["tau"][-1][1][1]))
                droptol = 4 ** M_ * 1e-8 + 1e-10          # residues below 1e-8 are dropped (documented): at most 4^M terms
                if not (abs(t0 + tb + d) <= droptol):
                    bad = "G_%d%d(0+) + G_%d%d(beta-) = %s, expected %s" % (i, j, i, j, t0 + tb, -d)
                if i == j:
                    for n in (0, 1, 2, 40):
                        if val(o["n"], n).imag >= 0:
                            bad = "Im G_%d%d(i w_%d) = %s is not negative" % (i, i, n, val(o["n"], n).imag)
                    for (tau, v) in o["tau"]:
                        if float(v[0]) > 4 ** M_ * 1e-8:
                            bad = "G_%d%d(tau=%s) = %s is positive" % (i, i, tau, v[0])
                    if dm is not None and "occ_i" in dm and abs(tb.real + float(dm["occ_i"][i])) > droptol:
                        bad = "G_%d%d(beta-) = %s but -<n_%d> = %s" % (i, i, tb.real, i, -float(dm["occ_i"][i]))
                c.evaluations += 1
                if bad:
                    break
            if bad:
                c.violation("%s beta=%s: %s" % (g["id"], r["beta"], bad), rep, cls="relation")
            else:
                c.traces += 1
                c.nontriv("rel %s %s" % (g["id"], r["beta"]))
    c.sample({"exact_model": {k: ms[1][k] for k in ("M", "eps", "U", "rot", "bog", "ph")}, "betas": betas, "general_model": gen[2]["build"]})
    c.rule = "exact family: %d models x 4 betas x all (i,j) x 5 imaginary times; general models: %d x 3 betas x all relations; non-trivial = distinct (model, component, beta) with data / (model, beta)" % (len(ms), len(gen))
    c.trusted = ["TLC", "tools/exact.py comparator", "python relational arithmetic"]
    c.assumptions = ["Matsubara-sum duality for general models uses 1200 frequencies with analytic 1/(i w) tail: tolerance 3e-3"]
    # the objects this property speaks about, under call histories of the documented workflow (spec/Workflow.tla; result shared with C01 etc.)
    import workflow
    workflow.attach(c, {"GF"}, "Green's function (copies, repeated calls)")
    c.finish()


def replay(path):
    print(open(path).read()[:3000])
    return 1
