"""C13 -- the 2PGF container honours the exchange symmetries regardless of request history.

Specification: spec/Container4.tla (ElementsMap / NonTrivialElements / element statuses; one action per public call).
  (1) TLC checks AliasSound (an alias denotes the same abstract value under the two exchange symmetries, with the right
      sign), OwnerSound, NTisEM and EvaluableAfterBulk on every reachable state of the bounded state graph;
  (2) every explored transition is replayed into a real TwoParticleGFContainer: outcome, maps, element identities and
      statuses must equal the specification's prediction; every Eval is compared with a TwoParticleGF built directly;
  (3) randomised histories on larger models are recorded and validated by TLC (ContainerTrace.tla);
  (4) the two exchange symmetries are checked on directly constructed objects.
"""
import json, random, sys
import pv, models

TRIPLES = [[0, 0, 0], [1, 0, -1], [0, 1, 1], [-2, 1, 0], [2, 2, 2], [-1, 0, -1]]


def base_model():
    """two modes, all symmetries broken (spin-flip field and pair field), evaluated in a single block: every quadruple has parts"""
    m = models.model("c13base", [["A", 1, 2]],
                     [models.P("addCoulombS", "A", 8, -2), models.P("addHopping8", "A", "A", 4, 0, 0, 1, 0),
                      models.T([[1, "A", 0, 1], [1, "A", 0, 0]], 2), models.T([[0, "A", 0, 0], [0, "A", 0, 1]], 2)],
                     partition={"mode": "ignore"})
    return m


def norm3(lst):
    return sorted(json.dumps(x) for x in lst)


def compare(exp, obs):
    if obs is None:
        return "no result (library crashed)"
    if exp["res"] != obs["res"]:
        return "outcome %s (%s), specification says %s" % (obs["res"], obs.get("ex", ""), exp["res"])
    if exp["act"][0] == "Eval" and obs["res"] == "value" and not obs.get("agrees"):
        return "value differs from a directly constructed TwoParticleGF by %s (scale %s)" % (obs.get("maxdiff"), obs.get("scale"))
    if norm3(exp["em"]) != norm3(obs["em"]):
        return "ElementsMap differs from the specification"
    if norm3(exp["nt"]) != norm3(obs["nt"]):
        return "NonTrivialElements differs from the specification"
    eel = {x[0]: x for x in exp["el"]}
    for x in obs["el"]:
        if x[0] not in eel or eel[x[0]][1] != x[1] or eel[x[0]][2] != x[2]:
            return "element %s: observed idx/status %s %s, specification %s" % (x[0], x[1], x[2], eel.get(x[0]))
    return None


def closure(q):
    i, j, k, l = q
    return {(i, j, k, l), (j, i, k, l), (i, j, l, k), (j, i, l, k)}


def random_history(rng, nmodes, n):
    calls, dom = [], set()

    def rq():
        return tuple(rng.randrange(nmodes) for _ in range(4))

    while len(calls) < n:
        r = rng.random()
        if r < 0.2:
            S = sorted({rq() for _ in range(rng.randint(1, 4))})
            if rng.random() < 0.3 and calls and calls[-1][0] == "PrepareAll":
                S = sorted(set(S) | {tuple(calls[-1][1][0])})      # overlapping consecutive fills
            calls.append(["PrepareAll", [list(q) for q in S]])
            dom = set()
            for q in S:
                if q not in dom:
                    dom |= closure(q)
        elif r < 0.35:
            calls.append(["ComputeAll", rng.random() < 0.6])
        elif r < 0.55:
            q = rq()
            calls.append(["Lookup", list(q)])
            if q not in dom:
                dom |= closure(q)
            if rng.random() < 0.7:
                calls.append(["PrepareElem", list(q)])
                if rng.random() < 0.8:
                    calls.append(["ComputeElem", list(q)])
        elif dom:
            q = rng.choice(sorted(dom))
            calls.append([rng.choice(["Eval", "Eval", "Eval", "ComputeElem", "PrepareElem"]), list(q)])
    return calls[:n + 2]


def main():
    c = pv.Check("C13")
    thorough = c.tier == "thorough"
    rng = random.Random(c.seed)
    exe = pv.harness("plain", "pv_driver")

    res = pv.run_tlc("Container4MC", "Container4Emit", workers=8, timeout=1500)
    c.add_tlc(res, "Container4")
    if res.violated:
        pv.log("INFRA: Container4.tla violates its own definition level: %s\n%s" % (res.violated, res.stdout[-2000:]))
        sys.exit(2)
    if thorough:
        import shutil
        cfg = open(pv.SPEC + "/Container4MC.cfg").read().replace("MaxCalls = 3", "MaxCalls = 4")
        open(pv.SPEC + "/Container4Deep.cfg", "w").write(cfg)
        r2 = pv.run_tlc("Container4MC", "Container4Deep", workers=16, timeout=3000, heap="12g")
        c.add_tlc(r2, "Container4 depth 4")
        if r2.violated:
            pv.log("INFRA: Container4.tla violates its definition level at depth 4: %s" % r2.violated)
            sys.exit(2)

    # (2) replay every transition
    base = base_model()
    trans = res.pv
    scen = []
    for i, t in enumerate(trans):
        s = dict(base)
        s.update({"kind": "container4", "id": i, "beta": "1.5", "triples": TRIPLES[:3], "calls": list(t["pre"]) + [t["act"]], "log": "last"})
        scen.append(s)
    recs, crashed = pv.run_driver_resilient(exe, scen, timeout=3000)
    byid = {r["id"]: r for r in recs if r.get("e") == "Call"}
    for i, t in enumerate(trans):
        c.evaluations += 1
        obs = byid.get(i)
        why = compare(t, obs)
        cls = t["act"][0]
        if t["act"][0] == "Eval":
            c.nontriv("eval:%s:%s:%s" % (t["res"], t["act"][1], len(t["pre"])))
        if why:
            c.violation("history %s: %s" % (json.dumps(scen[i]["calls"]), why),
                        {"scenario": scen[i], "expect": t, "observed": obs}, cls=cls)
    c.traces += len(trans)
    c.sample({"calls": scen[len(scen) // 2]["calls"], "model": base["build"]})

    # (3) random histories on larger models, validated by the trace specification
    bigs = [models.dimer(), models.spinflip_atom(), models.spinless_chain(3), models.hubbard_atom()]
    if thorough:
        bigs += [models.pair_atom(), models.heisenberg_dimer()]
    nm = {"dimer": 4, "sxatom": 2, "mixed": 3, "atom": 2, "pairatom": 2, "chain3": 3, "ssdimer": 4}
    nh = 24 if not thorough else 160
    hs = []
    for h in range(nh):
        m = dict(bigs[h % len(bigs)])
        modes = [v for k, v in nm.items() if m["id"].startswith(k)][0]
        m.update({"kind": "container4", "id": "h%d:%s" % (h, m["id"]), "beta": rng.choice(["0.7", "2.0", "5.0"]),
                  "triples": TRIPLES, "calls": random_history(rng, modes, 12)})
        hs.append(m)
    recs, crashed = pv.run_driver_resilient(exe, hs, timeout=3000)
    for h in hs:
        if h["id"] in crashed:
            c.violation("library died during history %s" % h["id"], h, cls="crash")
    lines = [r for r in recs if r.get("e") in ("Begin", "Call", "End")]
    pos, guard = 0, 0
    while pos < len(lines) and guard < 40:
        guard += 1
        v = pv.validate_trace("ContainerTrace", "ContainerTrace", lines[pos:], "C13/trace-%d" % guard, timeout=1500)
        pv.tlc_or_die(v.res, "ContainerTrace")
        c.states += v.res.distinct
        c.transitions += v.res.generated
        if guard == 1:
            c.tlc_cmds.append(v.res.cmd)
        if v.accepted:
            break
        bad = lines[pos + v.matched]
        ident = bad.get("id")
        hh = [h for h in hs if h["id"] == ident][0]
        c.violation("trace of %s rejected at step %s %s: observed res=%s agrees=%s" % (ident, bad.get("step"), json.dumps(bad.get("act")), bad.get("res"), bad.get("agrees")),
                    {"scenario": hh, "rejected_event": {k: bad[k] for k in bad if k not in ("em", "nt", "el")}}, cls=bad.get("act", ["trace"])[0])
        nxt = pos + v.matched
        while nxt < len(lines) and not (lines[nxt].get("e") == "Begin" and lines[nxt].get("id") != ident):
            nxt += 1
        pos = nxt
    c.traces += len({r["id"] for r in recs if r.get("e") == "End"})
    for r in recs:
        if r.get("e") == "Call":
            c.evaluations += 1
            if r["act"][0] == "Eval":
                c.nontriv("h-eval:%s:%s" % (r["id"].split(":")[1], r["res"]))
    c.sample({"history": hs[0]["calls"], "model": hs[0]["build"]})

    # (3b) the same kind of histories on 2 and 3 MPI ranks (all ranks make the same calls; bulk computations are distributed, split and unsplit):
    #      the events recorded on EVERY rank must be a behaviour of Container4.tla, with every evaluated value equal to the direct object's
    for nranks in ((2, 3) if not thorough else (2, 3, 5)):
        rh = []
        for h in range(6 if not thorough else 24):
            m = dict(bigs[h % len(bigs)])
            modes = [v for k, v in nm.items() if m["id"].startswith(k)][0]
            calls = random_history(rng, modes, 8)
            # make sure a distributed bulk computation over an odd number of stored components is part of the history
            extra = [[rng.randrange(modes) for _ in range(4)] for _ in range(3)]
            # every element in the map is prepared before a bulk computation: an unprepared one makes compute() throw on the rank that owns it
            # only, which (legitimately, outside the property) leaves the other ranks waiting in a collective
            body = []
            for cl in calls[:6]:
                body.append(cl)
                if cl[0] in ("Lookup", "Eval"):            # both create the element on demand
                    body.append(["PrepareElem", cl[1]])
            tail = []
            for q in extra:
                tail += [["Lookup", q], ["PrepareElem", q]]
            calls = [["PrepareAll", extra]] + body + tail + [["ComputeAll", True], ["Eval", extra[0]], ["Eval", extra[1]], ["ComputeAll", False], ["Eval", extra[2]]]
            m.update({"kind": "container4", "id": "np%d:h%d:%s" % (nranks, h, m["id"]), "beta": "2.0", "triples": TRIPLES, "calls": calls})
            rh.append(m)
        # more ranks than stored components (and a rank count the component count does not divide): several ranks share one component,
        # the split computation broadcasts each component from the first rank of its colour
        for few in sorted({1, 2, nranks - 1} - {0}):
            if few >= nranks:
                continue
            comps = [[0, 1, 0, 1], [1, 1, 1, 1], [0, 0, 0, 0], [0, 0, 1, 1]][:few]
            m = dict(bigs[few % len(bigs)])
            calls = [["PrepareAll", comps], ["ComputeAll", True]] + [["Eval", q] for q in comps] + [["Eval", [1, 0, 1, 0]], ["ComputeAll", False], ["Eval", comps[0]]]
            m.update({"kind": "container4", "id": "np%d:few%d:%s" % (nranks, few, m["id"]), "beta": "2.0", "triples": TRIPLES, "calls": calls})
            rh.append(m)
        per, done, rc, err = pv.run_driver_ranks(exe, rh, nranks, timeout=900)
        if min(done) < len(rh):
            k = min(done)
            c.violation("%d ranks: container history %s did not complete (rc=%s): %s" % (nranks, rh[min(k, len(rh) - 1)]["id"], rc, err[-300:].replace("\n", " | ")),
                        dict(rh[min(k, len(rh) - 1)], ranks=nranks), cls="ranks:termination")
        for rank in range(nranks):
            lines = [r for r in per[rank] if r.get("e") in ("Begin", "Call", "End")]
            pos, guard = 0, 0
            while pos < len(lines) and guard < 12:
                guard += 1
                v = pv.validate_trace("ContainerTrace", "ContainerTrace", lines[pos:], "C13/rank%d-%d" % (rank, guard % 3), timeout=1500)
                pv.tlc_or_die(v.res, "ContainerTrace")
                c.states += v.res.distinct
                c.transitions += v.res.generated
                if v.accepted:
                    break
                bad = lines[pos + v.matched]
                ident = bad.get("id")
                hh = [h for h in rh if h["id"] == ident]
                c.violation("%d ranks, rank %d: trace of %s rejected at step %s %s: observed res=%s agrees=%s" % (nranks, rank, ident, bad.get("step"), json.dumps(bad.get("act")), bad.get("res"), bad.get("agrees")),
                            {"scenario": hh[0] if hh else None, "ranks": nranks, "rank": rank, "rejected_event": {k: bad[k] for k in bad if k not in ("em", "nt", "el")}}, cls="ranks:" + bad.get("act", ["trace"])[0])
                nxt = pos + v.matched
                while nxt < len(lines) and not (lines[nxt].get("e") == "Begin" and lines[nxt].get("id") != ident):
                    nxt += 1
                pos = nxt
            c.traces += len([r for r in per[rank] if r.get("e") == "End"])
            c.nontriv("np%d rank %d container histories" % (nranks, rank))
        c.extra.setdefault("rank_tier", []).append({"ranks": nranks, "histories": len(rh)})

    # (4) the two exchange symmetries on directly constructed objects
    ms = [models.dimer(), models.spinflip_atom(), models.spinless_chain(3)]
    tri = [[a, b, d] for a in (-1, 0, 1) for b in (-1, 0, 1) for d in (-1, 0, 1)]
    scen = []
    for m in ms:
        modes = [v for k, v in nm.items() if m["id"].startswith(k)][0]
        quads = []
        while len(quads) < (12 if not thorough else 40):
            q = [rng.randrange(modes) for _ in range(4)]
            if q[0] != q[1] or q[2] != q[3]:
                quads.append(q)
        allq = []
        for q in quads:
            allq += [q, [q[1], q[0], q[2], q[3]], [q[0], q[1], q[3], q[2]]]
        tri2 = tri + [[t[1], t[0], t[2]] for t in tri] + [[t[0], t[1], t[0] + t[1] - t[2]] for t in tri]
        tri2 = [list(x) for x in sorted({tuple(t) for t in tri2})]
        m = dict(m)
        m["queries"] = [{"q": "chi", "beta": "2.5", "quads": allq, "triples": tri2, "tables": False}]
        scen.append((m, quads, tri, tri2))
    recs, crashed = pv.run_driver_resilient(exe, [s[0] for s in scen], timeout=3000)
    for (m, quads, tri, tri2) in scen:
        if m["id"] in crashed:
            c.violation("library crashed computing chi for %s" % m["id"], m, cls="chi:crash")
            continue
        r = [x for x in recs if x.get("id") == m["id"] and x.get("q") == "chi"]
        if not r or "chi" not in r[0]:
            c.violation("chi failed for %s: %s" % (m["id"], r), m, cls="chi:exception")
            continue
        val = {}
        for o in r[0]["chi"]:
            for t, v in zip(tri2, o["ondemand"]):
                val[(tuple(o["q"]), tuple(t))] = complex(float(v[0]), float(v[1]))
        for q in quads:
            for t in tri:
                n1, n2, n3 = t
                a = val[(tuple(q), (n1, n2, n3))]
                b = val[((q[1], q[0], q[2], q[3]), (n2, n1, n3))]
                d = val[((q[0], q[1], q[3], q[2]), (n1, n2, n1 + n2 - n3))]
                c.evaluations += 2
                tol = 1e-9 * (abs(a) + abs(b) + abs(d)) + 1e-12
                if abs(a) > 1e-9:
                    c.nontriv("sym:%s:%s" % (m["id"], q))
                if not (abs(a + b) <= tol):
                    c.violation("%s: chi_%s%s + chi_%s%s = %s (first exchange symmetry)" % (m["id"], q, t, [q[1], q[0], q[2], q[3]], [n2, n1, n3], a + b),
                                {"model": m, "quad": q, "triple": t}, cls="symmetry:12")
                if not (abs(a + d) <= tol):
                    c.violation("%s: chi_%s%s + chi_%s%s = %s (second exchange symmetry)" % (m["id"], q, t, [q[0], q[1], q[3], q[2]], [n1, n2, n1 + n2 - n3], a + d),
                                {"model": m, "quad": q, "triple": t}, cls="symmetry:34")
    c.rule = ("every transition of the bounded state graph of Container4.tla (2 modes, 5 index sets, depth 3) replayed; %d random histories on "
              "2-4 mode models validated by ContainerTrace; non-trivial = distinct evaluated (quadruple, history depth, outcome) classes" % nh)
    c.exhaustive = True
    c.trusted = ["TLC", "harness/pv_container.hpp projection (element identity by address, kept alive)", "TwoParticleGF constructed directly as the reference for container values"]
    c.assumptions = ["computeAll is exercised with clearTerms=false (the purge path is covered by C02)", "single rank"]
    c.finish()


def replay(path):
    obj = json.load(open(path))["replay"]
    sc = obj.get("scenario")
    if not sc:
        print(json.dumps(obj)[:2000])
        return 1
    sc = dict(sc)
    sc.pop("log", None)
    exe = pv.harness("plain", "pv_driver")
    recs, crashed = pv.run_driver_resilient(exe, [sc])
    for r in recs:
        print(json.dumps({k: r[k] for k in r if k not in ("em", "nt", "el")})[:300])
    if crashed:
        return 1
    v = pv.validate_trace("ContainerTrace", "ContainerTrace", [r for r in recs if r.get("e") in ("Begin", "Call", "End")], "C13/replay")
    print("accepted:", v.accepted)
    return 0 if v.accepted else 1
