"""C20 -- lattice input is validated and looked up faithfully.

Specification: spec/Lattice.tla (state machine of Lattice / Term::Presets / LatticePresets).
  (1) TLC checks the properties of the state machine on the bounded state graph
      (LatticeMC.cfg / LatticeEmit.cfg) and prints every explored transition;
  (2) every transition is replayed into the real library (harness kind "lattice") and the
      outcome and projected state are compared with the specification's prediction;
  (3) randomised long call histories are executed on the real library, recorded, and the recorded
      traces are validated against the specification by TLC (LatticeTrace.tla).
"""
import json, os, random, sys
import pv


def norm_sites(s):
    return s if isinstance(s, dict) and s else {}


def tkey(t):
    return json.dumps(t, sort_keys=True)


def same_state(exp, obs):
    """exp: TLC prediction, obs: harness record. Returns None if equal else a description."""
    if exp["res"] != obs.get("res"):
        return "result %s, specification says %s" % (obs.get("res"), exp["res"])
    for k in (0, 1):
        if norm_sites(exp["sites"][k]) != norm_sites(obs["sites"][k]):
            return "site map of lattice %d differs" % (k + 1)
        if sorted(tkey(t) for t in exp["terms"][k]) != sorted(tkey(t) for t in obs["terms"][k]):
            return "stored terms of lattice %d differ" % (k + 1)
    if sorted(exp["live"]) != sorted(obs["live"]):
        return "set of lattices differs"
    a = exp["act"][0]
    if exp["res"] == "ok":
        if a in ("GetSite", "GetMaxOrder") and list(exp["val"]) != list(obs["val"]):
            return "returned value %s, specification says %s" % (obs["val"], exp["val"])
        if a == "GetTerms" and sorted(tkey(t) for t in exp["val"]) != sorted(tkey(t) for t in obs["val"]):
            return "returned terms differ"
    return None


def act_class(act):
    a = act[0]
    if a in ("Preset", "Factory"):
        return "%s:%s" % (a, act[2][0])
    return a


def base_calls(base):
    return [["AddSite", 1, l, base[l]["orb"], base[l]["spin"]] for l in sorted(base)] if isinstance(base, dict) else []


# ---------------------------------------------------------------------------------------
def random_history(rng, n):
    labels = ["A", "B", "Z"]
    amps = [0, 4, -8, 8, 12, 2, -2]
    calls = []
    have2 = False

    def lab():
        return rng.choice(labels)

    def op():
        return [rng.randint(0, 1), lab(), rng.randint(0, 3), rng.randint(0, 3)]

    for _ in range(n):
        k = 2 if (have2 and rng.random() < 0.4) else 1
        r = rng.random()
        if r < 0.15 or len(calls) < 2:
            calls.append(["AddSite", k, rng.choice(labels[:2]) if rng.random() < 0.8 else "Z", rng.randint(1, 3), rng.randint(1, 3)])
        elif r < 0.30:
            nops = rng.choice([2, 2, 4, 6])
            ops = [op() for _ in range(nops)]
            if rng.random() < 0.6:   # bias towards small (often valid) indices
                for o in ops:
                    o[2] = rng.randint(0, 1); o[3] = rng.randint(0, 1); o[1] = rng.choice(labels[:2])
            calls.append(["AddTerm", k, {"ops": ops, "v": rng.choice(amps)}])
        elif r < 0.45:
            f = rng.choice(["NupNdown", "Spinflip", "PairHopping", "SplusSminus", "SminusSplus", "Level", "Hopping"])
            o1, o2, s1, s2 = [rng.randint(0, 2) for _ in range(4)]
            if f in ("NupNdown", "Hopping"):
                args = [f, lab(), lab(), o1, o2, s1, s2]
            elif f in ("Spinflip", "PairHopping"):
                args = [f, lab(), o1, o2, s1, s2]
            elif f in ("SplusSminus", "SminusSplus"):
                args = [f, lab(), lab(), o1]
            else:
                args = [f, lab(), o1, s1]
            calls.append(["Factory", k, args, rng.choice(amps)])
        elif r < 0.80:
            p = rng.choice(["addCoulombS", "addCoulombP", "addCoulombP3", "addLevel", "addMagnetization", "addSzSz", "addSS",
                            "addHopping8", "addHopping7", "addHopping6", "addHopping4"])
            ev = lambda: rng.choice([0, 4, -8, 8, 12])        # multiples of 4 keep /2 and /4 exact
            o1, o2, s1, s2 = [rng.randint(0, 2) for _ in range(4)]
            if p == "addCoulombS":
                args = [p, lab(), ev(), ev()]
            elif p == "addCoulombP":
                args = [p, lab(), ev(), ev(), ev(), ev()]
            elif p == "addCoulombP3":
                args = [p, lab(), ev(), ev(), ev()]
            elif p in ("addLevel", "addMagnetization"):
                args = [p, lab(), ev()]
            elif p in ("addSzSz", "addSS"):
                args = [p, lab(), lab(), ev()]
            elif p == "addHopping8":
                args = [p, lab(), lab(), ev(), o1, o2, s1, s2]
            elif p == "addHopping7":
                args = [p, lab(), lab(), ev(), o1, o2, s1]
            elif p == "addHopping6":
                args = [p, lab(), lab(), ev(), o1, o2]
            else:
                args = [p, lab(), lab(), ev()]
            calls.append(["Preset", k, args])
        elif r < 0.88:
            calls.append(["GetSite", k, lab()])
        elif r < 0.93:
            calls.append(["GetTerms", k, rng.choice([2, 4, 6])])
        elif r < 0.96:
            calls.append(["GetMaxOrder", k])
        elif not have2:
            calls.append(["Copy"])
            have2 = True
        else:
            calls.append(["GetSite", k, lab()])
    return calls


def explain_rejection(recs, matched):
    """recs: the trace lines; matched: number of lines accepted. Returns (execution id, first unexplained record)."""
    if matched >= len(recs):
        return None, None
    bad = recs[matched]
    return bad.get("id"), bad


def exec_of(recs, ident):
    return [r["act"] for r in recs if r.get("id") == ident and r.get("e") == "Call"]


def main():
    c = pv.Check("C20")
    thorough = c.tier == "thorough"
    rng = random.Random(c.seed)
    exe = pv.harness("plain", "pv_driver")

    # (1) model checking of the state machine + emission of every transition at depth 1 from every base lattice
    res = pv.run_tlc("LatticeMC", "LatticeEmit", workers=8, timeout=900)
    c.add_tlc(res, "Lattice emit")
    if res.violated:
        pv.log("INFRA: specification-level property %s violated in Lattice.tla" % res.violated)
        sys.exit(2)
    trans = res.pv
    if thorough:
        r2 = pv.run_tlc("LatticeMC", "LatticeMC", workers=16, timeout=1500, heap="8g")
        c.add_tlc(r2, "Lattice depth-2 model check")
        if r2.violated:
            pv.log("INFRA: specification-level property %s violated in Lattice.tla" % r2.violated)
            sys.exit(2)

    # (2) replay every transition
    scen = []
    for i, t in enumerate(trans):
        calls = base_calls(t["base"]) + [a for a in t["pre"]] + [t["act"]]
        scen.append({"kind": "lattice", "id": i, "calls": calls, "log": "last"})
    recs, crashed = pv.run_driver_resilient(exe, scen, timeout=1200, scen_timeout=60)
    byid = {r["id"]: r for r in recs if r.get("e") == "Call"}
    nbad = 0
    for i, t in enumerate(trans):
        c.evaluations += 1
        obs = byid.get(i)
        cls = act_class(t["act"])
        if obs is None:
            why = "no result (crash or hang of the library)"
        else:
            why = same_state(t, obs)
        if t["res"] == "reject" or t["act"][0].startswith("Get") or t["act"][0] == "Copy":
            c.nontriv(cls + ":" + t["res"])
        if why:
            nbad += 1
            c.violation("%s: %s" % (json.dumps(t["act"]), why),
                        {"kind": "lattice", "calls": scen[i]["calls"], "expect": t, "observed": obs}, cls=cls)
    c.traces += len(trans)
    c.sample({"calls": scen[len(scen) // 2]["calls"], "expect_res": trans[len(trans) // 2]["res"]})

    # (3) random histories, recorded and validated against the specification
    nh = 400 if not thorough else 4000
    hl = 25
    hs = [{"kind": "lattice", "id": "h%d" % i, "calls": random_history(rng, hl)} for i in range(nh)]
    recs, crashed = pv.run_driver_resilient(exe, hs, timeout=1200, scen_timeout=60)
    ended = {r["id"] for r in recs if r.get("e") == "End"}
    c.sample({"history": hs[0]["calls"][:8]})
    lines = [r for r in recs if r.get("e") in ("Begin", "Call", "End") and r.get("id") in ended]
    pos = 0
    guard = 0
    while pos < len(lines) and guard < 50:
        guard += 1
        v = pv.validate_trace("LatticeTrace", "LatticeTrace", lines[pos:], "C20/trace-%d" % guard, timeout=1200)
        if v.res.error:
            pv.tlc_or_die(v.res, "LatticeTrace")
        c.states += v.res.distinct
        c.transitions += v.res.generated
        if guard == 1:
            c.tlc_cmds.append(v.res.cmd)
        if v.accepted:
            break
        ident, bad = explain_rejection(lines[pos:], v.matched)
        acts = exec_of(lines, ident)
        upto = acts[:bad.get("step", len(acts))]
        c.violation("trace rejected at %s (execution %s step %s): observed res=%s" % (
            json.dumps(bad.get("act")), ident, bad.get("step"), bad.get("res")),
            {"kind": "lattice", "calls": upto, "observed": bad}, cls=act_class(bad["act"]) if bad.get("act") else "trace")
        # continue with the executions after the rejected one, so that the rest of the trace is checked too
        nxt = pos + v.matched
        while nxt < len(lines) and not (lines[nxt].get("e") == "Begin" and lines[nxt].get("id") != ident):
            nxt += 1
        pos = nxt
    c.traces += len(ended)
    for h in hs:
        if h["id"] not in ended:
            c.violation("library died during history %s" % h["id"], {"kind": "lattice", "calls": h["calls"]}, cls="crash")
    for r in recs:
        if r.get("e") == "Call":
            c.evaluations += 1
            if r["res"] == "reject":
                c.nontriv("h:" + act_class(r["act"]) + ":reject")
            else:
                c.nontriv("h:" + act_class(r["act"]) + ":ok")

    c.rule = ("transitions: every (base lattice, call) pair of the bounded state graph of Lattice.tla; histories: %d random "
              "call sequences of length %d; non-trivial = distinct (call kind, outcome) classes exercised, counted" % (nh, hl))
    c.exhaustive = True
    c.trusted = ["TLC", "harness/pv_lattice.hpp projection of site map and term storage", "tools/pv.py comparison"]
    c.assumptions = ["amplitudes are multiples of 1/4 so that preset divisions are exact", "labels from {A,B,Z}, orbitals/spins <= 3"]
    c.finish()


def replay(path):
    obj = json.load(open(path))["replay"]
    exe = pv.harness("plain", "pv_driver")
    recs, crashed = pv.run_driver_resilient(exe, [{"kind": "lattice", "id": "replay", "calls": obj["calls"]}])
    if crashed:
        print("library crashed:", crashed)
        return 1
    v = pv.validate_trace("LatticeTrace", "LatticeTrace", [r for r in recs if r.get("e") in ("Begin", "Call", "End")], "C20/replay")
    for r in recs:
        print(json.dumps(r)[:400])
    print("accepted by specification:", v.accepted, "matched", v.matched, "of", v.total)
    return 0 if v.accepted else 1
