------------------------------- MODULE WickGen -------------------------------
EXTENDS Wick, Json, IOUtils, TLC
Hs == ndJsonDeserialize(IOEnv.MODELS)          \* lines: [id, h (rows)]
VARIABLE k
Init == k \in 1..Len(Hs)
Next == UNCHANGED k
Spec == Init /\ [][Next]_k
H == Hs[k].h
Checks == Symmetric(H) /\ Exact(H) /\ Identity(H)
Emit == PrintT("@@PV " \o ToJson([id |-> Hs[k].id, n |-> Len(H), det |-> DetPoly(H),
           num |-> [i \in 1..Len(H) |-> [j \in 1..Len(H) |-> NumPoly(H, i, j)]]]))
=============================================================================
