----------------------------- MODULE WorkflowMC -----------------------------
(* Model checking of Workflow.tla and emission of EVERY transition together with a call sequence that reaches its
   pre-state (replayed against the library by tools/workflow.py). *)
EXTENDS Workflow, Json
CONSTANTS EmitTrans, EmitAt      \* EmitAt > 0: print the whole history when it reaches this length (simulation mode)
VARIABLES hist,
          regen       \* has prepareAll() replaced computed operators of the container? (the statuses alone do not tell:
                      \* the transitions out of such a state are explored separately, seeded change C10-c)
MCInit == Init /\ hist = <<>> /\ regen = [o \in Regressing |-> FALSE]
MCNext == /\ Next
          /\ hist' = Append(hist, <<last'.obj, last'.op>>)
          /\ regen' = [o \in Regressing |-> regen[o] \/ st'[o] < st[o]]
          /\ EmitTrans => PrintT("@@PV " \o ToJson([pre |-> hist, obj |-> last'.obj, op |-> last'.op, doc |-> Documented(st, last'.obj, last'.op)]))
          /\ (EmitAt > 0 /\ Len(hist') = EmitAt) => PrintT("@@PV " \o ToJson([hist |-> hist']))
mcvars == <<vars, hist, regen>>
MCSpec == MCInit /\ [][MCNext]_mcvars
View == <<st, regen>>
MonotoneA == [][\A o \in Objs \ Regressing : st'[o] >= st[o]]_mcvars
RegressA == [][\A o \in Regressing : st'[o] < st[o] => last'.obj = o /\ last'.op = "prepare"]_mcvars
OnlyOwnDataA == [][last'.changed \subseteq {last'.obj}]_mcvars
ComputedOnceA == [][\A o \in Objs \ Regressing : st[o] = Final[o] => o \notin last'.changed]_mcvars
GetIffFinishedA == [][last'.op = "get" => (last'.out = "ok" <=> st[last'.obj] = Final[last'.obj])]_mcvars
=============================================================================
