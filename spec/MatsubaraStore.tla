--------------------------- MODULE MatsubaraStore ---------------------------
(***************************************************************************)
(* MatsubaraContainer4 (include/pomerol/MatsubaraContainers.h): storage of *)
(* a function of three fermionic Matsubara numbers (n1,n2,n3) in a bosonic-*)
(* index-major layout with a per-slice fermionic offset, falling back to   *)
(* the source on a miss.                                                   *)
(* The source is modelled as the identity on triples: Source(t) = t, so    *)
(* "the storage is transparent" reads  Lookup(N, t) = t  for every t.      *)
(***************************************************************************)
EXTENDS Integers, Sequences, FiniteSets

Abs(x) == IF x < 0 THEN -x ELSE x

\* ---- design level: layout, transcribed from fill() and operator() -------
NSlices(N)     == IF N = 0 THEN 0 ELSE 4 * N - 1
Bos(N, bv)     == bv - 2 * N                               \* BosonicIndex of slice bv
SliceSize(N, bv) == 2 * N - Abs(Bos(N, bv) + 1)            \* FermionicMatrixSize
Offset(N, bv)  == (IF Bos(N, bv) < 0 THEN 0 ELSE Bos(N, bv) + 1) - N

\* the triple fill() evaluates the source at for slot (bv, nu, nup)
Filled(N, bv, nu, nup) ==
   LET n1 == nu + Offset(N, bv) IN << n1, Bos(N, bv) - n1, nup + Offset(N, bv) >>

SlotSet(N) == { s \in (0..(NSlices(N) - 1)) \X (0..(2 * N - 1)) \X (0..(2 * N - 1)) :
                 s[2] < SliceSize(N, s[1]) /\ s[3] < SliceSize(N, s[1]) }

\* the sequence of source calls made by fill(N), in the code's loop order
FillCalls(N) ==
   LET RECURSIVE Sl(_), Row(_, _), Col(_, _, _)
       Col(bv, nu, nup) == IF nup >= SliceSize(N, bv) THEN <<>>
                           ELSE <<Filled(N, bv, nu, nup)>> \o Col(bv, nu, nup + 1)
       Row(bv, nu) == IF nu >= SliceSize(N, bv) THEN <<>> ELSE Col(bv, nu, 0) \o Row(bv, nu + 1)
       Sl(bv) == IF bv >= NSlices(N) THEN <<>> ELSE Row(bv, 0) \o Sl(bv + 1)
   IN Sl(0)

\* slot addressed by operator()(n1,n2,n3); hit iff inside the slice
SliceOf(N, t)  == t[1] + t[2] + 2 * N
InRange(N, t)  == N > 0 /\ SliceOf(N, t) >= 0 /\ SliceOf(N, t) <= 2 * (2 * N - 1)
Nu(N, t)       == t[1] - Offset(N, SliceOf(N, t))
Nup(N, t)      == t[3] - Offset(N, SliceOf(N, t))
Hit(N, t)      == /\ InRange(N, t)
                  /\ Nu(N, t) >= 0 /\ Nu(N, t) < SliceSize(N, SliceOf(N, t))
                  /\ Nup(N, t) >= 0 /\ Nup(N, t) < SliceSize(N, SliceOf(N, t))

\* value returned by operator(): the stored value on a hit, the source on a miss
Lookup(N, t) == IF Hit(N, t) THEN Filled(N, SliceOf(N, t), Nu(N, t), Nup(N, t)) ELSE t

\* ---- definition level ------------------------------------------------------
Box(N) == LET B == 2 * N + 3 IN ((-B)..B) \X ((-B)..B) \X ((-B)..B)
Transparent(N) == \A t \in Box(N) : Lookup(N, t) = t
\* the precomputed window is exactly "all four frequencies in -N..N-1" (documents the layout)
InWindow(N, t) == LET n4 == t[1] + t[2] - t[3] IN
                    \A x \in {t[1], t[2], t[3], n4} : x >= -N /\ x <= N - 1
WindowExact(N) == \A t \in Box(N) : Hit(N, t) <=> InWindow(N, t)
\* every slot is filled exactly once, with the triple that addresses it
FillCoversSlots(N) == /\ Len(FillCalls(N)) = Cardinality(SlotSet(N))
                      /\ \A s \in SlotSet(N) : LET t == Filled(N, s[1], s[2], s[3]) IN
                            Hit(N, t) /\ <<SliceOf(N, t), Nu(N, t), Nup(N, t)>> = s
=============================================================================
