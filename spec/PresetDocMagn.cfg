SPECIFICATION Spec
INVARIANTS DocMatchesMagnetization
CHECK_DEADLOCK FALSE
