SPECIFICATION FairSpec
PROPERTIES Completes
CHECK_DEADLOCK FALSE
