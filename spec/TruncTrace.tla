----------------------------- MODULE TruncTrace -----------------------------
(* C19 conformance.  Event "Trunc": for one model, beta and eps:                                                       *)
(*    above[b]   -- whether the largest weight of block b (the library's own getWeight) exceeds eps                     *)
(*    retained[b]-- DensityMatrix::isRetained(b) after truncateBlocks(eps)                                              *)
(*    obs        -- per observable: the stripes (block tuples) it was assembled from before truncation (`full')        *)
(*                  and after (`cut')                                                                                   *)
(* The recorded flags and selections must be the design level of Truncation.tla: retained = above, cut = the stripes   *)
(* of full with at least one retained block.                                                                            *)
EXTENDS Truncation, Json, IOUtils, TLC
Tr == ndJsonDeserialize(IOEnv.TRACE)
VARIABLE l
IsEvent(e) == l <= Len(Tr) /\ Tr[l].e = e /\ l' = l + 1
SetOf(s) == {s[i] : i \in 1..Len(s)}
\* blocks are numbered from 0 in the log; stripes carry block numbers in their first `nb' positions
Blk(p, nb) == [k \in 1..nb |-> p[k] + 1]
TraceTrunc ==
  /\ IsEvent("Trunc")
  /\ LET e == Tr[l]
         ret == [b \in 1..Len(e.retained) |-> e.retained[b]] IN
       /\ e.retained = e.above
       /\ \A i \in 1..Len(e.obs) :
            LET o == e.obs[i]  full == SetOf(o.full)  cut == SetOf(o.cut) IN
              /\ cut \subseteq full
              /\ \A p \in full : (p \in cut) <=> (\E k \in 1..o.nb : ret[Blk(p, o.nb)[k]])
TraceInit == l = 1
TraceSpec == TraceInit /\ [][TraceTrunc]_l
TraceAccepted ==
  LET d == TLCGet("stats").diameter IN
  IF d - 1 = Len(Tr) THEN TRUE ELSE Print(<<"@@REJECT", d - 1, Len(Tr)>>, FALSE)
=============================================================================
