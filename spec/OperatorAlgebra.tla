--------------------------- MODULE OperatorAlgebra ---------------------------
(***************************************************************************)
(* Design level of Pomerol::Operator: normal ordering by bubble sort with  *)
(* sign flips, contractions and vanishing of repeated factors              *)
(* (Operator::normalize_and_insert), transcribed; and its definition       *)
(* level: the normal-ordered polynomial has the same Fock-space matrix as  *)
(* the product it came from (Fermion.tla), its monomials are normal        *)
(* ordered (creation operators first, indices strictly ascending within    *)
(* each kind).                                                             *)
(***************************************************************************)
EXTENDS Fermion

\* ordering of composite indices: (type, index) with creation < annihilation   (Operator::op_type {creation, annihilation})
Key(op) == <<IF op[1] = 1 THEN 0 ELSE 1, op[2]>>
Greater(a, b) == Key(a)[1] > Key(b)[1] \/ (Key(a)[1] = Key(b)[1] /\ Key(a)[2] > Key(b)[2])
Without(m, n) == SubSeq(m, 1, n - 1) \o SubSeq(m, n + 2, Len(m))        \* m without positions n, n+1
SwapAt(m, n) == [i \in 1..Len(m) |-> IF i = n THEN m[n + 1] ELSE IF i = n + 1 THEN m[n] ELSE m[i]]

\* returns the sequence of [m, coef] inserted into the target map (coefficients are integers here)
RECURSIVE NO(_, _), Pass(_, _, _, _)
Pass(m, coef, n, swapped) ==
  IF n >= Len(m) THEN [m |-> m, coef |-> coef, swapped |-> swapped, extra |-> <<>>, dead |-> FALSE]
  ELSE LET prev == m[n]  cur == m[n + 1] IN
       IF prev = cur THEN [m |-> m, coef |-> coef, swapped |-> swapped, extra |-> <<>>, dead |-> TRUE]   \* monomial is zero
       ELSE IF Greater(prev, cur)
            THEN LET ex == IF prev[2] = cur[2] THEN NO(Without(m, n), coef) ELSE <<>>       \* contraction c c^+ = 1 - c^+ c
                     r  == Pass(SwapAt(m, n), -coef, n + 1, TRUE) IN
                 [r EXCEPT !.extra = ex \o r.extra]
            ELSE Pass(m, coef, n + 1, swapped)
NO(m, coef) ==
  IF Len(m) < 2 THEN << [m |-> m, coef |-> coef] >>
  ELSE LET r == Pass(m, coef, 1, FALSE) IN
       IF r.dead THEN r.extra
       ELSE IF r.swapped THEN r.extra \o NO(r.m, r.coef)
       ELSE r.extra \o << [m |-> r.m, coef |-> r.coef] >>

AsPoly(ts) == [i \in 1..Len(ts) |-> PTerm(ts[i].m, ts[i].coef, 0)]
IsNormal(m) == \A i \in 1..(Len(m) - 1) : Greater(m[i + 1], m[i])          \* strictly ascending keys

\* definition level for one product
NormalOrderCorrect(m, M) ==
  LET ts == NO(m, 1) IN
    /\ PolyMat(AsPoly(ts), M) = MonoMat(m, M)
    /\ \A i \in 1..Len(ts) : IsNormal(ts[i].m)
=============================================================================
