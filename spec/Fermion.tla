------------------------------- MODULE Fermion -------------------------------
(***************************************************************************)
(* The fermionic algebra everything else stands on (definition level).     *)
(*  - Fock state = integer 0..2^M-1, bit i = occupation of mode i (the     *)
(*    convention of FockState(IndexSize, n));                               *)
(*  - an elementary operator is <<c, i>>, c = 1 creation / 0 annihilation, *)
(*    acting with the Jordan-Wigner sign (-1)^(occupied modes below i);     *)
(*  - a monomial is a sequence of elementary operators in ARBITRARY order; *)
(*    it means the composition of their actions (rightmost acts first);     *)
(*  - a polynomial is a sequence of terms [m, re, im]: Gaussian-integer     *)
(*    coefficients (over a denominator the caller keeps track of);          *)
(*  - the meaning of a polynomial is its matrix, kept sparse: a function    *)
(*    from pairs <<bra, ket>> to non-zero <<re, im>>.                        *)
(* No normal ordering exists at this level.                                 *)
(***************************************************************************)
EXTENDS Integers, Sequences, FiniteSets

RECURSIVE Pow2(_)
Pow2(n) == IF n = 0 THEN 1 ELSE 2 * Pow2(n - 1)
Bit(s, i) == (s \div Pow2(i)) % 2
RECURSIVE PopCount(_)
PopCount(s) == IF s = 0 THEN 0 ELSE (s % 2) + PopCount(s \div 2)
SignBelow(s, i) == IF PopCount(s % Pow2(i)) % 2 = 0 THEN 1 ELSE -1
States(M) == 0..(Pow2(M) - 1)

\* action of one elementary operator on a basis state: [s, sign] with sign = 0 meaning "annihilated"
ActOp(op, s) ==
  LET c == op[1]  i == op[2] IN
  IF (c = 1 /\ Bit(s, i) = 1) \/ (c = 0 /\ Bit(s, i) = 0) THEN [s |-> 0, sign |-> 0]
  ELSE [s |-> IF c = 1 THEN s + Pow2(i) ELSE s - Pow2(i), sign |-> SignBelow(s, i)]

\* action of a monomial (rightmost factor first)
RECURSIVE ActMono(_, _)
ActMono(m, s) ==
  IF m = <<>> THEN [s |-> s, sign |-> 1]
  ELSE LET r == ActMono(Tail(m), s) IN
       IF r.sign = 0 THEN r
       ELSE LET q == ActOp(Head(m), r.s) IN [s |-> q.s, sign |-> q.sign * r.sign]

\* the same action on Fock states with more modes than an integer holds: a state is the SET of its occupied modes
ActOpSet(op, occ) ==
  LET c == op[1]  i == op[2] IN
  IF (c = 1 /\ i \in occ) \/ (c = 0 /\ i \notin occ) THEN [occ |-> {}, sign |-> 0]
  ELSE [occ |-> IF c = 1 THEN occ \cup {i} ELSE occ \ {i},
        sign |-> IF Cardinality({k \in occ : k < i}) % 2 = 0 THEN 1 ELSE -1]
RECURSIVE ActMonoSet(_, _)
ActMonoSet(m, occ) ==
  IF m = <<>> THEN [occ |-> occ, sign |-> 1]
  ELSE LET r == ActMonoSet(Tail(m), occ) IN
       IF r.sign = 0 THEN r
       ELSE LET q == ActOpSet(Head(m), r.occ) IN [occ |-> q.occ, sign |-> q.sign * r.sign]
\* the two representations agree where both exist
OccOf(s, M) == {i \in 0..(M - 1) : Bit(s, i) = 1}
SetActionAgrees(M, monos) == \A m \in monos : \A s \in States(M) :
   LET a == ActMono(m, s)  b == ActMonoSet(m, OccOf(s, M)) IN
   a.sign = b.sign /\ (a.sign # 0 => OccOf(a.s, M) = b.occ)

\* ---- sparse matrices: function from a set of <<bra, ket>> to <<re, im>> (no zero entries) ------
Zero == [x \in {} |-> <<0, 0>>]
CAdd(a, b) == <<a[1] + b[1], a[2] + b[2]>>
CMul(a, b) == <<a[1] * b[1] - a[2] * b[2], a[1] * b[2] + a[2] * b[1]>>
CNeg(a) == <<-a[1], -a[2]>>
CConj(a) == <<a[1], -a[2]>>
Get(A, p) == IF p \in DOMAIN A THEN A[p] ELSE <<0, 0>>
Prune(A) == [p \in {q \in DOMAIN A : A[q] # <<0, 0>>} |-> A[p]]
MAdd(A, B) == Prune([p \in (DOMAIN A) \cup (DOMAIN B) |-> CAdd(Get(A, p), Get(B, p))])
MScale(z, A) == Prune([p \in DOMAIN A |-> CMul(z, A[p])])
MSub(A, B) == MAdd(A, MScale(<<-1, 0>>, B))
MAdj(A) == [p \in {<<q[2], q[1]>> : q \in DOMAIN A} |-> CConj(A[<<p[2], p[1]>>])]
\* (A B)[i,k] = sum_j A[i,j] B[j,k]
MMul(A, B) ==
  LET rows == {p[1] : p \in DOMAIN A}
      cols == {p[2] : p \in DOMAIN B}
      mids(i, k) == {p[2] : p \in {q \in DOMAIN A : q[1] = i}} \cap {p[1] : p \in {q \in DOMAIN B : q[2] = k}}
      ent(i, k) == LET RECURSIVE Sum(_)
                       Sum(JJ) == IF JJ = {} THEN <<0, 0>>
                                  ELSE LET j == CHOOSE y \in JJ : TRUE IN CAdd(CMul(A[<<i, j>>], B[<<j, k>>]), Sum(JJ \ {j}))
                   IN Sum(mids(i, k))
  IN Prune([p \in rows \X cols |-> ent(p[1], p[2])])
MComm(A, B) == MSub(MMul(A, B), MMul(B, A))
MAnti(A, B) == MAdd(MMul(A, B), MMul(B, A))
Identity(M) == [p \in {<<s, s>> : s \in States(M)} |-> <<1, 0>>]

\* matrix of a monomial / of a polynomial on M modes
MonoMat(m, M) ==
  LET img == [s \in States(M) |-> ActMono(m, s)]
      live == {s \in States(M) : img[s].sign # 0} IN
  [p \in {<<img[s].s, s>> : s \in live} |-> <<img[p[2]].sign, 0>>]
\* balanced recursion (depth log n): polynomials of the exact family have hundreds of terms
RECURSIVE PolyMatRange(_, _, _, _)
PolyMatRange(poly, M, lo, hi) ==
  IF lo > hi THEN Zero
  ELSE IF lo = hi THEN MScale(<<poly[lo].re, poly[lo].im>>, MonoMat(poly[lo].m, M))
  ELSE LET mid == (lo + hi) \div 2 IN MAdd(PolyMatRange(poly, M, lo, mid), PolyMatRange(poly, M, mid + 1, hi))
PolyMat(poly, M) == PolyMatRange(poly, M, 1, Len(poly))

PTerm(m, re, im) == [m |-> m, re |-> re, im |-> im]
Cr(i) == <<1, i>>
An(i) == <<0, i>>
Num(i) == <<Cr(i), An(i)>>

\* a matrix as a set of <<bra, ket, re, im>> (the form traces carry)
Entries(A) == {<<p[1], p[2], A[p][1], A[p][2]>> : p \in DOMAIN A}
Hermitian(A) == MAdj(A) = A

\* the canonical anticommutation relations of the Jordan-Wigner operators (checked by TLC, FermionMC)
CAR(M) == \A i, j \in 0..(M - 1) :
            /\ MAnti(MonoMat(<<An(i)>>, M), MonoMat(<<Cr(j)>>, M)) = (IF i = j THEN Identity(M) ELSE Zero)
            /\ MAnti(MonoMat(<<An(i)>>, M), MonoMat(<<An(j)>>, M)) = Zero
            /\ MAdj(MonoMat(<<An(i)>>, M)) = MonoMat(<<Cr(i)>>, M)
=============================================================================
