SPECIFICATION TraceSpec
CONSTANTS
  P <- PFromTrace
  JobIds <- JobIdsFromTrace
  R <- RFromTrace
  BossWorks <- BossFromTrace
INVARIANTS TypeOK ExactlyOnce AtMostOnce MapTruthful MapComplete RealJobs Drained StackSound FinishSafe NotAccepted
CHECK_DEADLOCK FALSE
