SPECIFICATION TraceSpec
CONSTANTS
  P <- PFromTrace
  J <- JFromTrace
  R <- RFromTrace
INVARIANTS TypeOK ExactlyOnce AtMostOnce MapTruthful MapComplete RealJobs Drained StackSound FinishSafe NotAccepted
CHECK_DEADLOCK FALSE
