SPECIFICATION MCSpec
CONSTANTS
  Labels = {"A", "B"}
  MaxOrb = 2
  MaxSpin = 2
  Amps <- AmpsDef
  MaxCalls = 1
  EmitTrans = TRUE
VIEW View
CONSTRAINT Bounded
INVARIANTS TypeOK RetrievableByOrder
PROPERTIES LookupFaithfulA CopySameA RejectLeavesUnchangedA OtherUnchangedA AddTermSoundA AddTermCompleteA PresetSoundA
CHECK_DEADLOCK FALSE
