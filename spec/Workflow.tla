------------------------------ MODULE Workflow ------------------------------
(***************************************************************************)
(* Life-cycle of the computable objects of ONE model (ComputableObject:    *)
(* Constructed -> Prepared -> Computed): which public calls of the          *)
(* documented workflow change which object's status and data, which are    *)
(* no-ops (repeated prepare / compute), which are rejected by a status      *)
(* guard, and what a getter may be asked when.                              *)
(*                                                                         *)
(* Objects (one instance each, ALL constructed up front, before anything   *)
(* is prepared -- constructors only store references):                      *)
(*   IC  IndexClassification         compute (= prepare()), get             *)
(*   HS  IndexHamiltonian            compute (= prepare()), get             *)
(*   SYM Symmetrizer                 compute (default analysis), get        *)
(*   S   StatesClassification        compute, get (getBlockNumber)          *)
(*   H   Hamiltonian                 prepare, compute, get (getEigenValue)  *)
(*   HP  HamiltonianPart (block 0)   prepare, compute, get -- a part used   *)
(*                                   on its own; prepare() refills it       *)
(*   DM  DensityMatrix               prepare, compute, get (getWeight)      *)
(*   CX  CreationOperator            prepare, compute, get (block map+parts)*)
(*   C   AnnihilationOperator        idem                                   *)
(*   QA  QuadraticOperator           idem                                   *)
(*   OPS FieldOperatorContainer      prepareAll, computeAll, get            *)
(*   GF  GreensFunction(C, CX)       prepare, compute (auto-prepares), get  *)
(*   X   TwoParticleGF(C,C,CX,CX)    prepare, compute (returns the table),  *)
(*                                   get (operator())                      *)
(*   SU  Susceptibility(QA, QA)      prepare, compute (auto-prepares), get  *)
(*   EA  EnsembleAverage(QA)         prepare (computes the result), get     *)
(*   GF, SU, EA additionally: copy (copy constructor, compared, destroyed)  *)
(*   V   Vertex4(X, GF x 4)          compute, get                           *)
(*                                                                         *)
(* Definition level: Deps -- the documented order (README, tutorial,        *)
(* prog/): an object is prepared after everything it refers to has been     *)
(* computed.  Design level: Eff -- what the code does for a call, read off  *)
(* the status tests at the head of every prepare()/compute()/getter.        *)
(* Calls outside the documented order that the code does NOT guard (they    *)
(* read empty part vectors or uninitialised energies) are not behaviours    *)
(* of this specification: Documented/Guarded below delimit what is.         *)
(***************************************************************************)
EXTENDS Naturals, Sequences, FiniteSets, TLC
\* The lattice itself is a value and not an object of this state machine: copy-constructing it and destroying the copy (at any point of a
\* history) is a stuttering step -- no status and no data of any object may change, and the original stays usable.  The replay harness
\* makes such scratch copies while the lattice of the objects under test is being built and once it is complete (C17: no double free, no
\* use of storage freed by the copy's destructor).

Objs == {"IC", "HS", "SYM", "S", "H", "HP", "DM", "CX", "C", "QA", "OPS", "GF", "X", "SU", "EA", "V"}
OpNames == {"prepare", "compute", "get", "copy"}
Copyable == {"GF", "SU", "EA"}                 \* classes with a user-visible copy constructor (deep copy of the parts)
Con == 0
Pre == 1
Com == 2

FieldOps == {"CX", "C", "QA", "OPS"}
\* What a call needs of the OTHER objects, read off what the code touches (definition level).  A map dep -> least status.
\*  prepare() of an operator only takes references to the parts of H, so H need only be Prepared; compute() rotates with the
\*  eigenvectors, so H must be Computed; G / chi / susceptibility select their parts from the block maps of prepared operators
\*  and the retain flags of a prepared density matrix and compute from finished ones.
Needs(dom, f) == [d \in dom |-> f[d]]
PrepNeeds == [o \in Objs |->
   CASE o = "IC" -> <<>>
     [] o = "HS" -> [IC |-> Com]
     [] o = "SYM" -> [IC |-> Com, HS |-> Com]
     [] o = "S" -> [IC |-> Com, SYM |-> Com]
     [] o \in {"H", "HP"} -> [IC |-> Com, HS |-> Com, S |-> Com]
     [] o = "DM" -> [S |-> Com, H |-> Com]
     [] o \in FieldOps -> [IC |-> Com, S |-> Com, H |-> Pre]
     [] o \in {"GF", "X"} -> [S |-> Com, H |-> Pre, DM |-> Pre, CX |-> Pre, C |-> Pre]
     [] o = "SU" -> [S |-> Com, H |-> Pre, DM |-> Pre, QA |-> Pre]
     [] o = "EA" -> [S |-> Com, H |-> Com, DM |-> Com, QA |-> Com]
     [] o = "V" -> [GF |-> Com, X |-> Com]]
CompNeeds == [o \in Objs |->
   CASE o \in FieldOps -> [H |-> Com]
     [] o \in {"GF", "X"} -> [H |-> Com, DM |-> Com, CX |-> Com, C |-> Com]
     [] o = "SU" -> [H |-> Com, DM |-> Com, QA |-> Com]
     [] OTHER -> <<>>]
Sat(s, need) == \A d \in DOMAIN need : s[d] >= need[d]
PrepOK(s, o) == Sat(s, PrepNeeds[o])
CompOK(s, o) == Sat(s, PrepNeeds[o]) /\ Sat(s, CompNeeds[o])

OneStep == {"IC", "HS", "SYM", "S", "V"}        \* a single call finishes the object (for IC and HS that call is named prepare() in the code)
OnceOnly == {"IC", "HS"}                        \* no status guard: a second call appends everything again -- not a documented call
HasPrepare == Objs \ OneStep
HasCompute == Objs \ {"EA"}                      \* EnsembleAverage::prepare computes the result
Final == [o \in Objs |-> IF o = "EA" THEN Pre ELSE Com]
AutoPrepare == {"GF", "SU"}                      \* compute() calls prepare() itself
ThrowingCompute == {"CX", "C", "QA", "X"}       \* compute() at Constructed throws exStatusMismatch
ThrowingGet == {"S", "DM", "CX", "C", "QA"}      \* getter at Constructed throws exStatusMismatch
\* OPS has no status of its own: Constructed = no operators yet, otherwise the least status of its operators.
\* prepareAll() ALWAYS builds fresh operators: called again after computeAll() it replaces the computed
\* operators by prepared ones (the old ones stay alive for whoever holds a reference) -- the one place
\* where a status goes backwards; modelled as the code behaves (Regress below) and excluded from Monotone.
\* The same holds for a HamiltonianPart used on its own: prepare() has no guard, it refills the block matrix and
\* sets the status back to Prepared.
Regressing == {"OPS", "HP"}

VARIABLES st,          \* status of every object
          last         \* the last call and what it did: [obj, op, out, ret, changed]; observation only
vars == <<st, last>>


\* ---- design level: effect of one call in status map s ------------------------------------------------
\* out: "ok" / "throw";  ret: what the call hands back ("none", "value", "table", "empty");  changed: objects whose data change
NoOp(s, r) == [st |-> s, out |-> "ok", ret |-> r, changed |-> {}]
Throw(s) == [st |-> s, out |-> "throw", ret |-> "none", changed |-> {}]
Adv(s, o, to, r) == [st |-> [s EXCEPT ![o] = to], out |-> "ok", ret |-> r, changed |-> {o}]

Eff(s, o, op) ==
  CASE op = "prepare" ->
         (IF o \in Regressing /\ s[o] = Com THEN Adv(s, o, Pre, "none")       \* Regress: fresh, uncomputed data
          ELSE IF s[o] >= Pre THEN NoOp(s, "none")                          \* if (Status >= Prepared) return;  (OPS, HP: same data again)
          ELSE IF PrepOK(s, o) THEN Adv(s, o, Pre, "none")
          ELSE Throw(s))                                                     \* only reached through Guarded
    [] op = "compute" ->
         (IF s[o] = Com THEN NoOp(s, IF o = "X" THEN "empty" ELSE "none")   \* X: a second compute() returns an EMPTY table
          ELSE IF s[o] = Pre /\ CompOK(s, o) THEN Adv(s, o, Com, IF o = "X" THEN "table" ELSE "none")
          ELSE IF s[o] = Con /\ o \in (AutoPrepare \cup OneStep) /\ CompOK(s, o) THEN Adv(s, o, Com, "none")
          ELSE Throw(s))
    [] op = "get" ->
         (IF s[o] = Final[o] THEN NoOp(s, "value") ELSE Throw(s))
    [] op = "copy" -> NoOp(s, "value")          \* the copy equals the original at any status; destroying it leaves the original intact

\* ---- which calls are behaviours ------------------------------------------------------------------
\* the documented workflow: dependencies are finished, own predecessor step done (or done implicitly)
Documented(s, o, op) ==
  CASE op = "prepare" -> o \in HasPrepare /\ (s[o] >= Pre \/ PrepOK(s, o))
    [] op = "compute" -> /\ o \in HasCompute
                         /\ \/ s[o] = Com /\ o \notin OnceOnly
                            \/ s[o] = Pre /\ CompOK(s, o)
                            \/ s[o] = Con /\ o \in (AutoPrepare \cup OneStep) /\ CompOK(s, o)
    [] op = "get" -> s[o] = Final[o]
    [] op = "copy" -> o \in Copyable
\* calls out of order that the code rejects with exStatusMismatch and that leave everything as it was
Guarded(s, o, op) ==
  CASE op = "prepare" -> /\ s[o] = Con
                         /\ \/ o \in {"GF", "X"} /\ s["CX"] = Con          \* getBlockMapping() of an unprepared operator
                            \/ o \in {"SU", "EA"} /\ s["QA"] = Con
    [] op = "compute" -> o \in ThrowingCompute /\ s[o] = Con
    [] op = "get" -> \/ o \in ThrowingGet /\ s[o] = Con
                     \/ o = "DM" /\ s[o] = Pre
                     \/ o = "H" /\ s[o] = Pre                               \* HamiltonianPart guard; at Constructed there are no parts
    [] op = "copy" -> FALSE

Init == /\ st = [o \in Objs |-> Con]
        /\ last = [obj |-> "", op |-> "", out |-> "", ret |-> "", changed |-> {}]

Call(o, op) ==
  /\ Documented(st, o, op) \/ Guarded(st, o, op)
  /\ LET e == Eff(st, o, op) IN
       /\ st' = e.st
       /\ last' = [obj |-> o, op |-> op, out |-> e.out, ret |-> e.ret, changed |-> e.changed]

Next == \E o \in Objs, op \in OpNames : Call(o, op)
Spec == Init /\ [][Next]_vars
\* fairness per call: a call that would make progress and stays possible is eventually made
Productive(o, op) == Documented(st, o, op) /\ Eff(st, o, op).st # st /\ Eff(st, o, op).st[o] > st[o] /\ Call(o, op)
FairSpec == Spec /\ \A o \in Objs, op \in {"prepare", "compute"} : WF_vars(Productive(o, op))

\* ---- properties ------------------------------------------------------------------------------------
TypeOK == st \in [Objs -> {Con, Pre, Com}] /\ (\A o \in OneStep : st[o] # Pre) /\ st["EA"] # Com
\* definition level: no object holds data derived from inputs that were not there yet
\* (an operator container or a part that was re-prepared does not invalidate what was built from the old data: excluded on the right)
DepsFinished == \A o \in Objs : /\ st[o] >= Pre => PrepOK(st, o)
                                /\ st[o] = Com => CompOK(st, o)
\* a documented call never throws; a guarded call always throws and changes nothing
DocumentedSucceeds == \A o \in Objs, op \in OpNames : Documented(st, o, op) => Eff(st, o, op).out = "ok"
GuardedRejects == \A o \in Objs, op \in OpNames :
                     Guarded(st, o, op) => ~Documented(st, o, op) /\ Eff(st, o, op).out = "throw" /\ Eff(st, o, op).st = st
\* statuses only grow, a call touches the data of its own object only, and a finished object is never recomputed
Monotone == [][\A o \in Objs \ Regressing : st'[o] >= st[o]]_vars
Regress == [][\A o \in Regressing : st'[o] < st[o] => last'.obj = o /\ last'.op = "prepare"]_vars
OnlyOwnData == [][last'.changed \subseteq {last'.obj}]_vars
ComputedOnce == [][\A o \in Objs \ Regressing : st[o] = Final[o] => o \notin last'.changed]_vars
\* a getter is served exactly when the object is finished
GetIffFinished == [][last'.op = "get" => (last'.out = "ok" <=> st[last'.obj] = Final[last'.obj])]_vars
\* the workflow can always be completed: every object is eventually finished (with two objects that can be re-prepared
\* an adversary can keep one of them unfinished at any given moment, so "all finished at once" is not the statement)
AllDone == \A o \in Objs : st[o] = Final[o]
Completes == /\ <>(\A o \in Objs \ Regressing : st[o] = Final[o])
             /\ \A o \in Regressing : <>(st[o] = Final[o])
=============================================================================
