------------------------------ MODULE TermList ------------------------------
(***************************************************************************)
(* TermList<TermType>::add_term -- the container in which every part of    *)
(* G, chi and the susceptibility accumulates its Lehmann terms: like terms  *)
(* (equal poles within a tolerance) are merged, merged terms that have      *)
(* become negligible are dropped.                                           *)
(*                                                                         *)
(* A term is [ps, w, f, c]:                                                 *)
(*   ps  tuple of NP integers: SUM of the poles of the terms merged into    *)
(*       it (pole k = ps[k] / w; the code keeps the weighted mean for the   *)
(*       three-pole kinds and the pole of the FIRST term for the one-pole   *)
(*       kind, see Merge)                                                   *)
(*   w   Weight (number of merged terms), f the flag (isz4 / isz1z2),       *)
(*   c   tuple of NC integer coefficients (GF, NR: one; R: <<Res, NonRes>>) *)
(* Tolerances are rationals TolN/TolD (poles) and CTolN/CTolD               *)
(* (coefficients), chosen in the configurations so that no comparison ever  *)
(* lands exactly on a threshold (floating-point rounding cannot matter).    *)
(*                                                                         *)
(* Design level: AddTerm transcribes add_term with std::set semantics under *)
(* the tolerance comparator, which is NOT a strict weak order (equivalence  *)
(* is not transitive).  A tree search for x can end at any stored element   *)
(* equivalent to x, or miss all of them when some other stored element      *)
(* orders x and the equivalent one inconsistently (Separated); the tree     *)
(* itself is not modelled, every outcome a tree could produce is allowed.   *)
(*  Pinned = FALSE: the repaired code -- insert() decides; a refused term   *)
(*     is merged with the element that refused it and the merged term is    *)
(*     added again; a missed equivalent only means two like terms are       *)
(*     stored side by side (harmless for every sum).                        *)
(*  Pinned = TRUE: the code as pinned -- find() then insert(): a term that  *)
(*     find() misses, and a merged term whose averaged poles drifted onto a *)
(*     neighbour, are refused by insert() and silently lost (finding F18).  *)
(* Definition level: nothing is lost except what was declared negligible    *)
(* (Conservation, Accounted), weights and pole sums are those of the merged *)
(* terms, and only like terms are merged (PolesClose).                      *)
(***************************************************************************)
EXTENDS Integers, Sequences, FiniteSets, TLC

CONSTANTS Kind,            \* "GF" (one pole, also the susceptibility), "NR" (NonResonantTerm), "R" (ResonantTerm)
          TolN, TolD,      \* pole tolerance TolN/TolD
          CTolN, CTolD,    \* coefficient tolerance
          Cands,           \* set of terms that may be added (each with w = 1)
          MaxAdds,
          Pinned           \* FALSE: the repaired add_term; TRUE: the pinned one (see above)

VARIABLES terms,           \* the std::set, as a set of term records
          lost,            \* ghost: sum of the coefficient tuples that disappeared (negligible drop or refused insert)
          lostHow,         \* ghost: set of reasons seen so far ("negligible", "refused")
          added,           \* ghost: sequence of the terms added so far
          members,         \* ghost: stored term -> set of indices into `added` merged into it
          lastAct
vars == <<terms, lost, lostHow, added, members, lastAct>>

NP == IF Kind = "GF" THEN 1 ELSE 3
NC == IF Kind = "R" THEN 2 ELSE 1
Abs(x) == IF x < 0 THEN -x ELSE x
ZeroC == [k \in 1..NC |-> 0]
AddC(a, b) == [k \in 1..NC |-> a[k] + b[k]]

\* |pole_k(t1) - pole_k(t2)| < Tol        (real_eq)
RealEq(t1, t2, k) == Abs(t1.ps[k] * t2.w - t2.ps[k] * t1.w) * TolD < TolN * t1.w * t2.w
PoleLt(t1, t2, k) == t1.ps[k] * t2.w < t2.ps[k] * t1.w
\* pole_k(t2) - pole_k(t1) >= Tol
GeTol(t1, t2, k) == (t2.ps[k] * t1.w - t1.ps[k] * t2.w) * TolD >= TolN * t1.w * t2.w
\* TermType::Compare
Less(t1, t2) ==
  IF Kind = "GF" THEN GeTol(t1, t2, 1)
  ELSE IF t1.f = t2.f
       THEN (IF ~RealEq(t1, t2, 1) THEN PoleLt(t1, t2, 1)
             ELSE IF ~RealEq(t1, t2, 2) THEN PoleLt(t1, t2, 2)
             ELSE GeTol(t1, t2, 3))
       ELSE (t1.f = FALSE /\ t2.f = TRUE)
Equiv(t1, t2) == ~Less(t1, t2) /\ ~Less(t2, t1)
\* TermType::IsNegligible(t, divisor):  |c| < CTol / divisor  (R: both coefficients)
Negligible(t, div) == \A k \in 1..NC : Abs(t.c[k]) * div * CTolD < CTolN
\* TermType::operator+= : coefficients add; three-pole kinds keep the weighted mean of the poles, the one-pole kind keeps the pole of the stored term
Merge(e, t) == IF Kind = "GF" THEN [e EXCEPT !.c = AddC(e.c, t.c)]
               ELSE [ps |-> [k \in 1..NP |-> e.ps[k] + t.ps[k]], w |-> e.w + t.w, f |-> e.f, c |-> AddC(e.c, t.c)]

Init == /\ terms = {} /\ lost = ZeroC /\ lostHow = {} /\ added = <<>> /\ members = [x \in {} |-> {}]
        /\ lastAct = <<"Init">>

\* std::set::insert(x): refused when an equivalent element is present
CanInsert(S, x) == \A y \in S : ~Equiv(y, x)
Restrict(m, S) == [x \in S |-> m[x]]
With(m, x, v) == [y \in (DOMAIN m) \cup {x} |-> IF y = x THEN v ELSE m[y]]

\* some stored y orders x and its equivalent e inconsistently, so that a tree search for x can pass e by
Separated(S, x, e) == \E y \in S \ {e} : (Less(x, y) /\ Less(y, e)) \/ (Less(e, y) /\ Less(y, x))
\* the equivalent elements a search for x can end at / whether it can miss them all
CanMissAll(S, x) == \A e \in {e \in S : Equiv(e, x)} : Separated(S, x, e)

\* one round of add_term for term x (a fresh term, or a merged term that is being added again);
\* returns the set of possible outcomes [terms, members, lostc, how]
RECURSIVE Rounds(_, _, _, _, _)
Rounds(S, mem, x, xm, depth) ==
  LET eq == {e \in S : Equiv(e, x)}
      stored == [terms |-> S \cup {x}, members |-> With(mem, x, xm), lostc |-> ZeroC, how |-> IF depth = 0 THEN "new" ELSE "merged"]
      MergedWith(e) ==
        LET sum == Merge(e, x)
            rest == S \ {e}
            rmem == Restrict(mem, rest)
            summ == mem[e] \cup xm IN
        IF Negligible(sum, Cardinality(rest) + 1)
        THEN {[terms |-> rest, members |-> rmem, lostc |-> sum.c, how |-> "dropped"]}
        ELSE IF ~Pinned THEN Rounds(rest, rmem, sum, summ, depth + 1)
        ELSE IF CanInsert(rest, sum)
        THEN {[terms |-> rest \cup {sum}, members |-> With(rmem, sum, summ), lostc |-> ZeroC, how |-> "merged"]}
        ELSE {[terms |-> rest, members |-> rmem, lostc |-> sum.c, how |-> "refused"]}      \* insert() refuses the drifted term
  IN
  IF eq = {} THEN {stored}
  ELSE (UNION {MergedWith(e) : e \in eq})
       \cup (IF CanMissAll(S, x)
            THEN (IF Pinned THEN {[terms |-> S, members |-> mem, lostc |-> x.c, how |-> "refused"]}    \* find() missed, insert() refused
                  ELSE {[stored EXCEPT !.how = "beside"]})                                              \* stored beside its like term
            ELSE {})

AddTerm(t) ==
  LET n == Len(added) + 1 IN
  /\ Len(added) < MaxAdds
  /\ added' = Append(added, t)
  /\ \E r \in Rounds(terms, members, t, {n}, 0) :
       /\ terms' = r.terms /\ members' = r.members
       /\ lost' = AddC(lost, r.lostc)
       /\ lostHow' = lostHow \cup (CASE r.how = "dropped" -> {"negligible"} [] r.how = "refused" -> {"refused"} [] r.how = "beside" -> {"beside"} [] OTHER -> {})
       /\ lastAct' = <<"Add", t, r.how>>

Next == \E t \in Cands : AddTerm(t)
Spec == Init /\ [][Next]_vars

\* ---- definition level -------------------------------------------------------------------------
RECURSIVE SumSeq(_)
SumSeq(s) == IF s = <<>> THEN ZeroC ELSE AddC(Head(s).c, SumSeq(Tail(s)))
RECURSIVE SumSet(_)
SumSet(S) == IF S = {} THEN ZeroC ELSE LET x == CHOOSE y \in S : TRUE IN AddC(x.c, SumSet(S \ {x}))
\* the coefficients of everything added are stored or accounted for as lost
Accounted == AddC(SumSet(terms), lost) = SumSeq(added)
\* nothing is lost other than by the negligibility rule  (the property the Lehmann sums rely on)
Conservation == "refused" \notin lostHow
\* two like terms are stored side by side only after a search missed (never under a consistent ordering)
NoEquivalentPair == (\A x, y \in terms : x # y => ~Equiv(x, y)) \/ "beside" \in lostHow
\* bookkeeping of the three-pole kinds: Weight = number of merged terms, ps = sum of their poles
WeightsRight == Kind # "GF" => \A x \in terms : x.w = Cardinality(members[x]) /\
                   \A k \in 1..NP : x.ps[k] * 1 = LET RECURSIVE S(_)
                                                       S(I) == IF I = {} THEN 0 ELSE LET i == CHOOSE j \in I : TRUE IN added[i].ps[k] + S(I \ {i})
                                                   IN S(members[x])
\* every term merged into a stored one lies within 2 Tol of it in every pole (a like term, not a distant one)
PolesClose == \A x \in terms : \A i \in members[x] : \A k \in 1..NP :
                 Abs(added[i].ps[k] * x.w - x.ps[k]) * TolD < 2 * TolN * x.w
TypeOK == /\ \A x \in terms : x.w >= 1 /\ DOMAIN x.ps = 1..NP /\ DOMAIN x.c = 1..NC
          /\ DOMAIN members = terms
=============================================================================
