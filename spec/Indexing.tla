------------------------------ MODULE Indexing ------------------------------
(***************************************************************************)
(* Index bookkeeping of pomerol (IndexClassification).                     *)
(* A lattice is a sequence of sites in the iteration order of the site map *)
(* (lexicographic order of the labels); a site is [orb, spin].  A          *)
(* single-particle state is a triple <<site, orbital, spin>> with          *)
(* orbital \in 0..orb-1, spin \in 0..spin-1.                               *)
(* Design level: the two enumeration orders of prepare().                  *)
(* Definition level: the table is a bijection onto 0..N-1 and the forward  *)
(* and inverse lookups are mutual inverses.                                *)
(***************************************************************************)
EXTENDS Naturals, Sequences, FiniteSets

RECURSIVE Flat(_)
Flat(ss) == IF ss = <<>> THEN <<>> ELSE Head(ss) \o Flat(Tail(ss))
For(n, F(_)) == [i \in 1..n |-> F(i - 1)]            \* <<F(0), ..., F(n-1)>>
RangeOf(s) == {s[i] : i \in 1..Len(s)}

Triples(L) == {<<s, o, z>> : s \in 1..Len(L), o \in 0..2, z \in 0..2} \cap
              {t \in (1..Len(L)) \X (0..8) \X (0..8) : t[2] < L[t[1]].orb /\ t[3] < L[t[1]].spin}
NModes(L) == Cardinality(Triples(L))

MaxSpinOf(L) == CHOOSE m \in {L[i].spin : i \in 1..Len(L)} : \A i \in 1..Len(L) : L[i].spin <= m

\* order_spins = false : site, then orbital, then spin
SiteMajor(L) ==
  Flat([s \in 1..Len(L) |->
     Flat(For(L[s].orb, LAMBDA o : For(L[s].spin, LAMBDA z : <<s, o, z>>)))])

\* order_spins = true : spin, then site (sites that do not have this spin component are skipped), then orbital
SpinMajor(L) ==
  Flat(For(MaxSpinOf(L), LAMBDA z :
     Flat([s \in 1..Len(L) |->
        IF z >= L[s].spin THEN <<>> ELSE For(L[s].orb, LAMBDA o : <<s, o, z>>)])))

Enumerate(L, spinMajor) == IF spinMajor THEN SpinMajor(L) ELSE SiteMajor(L)

\* forward lookup getIndex: position - 1 of the triple, N for unknown triples
GetIndex(tab, t) == IF \E i \in 1..Len(tab) : tab[i] = t
                    THEN (CHOOSE i \in 1..Len(tab) : tab[i] = t) - 1
                    ELSE Len(tab)

----------------------------------------------------------------------------
(* Definition level, stated on ANY table (the specification's or a recorded one) *)
IsBijection(tab, L) == /\ Len(tab) = NModes(L)
                       /\ RangeOf(tab) = Triples(L)          \* onto; with equal cardinality: one-to-one
MutualInverse(tab, L) == /\ \A t \in Triples(L) : tab[GetIndex(tab, t) + 1] = t
                         /\ \A i \in 1..Len(tab) : GetIndex(tab, tab[i]) = i - 1
=============================================================================
