----------------------------- MODULE TermListMC -----------------------------
(* Model checking of TermList.tla per term kind, and emission of every transition (history + outcome) for the replay. *)
EXTENDS TermList, Json
CONSTANT EmitTrans
T1(p, c) == [ps |-> <<p>>, w |-> 1, f |-> FALSE, c |-> <<c>>]
T3(p, f, c) == [ps |-> p, w |-> 1, f |-> f, c |-> c]
CandsGF == {T1(p, c) : p \in {0, 3, 4, 5, 100}, c \in {1, -1, 3}}
Poles3 == {<<0, 0, 0>>, <<3, 0, 0>>, <<4, 0, 0>>, <<5, 0, 0>>, <<0, 0, 3>>, <<0, 3, 3>>, <<0, 0, 4>>, <<0, 0, 5>>, <<100, 0, 0>>}
CandsNR == {T3(p, f, <<c>>) : p \in Poles3, f \in {FALSE}, c \in {1, -1, 3}} \cup {T3(<<0, 0, 0>>, TRUE, <<3>>), T3(<<3, 0, 0>>, TRUE, <<1>>)}
CandsR == {T3(p, f, c) : p \in Poles3, f \in {TRUE}, c \in {<<1, 0>>, <<0, -1>>, <<3, 1>>}} \cup {T3(<<0, 0, 0>>, FALSE, <<3, 0>>), T3(<<3, 0, 0>>, FALSE, <<0, 1>>)}
MCNext == /\ Next
          /\ (EmitTrans /\ Len(added') = MaxAdds) => PrintT("@@PV " \o ToJson([hist |-> added']))      \* complete histories; every transition is a step of one
MCSpec == Init /\ [][MCNext]_vars
=============================================================================
