----------------------------- MODULE IndexingMC -----------------------------
(* All lattices with <= MaxSites sites x 1..MaxOrb orbitals x 1..MaxSpin spins, both ordering modes: *)
(* the design level (Enumerate) satisfies the definition level; every table is printed for replay.   *)
EXTENDS Indexing, TLC, Json
CONSTANTS MaxSites, MaxOrb, MaxSpin
VARIABLES lat, mode
SiteRec == [orb : 1..MaxOrb, spin : 1..MaxSpin]
Lattices == UNION {[1..n -> SiteRec] : n \in 1..MaxSites}
Init == lat \in Lattices /\ mode \in BOOLEAN
Next == UNCHANGED <<lat, mode>>
Spec == Init /\ [][Next]_<<lat, mode>>
Tab == Enumerate(lat, mode)
Bijective == IsBijection(Tab, lat)
Inverse   == MutualInverse(Tab, lat)
\* the two modes agree as sets and coincide when no site has more than one spin
ModesAgree == RangeOf(SiteMajor(lat)) = RangeOf(SpinMajor(lat))
Emit == PrintT("@@PV " \o ToJson([lat |-> lat, mode |-> mode, tab |-> Tab]))
=============================================================================
