SPECIFICATION TraceSpec
POSTCONDITION TraceAccepted
INVARIANTS DepsFinished
CHECK_DEADLOCK FALSE
