------------------------------ MODULE StoreApa ------------------------------
(* Unbounded check of the storage layout with Apalache: for EVERY window size N >= 0 and EVERY triple of integers, *)
(* the lookup is transparent, and the hit region is exactly "all four frequencies in -N..N-1".                      *)
EXTENDS Integers
VARIABLES
  \* @type: Int;
  N,
  \* @type: Int;
  n1,
  \* @type: Int;
  n2,
  \* @type: Int;
  n3
Abs(x) == IF x < 0 THEN -x ELSE x
Bos(bv) == bv - 2 * N
SliceSize(bv) == 2 * N - Abs(Bos(bv) + 1)
Offset(bv) == (IF Bos(bv) < 0 THEN 0 ELSE Bos(bv) + 1) - N
SliceOf == n1 + n2 + 2 * N
InRange == N > 0 /\ SliceOf >= 0 /\ SliceOf <= 2 * (2 * N - 1)
Nu == n1 - Offset(SliceOf)
Nup == n3 - Offset(SliceOf)
Hit == InRange /\ Nu >= 0 /\ Nu < SliceSize(SliceOf) /\ Nup >= 0 /\ Nup < SliceSize(SliceOf)
\* the triple that fill() stored in the slot addressed by (n1,n2,n3)
F1 == Nu + Offset(SliceOf)
F2 == Bos(SliceOf) - F1
F3 == Nup + Offset(SliceOf)
Init == N \in Nat /\ n1 \in Int /\ n2 \in Int /\ n3 \in Int
Next == N' = N /\ n1' = n1 /\ n2' = n2 /\ n3' = n3
Transparent == Hit => (F1 = n1 /\ F2 = n2 /\ F3 = n3)
InWindow == LET n4 == n1 + n2 - n3 IN
            n1 >= -N /\ n1 <= N - 1 /\ n2 >= -N /\ n2 <= N - 1 /\ n3 >= -N /\ n3 <= N - 1 /\ n4 >= -N /\ n4 <= N - 1
WindowExact == Hit <=> InWindow
Inv == Transparent /\ WindowExact
=============================================================================
