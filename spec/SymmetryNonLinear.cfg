SPECIFICATION Spec
CONSTANT AllowNonLinear = TRUE
INVARIANTS IsSound
CHECK_DEADLOCK FALSE
