-------------------------- MODULE MatsubaraStoreMC --------------------------
EXTENDS MatsubaraStore, TLC
CONSTANT MaxN
VARIABLE n
Init == n \in 0..MaxN
Next == UNCHANGED n
Spec == Init /\ [][Next]_n
InvTransparent == Transparent(n)
InvWindow == WindowExact(n)
InvFill == FillCoversSlots(n)
=============================================================================
