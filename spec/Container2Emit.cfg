SPECIFICATION MCSpec
CONSTANTS
  NModes = 3
  IndexSets <- IndexSetsDef
  MaxCalls = 3
  EmitTrans = TRUE
VIEW View
CONSTRAINT Bounded
INVARIANTS TypeOK OwnerSound NoSharing
PROPERTIES EvaluableAfterBulkA ListsRequestedA
CHECK_DEADLOCK FALSE
