SPECIFICATION Spec
CONSTANTS
  NM = 3
  MaxLen = 5
INVARIANTS SetAgrees Correct
CHECK_DEADLOCK FALSE
