SPECIFICATION MCSpec
CONSTANTS
  EmitAt = 0
  EmitTrans = TRUE
VIEW View
INVARIANTS TypeOK
CHECK_DEADLOCK FALSE
