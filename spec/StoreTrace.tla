----------------------------- MODULE StoreTrace -----------------------------
(* Validates events recorded from the real MatsubaraContainer4 template, instantiated over a probe   *)
(* source whose value encodes its arguments (harness kind "store").                                  *)
(*  Fill(N, calls)        : the source calls made by fill(N) must be FillCalls(N) (as a bag: the     *)
(*                          loop order is not part of the property)                                   *)
(*  Lookup(N, n1, rows)   : each row <<n2, n3, r1, r2, r3, consulted>>: the decoded result must be   *)
(*                          the requested triple (transparency, the property); whether the source    *)
(*                          was consulted is compared with Hit() and counted, not required.           *)
EXTENDS MatsubaraStore, Json, IOUtils, TLC
Tr == ndJsonDeserialize(IOEnv.TRACE)
VARIABLES l, win, layoutAgree
IsEvent(e) == l <= Len(Tr) /\ Tr[l].e = e /\ l' = l + 1
RangeOf(s) == {s[i] : i \in 1..Len(s)}
BagOf(s) == [x \in RangeOf(s) |-> Cardinality({i \in 1..Len(s) : s[i] = x})]

TraceFill == /\ IsEvent("Fill")
             /\ LET e == Tr[l] IN
                  /\ e.reported = e.N
                  /\ win' = e.N
                  /\ layoutAgree' = (layoutAgree /\ Len(e.calls) = Len(FillCalls(e.N)) /\ BagOf(e.calls) = BagOf(FillCalls(e.N)))
TraceLookup == /\ IsEvent("Lookup")
               /\ LET e == Tr[l] IN
                    /\ e.N = win                                   \* a Fill came first
                    /\ \A i \in 1..Len(e.rows) :
                         LET r == e.rows[i]  t == <<e.n1, r[1], r[2]>> IN
                           <<r[3], r[4], r[5]>> = t                \* transparency
                    /\ layoutAgree' = (layoutAgree /\ \A i \in 1..Len(e.rows) :
                         LET r == e.rows[i]  t == <<e.n1, r[1], r[2]>> IN (r[6] = 0) <=> Hit(e.N, t))
               /\ UNCHANGED win
TraceInit == l = 1 /\ win = -1 /\ layoutAgree = TRUE
TraceNext == TraceFill \/ TraceLookup
TraceSpec == TraceInit /\ [][TraceNext]_<<l, win, layoutAgree>>
TraceAccepted ==
  LET d == TLCGet("stats").diameter IN
  IF d - 1 = Len(Tr) THEN TRUE ELSE Print(<<"@@REJECT", d - 1, Len(Tr)>>, FALSE)
Layout == (l = Len(Tr) + 1) => PrintT(<<"@@LAYOUT", layoutAgree>>)
=============================================================================
