----------------------------- MODULE IndexTrace -----------------------------
(* Validates tables recorded from the real IndexClassification (harness kind "index"): every     *)
(* recorded table must satisfy the definition level of Indexing.tla (bijection onto 0..N-1,      *)
(* forward and inverse lookups mutual inverses, unknown triples map to N, getInfo(N) throws).    *)
(* Whether the table also equals the design level (Enumerate) is reported, not required.         *)
EXTENDS Indexing, Json, IOUtils, TLC
Tr == ndJsonDeserialize(IOEnv.TRACE)
VARIABLES l, ndesign
IsEvent(e) == l <= Len(Tr) /\ Tr[l].e = e /\ l' = l + 1
LatOf(e) == [i \in 1..Len(e.lat) |-> [orb |-> e.lat[i].orb, spin |-> e.lat[i].spin]]
FwdOK(e, L) == \A i \in 1..Len(e.fwd) :
                  LET f == e.fwd[i]  t == <<f[1], f[2], f[3]>> IN
                    IF t \in Triples(L)
                    THEN f[4] < e.n /\ e.tab[f[4] + 1] = t          \* inverse(forward(t)) = t
                    ELSE f[4] = e.n                                   \* not an index
InvOK(e) == \A i \in 1..Len(e.tab) :
               \E j \in 1..Len(e.fwd) : /\ <<e.fwd[j][1], e.fwd[j][2], e.fwd[j][3]>> = e.tab[i]
                                        /\ e.fwd[j][4] = i - 1        \* forward(inverse(i)) = i
TraceIndex == /\ IsEvent("Index")
              /\ LET e == Tr[l]  L == LatOf(Tr[l]) IN
                   /\ "ex" \notin DOMAIN e
                   /\ e.n = NModes(L)
                   /\ IsBijection(e.tab, L)
                   /\ MutualInverse(e.tab, L)
                   /\ FwdOK(e, L) /\ InvOK(e)
                   /\ e.unknown = e.n
                   /\ e.oob = "ex"
                   /\ e.check = <<TRUE, FALSE>>
                   /\ ndesign' = ndesign + (IF e.tab = Enumerate(L, e.mode) THEN 1 ELSE 0)
TraceInit == l = 1 /\ ndesign = 0
TraceSpec == TraceInit /\ [][TraceIndex]_<<l, ndesign>>
TraceAccepted ==
  LET d == TLCGet("stats").diameter IN
  IF d - 1 = Len(Tr) THEN TRUE ELSE Print(<<"@@REJECT", d - 1, Len(Tr)>>, FALSE)
DesignCount == (l = Len(Tr) + 1) => PrintT(<<"@@DESIGN", ndesign, Len(Tr)>>)
=============================================================================
