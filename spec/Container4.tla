----------------------------- MODULE Container4 -----------------------------
(***************************************************************************)
(* IndexContainer4 / TwoParticleGFContainer as a state machine.            *)
(*  EM  : ElementsMap         quadruple -> [el, perm]   (perm in {0,1,6,7}, *)
(*        the entry of permutations4 applied to the frequency arguments)    *)
(*  NT  : NonTrivialElements  quadruple -> el           (the elements the   *)
(*        split bulk computation iterates over)                             *)
(*  elem: el -> [idx, st]     element objects ever created; st is the       *)
(*        ComputableObject status  "C"onstructed / "P"repared / co"M"puted  *)
(* One action per public call.  Which quadruples have any parts at all      *)
(* (non-vanishing) is a property of the physical model, supplied as the     *)
(* constant HasParts.                                                       *)
(***************************************************************************)
EXTENDS Integers, Sequences, FiniteSets, TLC

CONSTANTS NModes,          \* single-particle indices 0..NModes-1
          IndexSets,       \* catalogue of index sets handed to fill/prepareAll (a set of sets of quadruples; {} = "all")
          HasParts,        \* set of quadruples whose element has at least one part
          FillClearsNT,    \* TRUE: fill() resets NonTrivialElements as well as ElementsMap
          MaxCalls

VARIABLES EM, NT, elem, lastAct, lastRes, ncalls
vars == <<EM, NT, elem, lastAct, lastRes, ncalls>>

Modes == 0..(NModes - 1)
Quad  == Modes \X Modes \X Modes \X Modes

\* lexicographic order of IndexCombination4::operator<
Less(a, b) == \/ a[1] < b[1]
              \/ a[1] = b[1] /\ a[2] < b[2]
              \/ a[1] = b[1] /\ a[2] = b[2] /\ a[3] < b[3]
              \/ a[1] = b[1] /\ a[2] = b[2] /\ a[3] = b[3] /\ a[4] < b[4]
RECURSIVE SortQ(_)
SortQ(S) == IF S = {} THEN <<>>
            ELSE LET m == CHOOSE x \in S : \A y \in S : y = x \/ Less(x, y) IN <<m>> \o SortQ(S \ {m})

AllInitial == {q \in Quad : q[1] <= q[2] /\ q[3] <= q[4]}     \* enumerateInitialIndices

Swap12(q) == <<q[2], q[1], q[3], q[4]>>
Swap34(q) == <<q[1], q[2], q[4], q[3]>>

\* a map as a function on its domain; insert without overwriting (std::map::insert)
Ins(m, k, v) == IF k \in DOMAIN m THEN m ELSE [x \in (DOMAIN m) \cup {k} |-> IF x = k THEN v ELSE m[x]]
Empty == [x \in {} |-> 0]

\* IndexContainer4::set : always creates a new element object for q
SetIn(st, q) ==
  LET e   == Cardinality(DOMAIN st.elem) + 1
      el  == [x \in (DOMAIN st.elem) \cup {e} |-> IF x = e THEN [idx |-> q, st |-> "C"] ELSE st.elem[x]]
      em0 == Ins(st.EM, q, [el |-> e, perm |-> 0])
      em1 == IF q[1] # q[2] THEN Ins(em0, Swap12(q), [el |-> e, perm |-> 6]) ELSE em0
      em2 == IF q[3] # q[4] THEN Ins(em1, Swap34(q), [el |-> e, perm |-> 1]) ELSE em1
      em3 == IF q[1] # q[2] /\ q[3] # q[4] THEN Ins(em2, Swap12(Swap34(q)), [el |-> e, perm |-> 7]) ELSE em2
  IN [EM |-> em3, NT |-> Ins(st.NT, q, e), elem |-> el]

RECURSIVE FillSeq(_, _)
FillSeq(st, qs) == IF qs = <<>> THEN st
                   ELSE LET q == Head(qs) IN
                        FillSeq(IF q \in DOMAIN st.EM THEN st ELSE SetIn(st, q), Tail(qs))

FillFrom(S) == LET II == IF S = {} THEN AllInitial ELSE S
                   st0 == [EM |-> Empty, NT |-> IF FillClearsNT THEN Empty ELSE NT, elem |-> elem]
               IN FillSeq(st0, SortQ(II))

StepSt(e, s) == [elem EXCEPT ![e].st = s]
Ghost(a, r) == lastAct' = a /\ lastRes' = r /\ ncalls' = ncalls + 1

Init == /\ EM = Empty /\ NT = Empty /\ elem = Empty
        /\ lastAct = <<"Init">> /\ lastRes = "ok" /\ ncalls = 0

\* prepareAll(S) = fill(S) + prepare() on every entry of ElementsMap (prepare is idempotent)
PrepareAll(S) ==
  LET st == FillFrom(S)
      touched == {st.EM[q].el : q \in DOMAIN st.EM} IN
  /\ EM' = st.EM /\ NT' = st.NT
  /\ elem' = [e \in DOMAIN st.elem |-> IF e \in touched /\ st.elem[e].st = "C"
                                        THEN [st.elem[e] EXCEPT !.st = "P"] ELSE st.elem[e]]
  /\ Ghost(<<"PrepareAll", S>>, "ok")

\* TwoParticleGF::compute throws exStatusMismatch on an unprepared object, is a no-op on a computed one
CanCompute(e) == elem[e].st # "C"

\* computeAll(clearTerms = false, no frequencies, comm, split): split iterates NonTrivialElements, nosplit ElementsMap.
\* The loop stops at the first element that throws.
ComputeAll(split) ==
  LET targets == IF split THEN {NT[q] : q \in DOMAIN NT} ELSE {EM[q].el : q \in DOMAIN EM}
      \* order of iteration = key order; the first unprepared element aborts the call
      keys    == IF split THEN SortQ(DOMAIN NT) ELSE SortQ(DOMAIN EM)
      elOf(q) == IF split THEN NT[q] ELSE EM[q].el
      firstBad == IF \E i \in 1..Len(keys) : ~CanCompute(elOf(keys[i]))
                  THEN CHOOSE i \in 1..Len(keys) : ~CanCompute(elOf(keys[i])) /\ \A j \in 1..(i - 1) : CanCompute(elOf(keys[j]))
                  ELSE Len(keys) + 1
      done == {elOf(keys[i]) : i \in 1..(firstBad - 1)} IN
  /\ elem' = [e \in DOMAIN elem |-> IF e \in done THEN [elem[e] EXCEPT !.st = "M"] ELSE elem[e]]
  /\ UNCHANGED <<EM, NT>>
  /\ Ghost(<<"ComputeAll", split>>, IF firstBad > Len(keys) THEN "ok" ELSE "throw")

\* operator()(q): cache hit returns the entry, a miss creates the element on demand
Lookup(q) ==
  /\ IF q \in DOMAIN EM THEN UNCHANGED <<EM, NT, elem>>
     ELSE LET st == SetIn([EM |-> EM, NT |-> NT, elem |-> elem], q) IN
          EM' = st.EM /\ NT' = st.NT /\ elem' = st.elem
  /\ Ghost(<<"Lookup", q>>, "ok")

\* static_cast<TwoParticleGF&>(container(q)).prepare() / .compute()  on an existing entry
PrepareElem(q) ==
  /\ q \in DOMAIN EM
  /\ elem' = IF elem[EM[q].el].st = "C" THEN StepSt(EM[q].el, "P") ELSE elem
  /\ UNCHANGED <<EM, NT>>
  /\ Ghost(<<"PrepareElem", q>>, "ok")
ComputeElem(q) ==
  /\ q \in DOMAIN EM
  /\ IF CanCompute(EM[q].el)
     THEN elem' = StepSt(EM[q].el, "M") /\ Ghost(<<"ComputeElem", q>>, "ok")
     ELSE UNCHANGED elem /\ Ghost(<<"ComputeElem", q>>, "throw")
  /\ UNCHANGED <<EM, NT>>

\* evaluation of container(q)(n1,n2,n3):
\*   "value"  -- a value of a prepared and computed element (the property speaks about these)
\*   "throw"  -- the element has parts that were never computed
\*   "zero"   -- the element was never prepared: the library silently returns 0 (outside the property)
EvalRes(q, hp) == LET e == EM[q].el IN
                 IF elem[e].st = "C" THEN "zero"
                 ELSE IF elem[e].st = "P" /\ elem[e].idx \in hp THEN "throw"
                 ELSE "value"
EvalWith(q, hp) ==
  /\ q \in DOMAIN EM
  /\ UNCHANGED <<EM, NT, elem>>
  /\ Ghost(<<"Eval", q>>, EvalRes(q, hp))
Eval(q) == EvalWith(q, HasParts)

Next == \/ \E S \in IndexSets : PrepareAll(S)
        \/ \E b \in BOOLEAN : ComputeAll(b)
        \/ \E q \in Quad : Lookup(q) \/ PrepareElem(q) \/ ComputeElem(q) \/ Eval(q)
Spec == Init /\ [][Next]_vars
Bounded == ncalls < MaxCalls

----------------------------------------------------------------------------
(* Definition level.                                                        *)
(* The abstract value chi_q(n1,n2;n3) is identified by a canonical form     *)
(* under the two exchange symmetries of the property                        *)
(*    chi_jikl(n1,n2;n3) = -chi_ijkl(n2,n1;n3)                               *)
(*    chi_ijlk(n1,n2;n3) = -chi_ijkl(n1,n2;n1+n2-n3)                         *)
(* acting on (quadruple, <<n1,n2,n3,n4>>, sign), n4 = n1+n2-n3.              *)
Canon(q, n, s) ==
  LET a == IF q[1] > q[2] THEN [q |-> Swap12(q), n |-> <<n[2], n[1], n[3], n[4]>>, s |-> -s] ELSE [q |-> q, n |-> n, s |-> s]
      b == IF a.q[3] > a.q[4] THEN [q |-> Swap34(a.q), n |-> <<a.n[1], a.n[2], a.n[4], a.n[3]>>, s |-> -a.s] ELSE a
  IN b
\* permutations4[p] for the entries the container uses: argument positions and sign
Perm(p) == CASE p = 0 -> [perm |-> <<1, 2, 3, 4>>, sign |-> 1]
             [] p = 1 -> [perm |-> <<1, 2, 4, 3>>, sign |-> -1]
             [] p = 6 -> [perm |-> <<2, 1, 3, 4>>, sign |-> -1]
             [] p = 7 -> [perm |-> <<2, 1, 4, 3>>, sign |-> 1]
Freqs == {<<n1, n2, n3, n1 + n2 - n3>> : n1 \in -1..1, n2 \in -1..1, n3 \in -1..1}
\* what the container evaluates for q at n: the element's quadruple at permuted arguments times the sign.
\* (the element is called with three arguments; its fourth is implied)
AliasSound ==
  \A q \in DOMAIN EM : \A n \in Freqs :
     LET ent == EM[q]  P == Perm(ent.perm)
         m   == <<n[P.perm[1]], n[P.perm[2]], n[P.perm[3]], n[P.perm[1]] + n[P.perm[2]] - n[P.perm[3]]>>
     IN Canon(q, n, 1) = Canon(elem[ent.el].idx, m, P.sign)

\* the owner of a non-aliased entry is an element constructed for exactly that quadruple
OwnerSound == \A q \in DOMAIN EM : EM[q].perm = 0 => elem[EM[q].el].idx = q

\* after a bulk computation that returned normally every listed element is evaluable
EvaluableAfterBulk ==
  (lastAct[1] = "ComputeAll" /\ lastRes = "ok") =>
      \A q \in DOMAIN EM : elem[EM[q].el].st = "M"

\* the split computation works on exactly the elements the map lists
NTisEM == {NT[q] : q \in DOMAIN NT} = {EM[q].el : q \in DOMAIN EM}

TypeOK == /\ DOMAIN EM \subseteq Quad /\ DOMAIN NT \subseteq Quad
          /\ \A q \in DOMAIN EM : EM[q].el \in DOMAIN elem /\ EM[q].perm \in {0, 1, 6, 7}
          /\ \A q \in DOMAIN NT : NT[q] \in DOMAIN elem
=============================================================================
