SPECIFICATION TraceSpec
CONSTANTS
  P <- PTr
  B <- BTr
  NParts <- NPartsTr
  Clear <- ClearTr
  Split <- SplitTr
  SkelBarrierOnWorld = FALSE
  RootIsLowest = TRUE
  StatusEverywhere = TRUE
INVARIANTS NoMismatch EigenEverywhere TablesDelivered TermsEvaluable NotAccepted
CHECK_DEADLOCK FALSE
