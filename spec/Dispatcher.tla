------------------------------ MODULE Dispatcher ------------------------------
(***************************************************************************)
(* pMPI::MPIMaster / MPIWorker driven by the loop of mpi_skel::run:        *)
(*                                                                         *)
(*   for (MPIWorker worker(comm,ROOT); !worker.is_finished();) {           *)
(*       if (rank == ROOT) disp->order();                                  *)
(*       worker.receive_order();                                           *)
(*       if (worker.is_working()) { run job; worker.report_job_done(); }   *)
(*       if (rank == ROOT) disp->check_workers();                          *)
(*   }                                                                     *)
(*                                                                         *)
(* Rank 0 is the master AND a worker.  One action per MPI call.            *)
(* Messages: master -> worker  Work(job) / Finish   (tag = kind)           *)
(*           worker -> master  Done                 (tag Pending)          *)
(* A blocking send of one int is eager: it completes locally and the       *)
(* message is "in flight" until the network delivers it (Deliver actions,  *)
(* weakly fair); MPI_Test on the posted receive succeeds iff a message has *)
(* arrived.  Delivery is FIFO per ordered pair (MPI non-overtaking).       *)
(* R consecutive rounds on the same communicator are separated by the      *)
(* barriers of mpi_skel::run.                                              *)
(***************************************************************************)
EXTENDS Integers, Sequences, FiniteSets, TLC

CONSTANTS P,      \* number of ranks, 0..P-1 ; rank 0 = ROOT
          JobIds, \* the set of job ids of a round (naturals; 0..n-1 for mpi_skel::run and MPIMaster(comm, n, ...), any distinct ids for
                  \* the constructors taking a list of job ids: the protocol carries the ids themselves, never positions in the list)
          R,      \* number of consecutive rounds
          BossWorks   \* TRUE: rank 0 is master AND worker (mpi_skel::run); FALSE: rank 0 is a pure master (MPIMaster(..., include_boss = false),
                      \*       loop "for (; !master.is_finished();) { master.order(); master.check_workers(); }"), ranks 1..P-1 are the workers

Ranks == 0..(P - 1)
Jobs  == JobIds
J     == Cardinality(JobIds)
Root  == 0
Workers == IF BossWorks THEN Ranks ELSE Ranks \ {Root}      \* the worker pool of the master
NW == Cardinality(Workers)

VARIABLES
  pc,          \* [Ranks -> {"order","recv","run","report","check","top","done"}]
  flightW,     \* [Ranks -> Seq(msg)]  master -> worker, sent but not yet arrived
  arrivedW,    \* [Ranks -> Seq(msg)]  master -> worker, arrived, matched by the worker's posted receive in order
  flightM,     \* [Ranks -> Seq("Done")] worker -> master
  arrivedM,
  jobStack,    \* master: Seq(job), Head = top of the stack
  workerStack, \* master: Seq(rank), Head = top
  dispatch,    \* master: job -|-> rank (DispatchMap), written when the order is sent
  waitReq,     \* master: [Ranks -> BOOLEAN]  receive for the completion message of that worker is outstanding
  finishSent,  \* master: [Ranks -> BOOLEAN]
  wStatus,     \* worker: [Ranks -> {"Pending","Work","Finish"}]
  curJob,      \* worker: [Ranks -> job or -1]
  ran,         \* ghost: Seq(<<round, job, rank>>) job executions
  round        \* current round 1..R

vars == <<pc, flightW, arrivedW, flightM, arrivedM, jobStack, workerStack, dispatch, waitReq, finishSent,
          wStatus, curJob, ran, round>>

Msg(tag, job) == [tag |-> tag, job |-> job]
EmptyMap == [x \in {} |-> 0]

\* fill_stack_: jobs pushed last to first (top = first of the sorted order), workers likewise (top = rank 0)
RECURSIVE SeqOfSet(_)
SeqOfSet(S) == IF S = {} THEN <<>> ELSE LET m == CHOOSE x \in S : \A y \in S : x <= y IN <<m>> \o SeqOfSet(S \ {m})
Perms(S) == {f \in [1..Cardinality(S) -> S] : \A i, j \in 1..Cardinality(S) : i # j => f[i] # f[j]}

StartRound(js) ==
  /\ pc' = [r \in Ranks |-> IF r = Root THEN "order" ELSE "recv"]
  /\ jobStack' = js
  /\ workerStack' = SeqOfSet(Workers)
  /\ dispatch' = EmptyMap
  /\ waitReq' = [r \in Ranks |-> FALSE]
  /\ finishSent' = [r \in Ranks |-> FALSE]
  /\ wStatus' = [r \in Ranks |-> "Pending"]
  /\ curJob' = [r \in Ranks |-> -1]

Init ==
  /\ round = 1 /\ ran = <<>>
  /\ flightW = [r \in Ranks |-> <<>>] /\ arrivedW = [r \in Ranks |-> <<>>]
  /\ flightM = [r \in Ranks |-> <<>>] /\ arrivedM = [r \in Ranks |-> <<>>]
  /\ \E js \in Perms(Jobs) :          \* complexities only permute the initial job stack
       /\ pc = [r \in Ranks |-> IF r = Root THEN "order" ELSE "recv"]
       /\ jobStack = js
       /\ workerStack = SeqOfSet(Workers)
       /\ dispatch = EmptyMap
       /\ waitReq = [r \in Ranks |-> FALSE]
       /\ finishSent = [r \in Ranks |-> FALSE]
       /\ wStatus = [r \in Ranks |-> "Pending"]
       /\ curJob = [r \in Ranks |-> -1]

AfterBody(r) == IF r = Root THEN "check" ELSE "top"

----------------------------------------------------------------------------
\* MPIMaster::order, one iteration of its while loop = order_worker(top worker, top job)
Order ==
  /\ pc[Root] = "order"
  /\ IF workerStack # <<>> /\ jobStack # <<>>
     THEN LET w == Head(workerStack)  j == Head(jobStack) IN
          /\ flightW' = [flightW EXCEPT ![w] = Append(@, Msg("Work", j))]      \* Comm.send(worker, Work, job)
          /\ dispatch' = [x \in (DOMAIN dispatch) \cup {j} |-> IF x = j THEN w ELSE dispatch[x]]
          /\ waitReq' = [waitReq EXCEPT ![w] = TRUE]                           \* Comm.irecv(worker, Pending)
          /\ workerStack' = Tail(workerStack) /\ jobStack' = Tail(jobStack)
          /\ UNCHANGED pc
     ELSE /\ pc' = [pc EXCEPT ![Root] = IF BossWorks THEN "recv" ELSE "check"]
          /\ UNCHANGED <<flightW, dispatch, waitReq, workerStack, jobStack>>
  /\ UNCHANGED <<arrivedW, flightM, arrivedM, finishSent, wStatus, curJob, ran, round>>

\* MPIWorker::receive_order
ReceiveOrder(r) ==
  /\ pc[r] = "recv"
  /\ IF wStatus[r] = "Pending" /\ arrivedW[r] # <<>>
     THEN LET m == Head(arrivedW[r]) IN                                        \* req.test() succeeded
          /\ wStatus' = [wStatus EXCEPT ![r] = m.tag]
          /\ curJob' = [curJob EXCEPT ![r] = m.job]
          /\ arrivedW' = [arrivedW EXCEPT ![r] = Tail(@)]                      \* receive re-posted (cancelled if Finish)
          /\ pc' = [pc EXCEPT ![r] = IF m.tag = "Work" THEN "run" ELSE AfterBody(r)]
     ELSE /\ pc' = [pc EXCEPT ![r] = IF wStatus[r] = "Work" THEN "run" ELSE AfterBody(r)]
          /\ UNCHANGED <<wStatus, curJob, arrivedW>>
  /\ UNCHANGED <<flightW, flightM, arrivedM, jobStack, workerStack, dispatch, waitReq, finishSent, ran, round>>

RunJob(r) ==
  /\ pc[r] = "run"
  /\ ran' = Append(ran, <<round, curJob[r], r>>)
  /\ pc' = [pc EXCEPT ![r] = "report"]
  /\ UNCHANGED <<flightW, arrivedW, flightM, arrivedM, jobStack, workerStack, dispatch, waitReq, finishSent, wStatus, curJob, round>>

\* MPIWorker::report_job_done
Report(r) ==
  /\ pc[r] = "report"
  /\ flightM' = [flightM EXCEPT ![r] = Append(@, "Done")]                      \* Comm.send(boss, Pending)
  /\ wStatus' = [wStatus EXCEPT ![r] = "Pending"]
  /\ pc' = [pc EXCEPT ![r] = AfterBody(r)]
  /\ UNCHANGED <<flightW, arrivedW, arrivedM, jobStack, workerStack, dispatch, waitReq, finishSent, curJob, ran, round>>

\* MPIMaster::check_workers: tests in pool order; every completed receive pushes its worker; then the Finish rule
RECURSIVE PushAll(_, _)
PushAll(stack, ws) == IF ws = <<>> THEN stack ELSE PushAll(<<Head(ws)>> \o stack, Tail(ws))
CheckWorkers ==
  /\ pc[Root] = "check"
  /\ LET done   == {w \in Ranks : waitReq[w] /\ arrivedM[w] # <<>>}
         pushed == PushAll(workerStack, SeqOfSet(done))
         fin    == jobStack = <<>> /\ Len(pushed) >= NW IN
     /\ workerStack' = pushed
     /\ waitReq' = [w \in Ranks |-> IF w \in done THEN FALSE ELSE waitReq[w]]
     /\ arrivedM' = [w \in Ranks |-> IF w \in done THEN Tail(arrivedM[w]) ELSE arrivedM[w]]
     /\ flightW' = [w \in Ranks |-> IF fin /\ ~finishSent[w] /\ w \in Workers THEN Append(flightW[w], Msg("Finish", -1)) ELSE flightW[w]]
     /\ finishSent' = IF fin THEN [w \in Ranks |-> w \in Workers] ELSE finishSent
  /\ pc' = [pc EXCEPT ![Root] = "top"]
  /\ UNCHANGED <<arrivedW, flightM, jobStack, dispatch, wStatus, curJob, ran, round>>

\* loop condition !worker.is_finished()
LoopTest(r) ==
  /\ pc[r] = "top"
  /\ pc' = [pc EXCEPT ![r] = IF r = Root /\ ~BossWorks
                                 THEN (IF \A w \in Workers : finishSent[w] THEN "done" ELSE "order")      \* !master.is_finished()
                                 ELSE IF wStatus[r] = "Finish" THEN "done" ELSE IF r = Root THEN "order" ELSE "recv"]
  /\ UNCHANGED <<flightW, arrivedW, flightM, arrivedM, jobStack, workerStack, dispatch, waitReq, finishSent, wStatus, curJob, ran, round>>

\* the network
DeliverW(w) == /\ flightW[w] # <<>>
               /\ arrivedW' = [arrivedW EXCEPT ![w] = Append(@, Head(flightW[w]))]
               /\ flightW' = [flightW EXCEPT ![w] = Tail(@)]
               /\ UNCHANGED <<pc, flightM, arrivedM, jobStack, workerStack, dispatch, waitReq, finishSent, wStatus, curJob, ran, round>>
DeliverM(w) == /\ flightM[w] # <<>>
               /\ arrivedM' = [arrivedM EXCEPT ![w] = Append(@, Head(flightM[w]))]
               /\ flightM' = [flightM EXCEPT ![w] = Tail(@)]
               /\ UNCHANGED <<pc, flightW, arrivedW, jobStack, workerStack, dispatch, waitReq, finishSent, wStatus, curJob, ran, round>>

\* barriers at the end of run() and at the start of the next one; a new master is constructed
AllDone == \A r \in Ranks : pc[r] = "done"
NextRound ==
  /\ AllDone /\ round < R
  /\ round' = round + 1
  /\ \E js \in Perms(Jobs) : StartRound(js)
  /\ UNCHANGED <<flightW, arrivedW, flightM, arrivedM, ran>>

Proc(r) == ReceiveOrder(r) \/ RunJob(r) \/ Report(r) \/ LoopTest(r)
Next == Order \/ CheckWorkers \/ NextRound \/ \E r \in Ranks : Proc(r) \/ DeliverW(r) \/ DeliverM(r)

Spec == Init /\ [][Next]_vars
FairSpec == Spec /\ WF_vars(Order) /\ WF_vars(CheckWorkers) /\ WF_vars(NextRound)
                 /\ \A r \in Ranks : WF_vars(Proc(r)) /\ WF_vars(DeliverW(r)) /\ WF_vars(DeliverM(r))

----------------------------------------------------------------------------
(* Definition level *)
RanIn(k) == {i \in 1..Len(ran) : ran[i][1] = k}
\* at the end of a round every job of that round has been executed exactly once
ExactlyOnce == AllDone => \A j \in Jobs : Cardinality({i \in RanIn(round) : ran[i][2] = j}) = 1
\* never more than once, at any time
AtMostOnce == \A k \in 1..round : \A j \in Jobs : Cardinality({i \in RanIn(k) : ran[i][2] = j}) <= 1
\* the map names the rank that ran the job (the map is written when the order is sent, so it is there when the job runs)
MapTruthful == \A i \in RanIn(round) : ran[i][2] \in DOMAIN dispatch /\ dispatch[ran[i][2]] = ran[i][3]
MapComplete == AllDone => DOMAIN dispatch = Jobs
\* only real jobs are executed
RealJobs == \A i \in 1..Len(ran) : ran[i][2] \in Jobs
\* nothing is left in the channels when a round ends (so that rounds cannot interfere)
Drained == AllDone => \A r \in Ranks : flightW[r] = <<>> /\ arrivedW[r] = <<>> /\ flightM[r] = <<>> /\ arrivedM[r] = <<>>
\* an idle-worker stack never lists a rank twice, and never lists a rank that has an order outstanding
StackSound == /\ \A i, k \in 1..Len(workerStack) : i # k => workerStack[i] # workerStack[k]
              /\ \A i \in 1..Len(workerStack) : ~waitReq[workerStack[i]]
\* a worker is told to finish only when nothing is left to do and nobody is working
FinishSafe == \A r \in Ranks : finishSent[r] => jobStack = <<>> /\ \A w \in Ranks : ~waitReq[w]
TypeOK == /\ pc \in [Ranks -> {"order", "recv", "run", "report", "check", "top", "done"}]
          /\ wStatus \in [Ranks -> {"Pending", "Work", "Finish"}]
Termination == <>[](AllDone /\ round = R)
=============================================================================
