----------------------------- MODULE FieldOpTrace -----------------------------
(* C10 conformance (harness query "c10"): every stored eigenbasis field operator, rotated back to the Fock basis with the    *)
(* stored eigenvectors (U_to . part . U_from^+, assembled over all parts), must be the Jordan-Wigner matrix of that operator  *)
(* (Fermion.tla) -- entries 0, +1, -1 -- to within one unit of 1e-9; both for the operator container (which fills c from the   *)
(* adjoint of c^+) and for operators computed one by one, and for c^+_i c_j.  Eigenvector freedom inside degenerate levels     *)
(* cancels in this product.  Given that, {c_i, c^+_j} = delta_ij and {c_i, c_j} = 0 are the CAR of Fermion.tla (checked by   *)
(* TLC in OperatorAlgebraMC); the part-by-part adjoint relation of the stored matrices is logged separately.                   *)
EXTENDS Fermion, Json, IOUtils, TLC
Tr == ndJsonDeserialize(IOEnv.TRACE)
VARIABLE l
IsEvent(e) == l <= Len(Tr) /\ Tr[l].e = e /\ l' = l + 1
SetOf(s) == {s[i] : i \in 1..Len(s)}
Unit == 1000000000
Close(logged, exact, M) ==
  LET L == [p \in {<<x[1], x[2]>> : x \in SetOf(logged)} |->
              LET x == CHOOSE y \in SetOf(logged) : y[1] = p[1] /\ y[2] = p[2] IN <<x[3], x[4]>>] IN
  \A p \in (DOMAIN L) \cup (DOMAIN exact) :
      LET a == IF p \in DOMAIN L THEN L[p] ELSE <<0, 0>>
          b == IF p \in DOMAIN exact THEN exact[p] ELSE <<0, 0>> IN
      a[1] - Unit * b[1] \in -1..1 /\ a[2] - Unit * b[2] \in -1..1
TraceC10 ==
  /\ IsEvent("Q")
  /\ LET e == Tr[l] IN
       /\ "fail" \notin DOMAIN e /\ "ex" \notin DOMAIN e
       /\ \A i \in 1..Len(e.ops) :
            LET o == e.ops[i] IN
            IF o[1] = "adjoint" THEN o[4] <= 1
            ELSE IF o[1] = "transposed" THEN Close(o[3], MonoMat(o[2], e.M), e.M)     \* parts handed out by the public transpose() accessors
            ELSE o[4] = 2 /\ Close(o[3], MonoMat(o[2], e.M), e.M)               \* status Computed, matrix = Jordan-Wigner
       \* every index is covered by both routes
       /\ \A k \in 0..(e.M - 1) : \A c \in {0, 1} : \A route \in {"container", "single"} :
            \E i \in 1..Len(e.ops) : e.ops[i][1] = route /\ e.ops[i][2] = <<<<c, k>>>>
TraceInit == l = 1
TraceSpec == TraceInit /\ [][TraceC10]_l
TraceAccepted ==
  LET d == TLCGet("stats").diameter IN
  IF d - 1 = Len(Tr) THEN TRUE ELSE Print(<<"@@REJECT", d - 1, Len(Tr)>>, FALSE)
=============================================================================
