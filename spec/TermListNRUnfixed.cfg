SPECIFICATION MCSpec
CONSTANTS
  Kind = "NR"
  TolN = 22
  TolD = 5
  CTolN = 5
  CTolD = 2
  Cands <- CandsNR
  MaxAdds = 3
  Pinned = TRUE
  EmitTrans = FALSE
INVARIANTS TypeOK Accounted NoEquivalentPair WeightsRight PolesClose Conservation
CHECK_DEADLOCK FALSE
