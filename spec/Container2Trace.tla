--------------------------- MODULE Container2Trace ---------------------------
(* Trace validation of the real GFContainer (harness kind "container2") against Container2.tla.   *)
(* One line per public call, logged at its return with the projected state: ElementsMap and the  *)
(* elements it references (named in order of creation), statuses.  An Eval line additionally      *)
(* carries whether the value agreed bit for bit with a GreensFunction constructed directly for    *)
(* that pair -- the property itself -- and whether it was exactly zero.                           *)
EXTENDS Container2, Json, IOUtils
Tr == ndJsonDeserialize(IOEnv.TRACE)
VARIABLE l
tvars == <<vars, l>>
RangeOf(s) == {s[i] : i \in 1..Len(s)}
IsEvent(e) == l <= Len(Tr) /\ Tr[l].e = e /\ l' = l + 1
Cur == Tr[l]
Dispatch(a) ==
  CASE a[1] = "PrepareAll"  -> PrepareAll(IF a[2] = <<>> THEN (0..(Cur.M - 1)) \X (0..(Cur.M - 1)) ELSE RangeOf(a[2]))   \* "all pairs" of THIS model
    [] a[1] = "ComputeAll"  -> ComputeAll
    [] a[1] = "Lookup"      -> Lookup(a[2])
    [] a[1] = "PrepareElem" -> PrepareElem(a[2])
    [] a[1] = "ComputeElem" -> ComputeElem(a[2])
    [] a[1] = "Eval"        -> Eval(a[2])
StateMatches(e) ==
  /\ {<<q, EM'[q]>> : q \in DOMAIN EM'} = RangeOf(e.em)
  /\ \A x \in RangeOf(e.el) : x[1] \in DOMAIN elem' /\ elem'[x[1]].idx = x[2] /\ elem'[x[1]].st = x[3]
TraceCall == /\ IsEvent("Call")
             /\ Dispatch(Cur.act)
             /\ lastRes' = Cur.res
             /\ (Cur.act[1] = "Eval" /\ Cur.res = "value") => Cur.agrees     \* container value = direct computation
             /\ (Cur.act[1] = "Eval" /\ Cur.res = "zero") => Cur.iszero
             /\ StateMatches(Cur)
TraceBegin == /\ IsEvent("CBegin")
              /\ EM' = Empty /\ elem' = Empty /\ lastAct' = <<"Init">> /\ lastRes' = "ok" /\ ncalls' = 0
TraceInit == Init /\ l = 1
TraceNext == TraceCall \/ TraceBegin
TraceSpec == TraceInit /\ [][TraceNext]_tvars
TraceAccepted ==
  LET d == TLCGet("stats").diameter IN
  IF d - 1 = Len(Tr) THEN TRUE ELSE Print(<<"@@REJECT", d - 1, Len(Tr)>>, FALSE)
=============================================================================
