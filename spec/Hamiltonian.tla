----------------------------- MODULE Hamiltonian -----------------------------
(***************************************************************************)
(* From lattice terms to the Hamiltonian matrix (C04, C03).                *)
(*  - TermsPoly: a list of lattice terms (Lattice.tla) read as a polynomial *)
(*    in c, c^+ over single-particle indices (factors in the order given); *)
(*  - Doc...: the operator written in the documentation of every term        *)
(*    factory and every LatticePresets::add* call (LatticePresets.h), as a *)
(*    polynomial -- the definition level the presets are checked against.  *)
(* Amplitudes are numerators over 4 (Lattice.tla), so all matrices here    *)
(* are 4 x the real ones, except where a documented 1/2 or 1/4 makes the   *)
(* module carry numerators over 16 (DocScale).                             *)
(* Ix(l, o, s) is the single-particle index of (label, orbital, spin).     *)
(***************************************************************************)
EXTENDS LatticeTerms, Fermion

\* ---- lattice terms as a polynomial ----------------------------------------------------------
TermMono(t, Ix(_, _, _)) == [i \in 1..Len(t.ops) |-> <<t.ops[i][1], Ix(t.ops[i][2], t.ops[i][3], t.ops[i][4])>>]
TermsPoly(ts, Ix(_, _, _)) == [i \in 1..Len(ts) |-> PTerm(TermMono(ts[i], Ix), ts[i].v, 0)]

\* ---- documented operators ---------------------------------------------------------------------
\* All Doc* polynomials carry numerators over 16 = 4 (amplitude denominator) x 4 (documented 1/2 . 1/2), see DocScale.
DocScale == 4
n(Ix(_, _, _), l, o, s) == << <<1, Ix(l, o, s)>>, <<0, Ix(l, o, s)>> >>
nn(Ix(_, _, _), l1, o1, s1, l2, o2, s2) == n(Ix, l1, o1, s1) \o n(Ix, l2, o2, s2)
Orb(S, l) == 0..(S[l].orb - 1)
Spn(S, l) == 0..(S[l].spin - 1)
SeqOf(set, F(_)) ==            \* sequence of F(x) over a finite set of tuples/ints in some order
  LET RECURSIVE Go(_)
      Go(R) == IF R = {} THEN <<>> ELSE LET x == CHOOSE y \in R : TRUE IN <<F(x)>> \o Go(R \ {x})
  IN Go(set)

\* U sum_{a, s > s'} n_{a s} n_{a s'} + eps sum_{a, s} n_{a s}
DocCoulombS(S, Ix(_, _, _), l, U, eps) ==
  SeqOf({<<a, s, t>> \in Orb(S, l) \X Spn(S, l) \X Spn(S, l) : s > t},
        LAMBDA x : PTerm(nn(Ix, l, x[1], x[2], l, x[1], x[3]), DocScale * U, 0)) \o
  SeqOf(Orb(S, l) \X Spn(S, l), LAMBDA x : PTerm(n(Ix, l, x[1], x[2]), DocScale * eps, 0))

\* U sum_{a,s>s'} n n + U' sum_{a#b, s>s'} n_{a s} n_{b s'} + (U'-J)/2 sum_{a#b, s} n_{a s} n_{b s}
\*  - J sum_{a#b, s>s'} ( c+_{a s} c+_{b s'} c_{b s} c_{a s'} + c+_{b s} c+_{b s'} c_{a s} c_{a s'} ) + eps sum n
DocCoulombP(S, Ix(_, _, _), l, U, Up, J, eps) ==
  LET AB == {x \in Orb(S, l) \X Orb(S, l) : x[1] # x[2]}
      ST == {x \in Spn(S, l) \X Spn(S, l) : x[1] > x[2]} IN
  SeqOf(Orb(S, l) \X ST, LAMBDA x : PTerm(nn(Ix, l, x[1], x[2][1], l, x[1], x[2][2]), DocScale * U, 0)) \o
  SeqOf(AB \X ST, LAMBDA x : PTerm(nn(Ix, l, x[1][1], x[2][1], l, x[1][2], x[2][2]), DocScale * Up, 0)) \o
  SeqOf(AB \X Spn(S, l), LAMBDA x : PTerm(nn(Ix, l, x[1][1], x[2], l, x[1][2], x[2]), (DocScale \div 2) * (Up - J), 0)) \o
  SeqOf(AB \X ST, LAMBDA x :
      PTerm(<< <<1, Ix(l, x[1][1], x[2][1])>>, <<1, Ix(l, x[1][2], x[2][2])>>, <<0, Ix(l, x[1][2], x[2][1])>>, <<0, Ix(l, x[1][1], x[2][2])>> >>, -DocScale * J, 0)) \o
  SeqOf(AB \X ST, LAMBDA x :
      PTerm(<< <<1, Ix(l, x[1][2], x[2][1])>>, <<1, Ix(l, x[1][2], x[2][2])>>, <<0, Ix(l, x[1][1], x[2][1])>>, <<0, Ix(l, x[1][1], x[2][2])>> >>, -DocScale * J, 0)) \o
  SeqOf(Orb(S, l) \X Spn(S, l), LAMBDA x : PTerm(n(Ix, l, x[1], x[2]), DocScale * eps, 0))

DocLevel(S, Ix(_, _, _), l, eps) ==
  SeqOf(Orb(S, l) \X Spn(S, l), LAMBDA x : PTerm(n(Ix, l, x[1], x[2]), DocScale * eps, 0))

\* sum_a mH 1/2 (n_{a up} - n_{a down})
DocMagnetization(S, Ix(_, _, _), l, mH) ==
  SeqOf(Orb(S, l), LAMBDA a : PTerm(n(Ix, l, a, SpUp), (DocScale \div 2) * mH, 0)) \o
  SeqOf(Orb(S, l), LAMBDA a : PTerm(n(Ix, l, a, SpDown), -(DocScale \div 2) * mH, 0))

\* sum_a J 1/2 (n_{i a up} - n_{i a dn}) 1/2 (n_{j a up} - n_{j a dn})
DocSzSz(S, Ix(_, _, _), l1, l2, J) ==
  SeqOf(Orb(S, l1) \X {SpUp, SpDown} \X {SpUp, SpDown},
        LAMBDA x : PTerm(nn(Ix, l1, x[1], x[2], l2, x[1], x[3]), (IF x[2] = x[3] THEN 1 ELSE -1) * J, 0))
\* sum_a J S_{i a} . S_{j a} = SzSz + J/2 (S+_i S-_j + S-_i S+_j),  S+ = c+_up c_dn
DocSS(S, Ix(_, _, _), l1, l2, J) ==
  DocSzSz(S, Ix, l1, l2, J) \o
  SeqOf(Orb(S, l1), LAMBDA a : PTerm(<< <<1, Ix(l1, a, SpUp)>>, <<0, Ix(l1, a, SpDown)>>, <<1, Ix(l2, a, SpDown)>>, <<0, Ix(l2, a, SpUp)>> >>, 2 * J, 0)) \o
  SeqOf(Orb(S, l1), LAMBDA a : PTerm(<< <<1, Ix(l1, a, SpDown)>>, <<0, Ix(l1, a, SpUp)>>, <<1, Ix(l2, a, SpUp)>>, <<0, Ix(l2, a, SpDown)>> >>, 2 * J, 0))

\* t c+_{i a s} c_{j b s'} + h.c.   (real t)
Hop(Ix(_, _, _), l1, o1, s1, l2, o2, s2, t) ==
  << PTerm(<< <<1, Ix(l1, o1, s1)>>, <<0, Ix(l2, o2, s2)>> >>, DocScale * t, 0),
     PTerm(<< <<1, Ix(l2, o2, s2)>>, <<0, Ix(l1, o1, s1)>> >>, DocScale * t, 0) >>
DocHopping8(S, Ix(_, _, _), l1, l2, t, o1, o2, s1, s2) == Hop(Ix, l1, o1, s1, l2, o2, s2, t)
DocHopping6(S, Ix(_, _, _), l1, l2, t, o1, o2) ==
  Flatten(SeqOf(Spn(S, l1), LAMBDA s : Hop(Ix, l1, o1, s, l2, o2, s, t)))
DocHopping4(S, Ix(_, _, _), l1, l2, t) ==
  Flatten(SeqOf(Orb(S, l1) \X Spn(S, l1), LAMBDA x : Hop(Ix, l1, x[1], x[2], l2, x[1], x[2], t)))

\* term factories (Lattice::Term::Presets): value V times the documented product
DocFactory(Ix(_, _, _), f, v) ==
  LET fn == f[1] IN
  CASE fn = "Hopping"     -> << PTerm(<< <<1, Ix(f[2], f[4], f[6])>>, <<0, Ix(f[3], f[5], f[7])>> >>, DocScale * v, 0) >>
    [] fn = "Level"       -> << PTerm(n(Ix, f[2], f[3], f[4]), DocScale * v, 0) >>
    [] fn = "NupNdown"    -> IF f[2] = f[3] /\ f[4] = f[5] /\ f[6] = f[7]
                             THEN << PTerm(n(Ix, f[2], f[4], f[6]), DocScale * v, 0) >>          \* documented fallback
                             ELSE << PTerm(nn(Ix, f[2], f[4], f[6], f[3], f[5], f[7]), DocScale * v, 0) >>
    [] fn = "Spinflip"    -> << PTerm(<< <<1, Ix(f[2], f[3], f[5])>>, <<1, Ix(f[2], f[4], f[6])>>, <<0, Ix(f[2], f[4], f[5])>>, <<0, Ix(f[2], f[3], f[6])>> >>, DocScale * v, 0) >>
    [] fn = "PairHopping" -> << PTerm(<< <<1, Ix(f[2], f[3], f[5])>>, <<1, Ix(f[2], f[3], f[6])>>, <<0, Ix(f[2], f[4], f[5])>>, <<0, Ix(f[2], f[4], f[6])>> >>, DocScale * v, 0) >>
    [] fn = "SplusSminus" -> << PTerm(<< <<1, Ix(f[2], f[4], SpUp)>>, <<0, Ix(f[2], f[4], SpDown)>>, <<1, Ix(f[3], f[4], SpDown)>>, <<0, Ix(f[3], f[4], SpUp)>> >>, DocScale * v, 0) >>
    [] fn = "SminusSplus" -> << PTerm(<< <<1, Ix(f[2], f[4], SpDown)>>, <<0, Ix(f[2], f[4], SpUp)>>, <<1, Ix(f[3], f[4], SpUp)>>, <<0, Ix(f[3], f[4], SpDown)>> >>, DocScale * v, 0) >>

DocPreset(S, Ix(_, _, _), f) ==
  LET fn == f[1] IN
  CASE fn = "addCoulombS"      -> DocCoulombS(S, Ix, f[2], f[3], f[4])
    [] fn = "addCoulombP"      -> DocCoulombP(S, Ix, f[2], f[3], f[4], f[5], f[6])
    [] fn = "addCoulombP3"     -> DocCoulombP(S, Ix, f[2], f[3], f[3] - 2 * f[4], f[4], f[5])
    [] fn = "addLevel"         -> DocLevel(S, Ix, f[2], f[3])
    [] fn = "addMagnetization" -> DocMagnetization(S, Ix, f[2], f[3])
    [] fn = "addSzSz"          -> DocSzSz(S, Ix, f[2], f[3], f[4])
    [] fn = "addSS"            -> DocSS(S, Ix, f[2], f[3], f[4])
    [] fn = "addHopping8"      -> DocHopping8(S, Ix, f[2], f[3], f[4], f[5], f[6], f[7], f[8])
    [] fn = "addHopping7"      -> DocHopping8(S, Ix, f[2], f[3], f[4], f[5], f[6], f[7], f[7])
    [] fn = "addHopping8c"     -> \* complex build: t c+_1 c_2 + conj(t) c+_2 c_1, t = (f[4] + i f[5]) / 4
          << PTerm(<< <<1, Ix(f[2], f[6], f[8])>>, <<0, Ix(f[3], f[7], f[9])>> >>, DocScale * f[4], DocScale * f[5]),
             PTerm(<< <<1, Ix(f[3], f[7], f[9])>>, <<0, Ix(f[2], f[6], f[8])>> >>, DocScale * f[4], -DocScale * f[5]) >>
    [] fn = "addHopping6"      -> DocHopping6(S, Ix, f[2], f[3], f[4], f[5], f[6])
    [] fn = "addHopping4"      -> DocHopping4(S, Ix, f[2], f[3], f[4])

\* the documented operator of one build call (numerators over 16)
DocCall(S, Ix(_, _, _), a) ==
  CASE a[1] = "AddTerm" -> << PTerm(TermMono(a[3], Ix), DocScale * a[3].v, IF "vi" \in DOMAIN a[3] THEN DocScale * a[3].vi ELSE 0) >>
    [] a[1] = "Factory" -> DocFactory(Ix, a[3], a[4])
    [] a[1] = "Preset"  -> DocPreset(S, Ix, a[3])
=============================================================================
