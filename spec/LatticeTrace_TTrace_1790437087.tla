---- MODULE LatticeTrace_TTrace_1790437087 ----
EXTENDS Sequences, TLCExt, Toolbox, Naturals, TLC, LatticeTrace

_expression ==
    LET LatticeTrace_TEExpression == INSTANCE LatticeTrace_TEExpression
    IN LatticeTrace_TEExpression!expression
----

_trace ==
    LET LatticeTrace_TETrace == INSTANCE LatticeTrace_TETrace
    IN LatticeTrace_TETrace!trace
----

_inv ==
    ~(
        TLCGet("level") = Len(_TETrace)
        /\
        ncalls = (1)
        /\
        terms = (<<<<>>, <<>>>>)
        /\
        sites = (<<[A |-> [orb |-> 1, spin |-> 2]], <<>>>>)
        /\
        lastVal = (<<>>)
        /\
        lastRes = ("ok")
        /\
        l = (3)
        /\
        lastAct = (<<"AddSite", 1, "A", 1, 2>>)
        /\
        live = ({1})
    )
----

_init ==
    /\ lastAct = _TETrace[1].lastAct
    /\ sites = _TETrace[1].sites
    /\ l = _TETrace[1].l
    /\ ncalls = _TETrace[1].ncalls
    /\ lastVal = _TETrace[1].lastVal
    /\ live = _TETrace[1].live
    /\ lastRes = _TETrace[1].lastRes
    /\ terms = _TETrace[1].terms
----

_next ==
    /\ \E i,j \in DOMAIN _TETrace:
        /\ \/ /\ j = i + 1
              /\ i = TLCGet("level")
        /\ lastAct  = _TETrace[i].lastAct
        /\ lastAct' = _TETrace[j].lastAct
        /\ sites  = _TETrace[i].sites
        /\ sites' = _TETrace[j].sites
        /\ l  = _TETrace[i].l
        /\ l' = _TETrace[j].l
        /\ ncalls  = _TETrace[i].ncalls
        /\ ncalls' = _TETrace[j].ncalls
        /\ lastVal  = _TETrace[i].lastVal
        /\ lastVal' = _TETrace[j].lastVal
        /\ live  = _TETrace[i].live
        /\ live' = _TETrace[j].live
        /\ lastRes  = _TETrace[i].lastRes
        /\ lastRes' = _TETrace[j].lastRes
        /\ terms  = _TETrace[i].terms
        /\ terms' = _TETrace[j].terms

\* Uncomment the ASSUME below to write the states of the error trace
\* to the given file in Json format. Note that you can pass any tuple
\* to `JsonSerialize`. For example, a sub-sequence of _TETrace.
    \* ASSUME
    \*     LET J == INSTANCE Json
    \*         IN J!JsonSerialize("LatticeTrace_TTrace_1790437087.json", _TETrace)

=============================================================================

 Note that you can extract this module `LatticeTrace_TEExpression`
  to a dedicated file to reuse `expression` (the module in the 
  dedicated `LatticeTrace_TEExpression.tla` file takes precedence 
  over the module `LatticeTrace_TEExpression` below).

---- MODULE LatticeTrace_TEExpression ----
EXTENDS Sequences, TLCExt, Toolbox, Naturals, TLC, LatticeTrace

expression == 
    [
        \* To hide variables of the `LatticeTrace` spec from the error trace,
        \* remove the variables below.  The trace will be written in the order
        \* of the fields of this record.
        lastAct |-> lastAct
        ,sites |-> sites
        ,l |-> l
        ,ncalls |-> ncalls
        ,lastVal |-> lastVal
        ,live |-> live
        ,lastRes |-> lastRes
        ,terms |-> terms
        
        \* Put additional constant-, state-, and action-level expressions here:
        \* ,_stateNumber |-> _TEPosition
        \* ,_lastActUnchanged |-> lastAct = lastAct'
        
        \* Format the `lastAct` variable as Json value.
        \* ,_lastActJson |->
        \*     LET J == INSTANCE Json
        \*     IN J!ToJson(lastAct)
        
        \* Lastly, you may build expressions over arbitrary sets of states by
        \* leveraging the _TETrace operator.  For example, this is how to
        \* count the number of times a spec variable changed up to the current
        \* state in the trace.
        \* ,_lastActModCount |->
        \*     LET F[s \in DOMAIN _TETrace] ==
        \*         IF s = 1 THEN 0
        \*         ELSE IF _TETrace[s].lastAct # _TETrace[s-1].lastAct
        \*             THEN 1 + F[s-1] ELSE F[s-1]
        \*     IN F[_TEPosition - 1]
    ]

=============================================================================



Parsing and semantic processing can take forever if the trace below is long.
 In this case, it is advised to uncomment the module below to deserialize the
 trace from a generated binary file.

\*
\*---- MODULE LatticeTrace_TETrace ----
\*EXTENDS IOUtils, TLC, LatticeTrace
\*
\*trace == IODeserialize("LatticeTrace_TTrace_1790437087.bin", TRUE)
\*
\*=============================================================================
\*

---- MODULE LatticeTrace_TETrace ----
EXTENDS TLC, LatticeTrace

trace == 
    <<
    ([ncalls |-> 0,terms |-> <<<<>>, <<>>>>,sites |-> <<<<>>, <<>>>>,lastVal |-> <<>>,lastRes |-> "ok",l |-> 1,lastAct |-> <<"Init">>,live |-> {1}]),
    ([ncalls |-> 0,terms |-> <<<<>>, <<>>>>,sites |-> <<<<>>, <<>>>>,lastVal |-> <<>>,lastRes |-> "ok",l |-> 2,lastAct |-> <<"Init">>,live |-> {1}]),
    ([ncalls |-> 1,terms |-> <<<<>>, <<>>>>,sites |-> <<[A |-> [orb |-> 1, spin |-> 2]], <<>>>>,lastVal |-> <<>>,lastRes |-> "ok",l |-> 3,lastAct |-> <<"AddSite", 1, "A", 1, 2>>,live |-> {1}])
    >>
----


=============================================================================

---- CONFIG LatticeTrace_TTrace_1790437087 ----
CONSTANTS
    Labels = { "A" , "B" , "Z" }
    MaxOrb = 3
    MaxSpin = 3
    Amps = { 0 }
    MaxCalls = 1000000

INVARIANT
    _inv

CHECK_DEADLOCK
    \* CHECK_DEADLOCK off because of PROPERTY or INVARIANT above.
    FALSE

INIT
    _init

NEXT
    _next

CONSTANT
    _TETrace <- _trace

ALIAS
    _expression
=============================================================================
\* Generated on Sat Sep 26 15:38:08 UTC 2026