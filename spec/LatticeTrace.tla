---------------------------- MODULE LatticeTrace ----------------------------
(* Trace validation: a log recorded from the real Lattice / LatticePresets *)
(* (harness kind "lattice", one line per public call, logged at the return *)
(* of the call -- also on the exception path -- with the projected state)  *)
(* must be a behaviour of Lattice.tla.  Many executions are concatenated;   *)
(* a "Begin" line resets the specification state.                           *)
EXTENDS Lattice, Json, IOUtils, FiniteSetsExt

Tr == ndJsonDeserialize(IOEnv.TRACE)

VARIABLE l
tvars == <<vars, l>>

TraceInit == Init /\ l = 1

Cur == Tr[l]
IsEvent(e) == l <= Len(Tr) /\ Tr[l].e = e /\ l' = l + 1

\* projected-state comparison -------------------------------------------------
RangeOf(s) == {s[i] : i \in 1..Len(s)}
BagOf(s) == [x \in RangeOf(s) |-> Cardinality({i \in 1..Len(s) : s[i] = x})]
SameBag(s, t) == Len(s) = Len(t) /\ BagOf(s) = BagOf(t)

SitesMatch(S, logged) == /\ DOMAIN S = DOMAIN logged
                         /\ \A x \in DOMAIN S : S[x].orb = logged[x].orb /\ S[x].spin = logged[x].spin
StateMatches(e) ==
   /\ \A k \in LatId : SitesMatch(sites'[k], e.sites[k])
   /\ \A k \in LatId : SameBag(terms'[k], e.terms[k])
   /\ live' = RangeOf(e.live)

\* dispatch of a logged call to the specification action ------------------------
Dispatch(a) ==
  LET n == a[1] IN
  CASE n = "AddSite" -> AddSite(a[2], a[3], a[4], a[5])
    [] n = "AddTerm" -> AddTerm(a[2], a[3])
    [] n = "Copy"    -> Copy
    [] n = "GetSite" -> GetSite(a[2], a[3])
    [] n = "GetTerms" -> GetTerms(a[2], a[3])
    [] n = "GetMaxOrder" -> GetMaxOrder(a[2])
    [] n = "Factory" ->
        LET k == a[2]  f == a[3]  v == a[4]  fn == f[1] IN
       (CASE fn = "NupNdown"    -> AddFactoryTerm(k, f, TRUE, TNupNdown(f[2], f[3], f[4], f[5], f[6], f[7]), v)
          [] fn = "Spinflip"    -> AddFactoryTerm(k, f, SpinflipDefined(f[3], f[4], f[5], f[6]), TSpinflip(f[2], f[3], f[4], f[5], f[6]), v)
          [] fn = "PairHopping" -> AddFactoryTerm(k, f, SpinflipDefined(f[3], f[4], f[5], f[6]), TPairHopping(f[2], f[3], f[4], f[5], f[6]), v)
          [] fn = "SplusSminus" -> AddFactoryTerm(k, f, TRUE, TSplusSminus(f[2], f[3], f[4]), v)
          [] fn = "SminusSplus" -> AddFactoryTerm(k, f, TRUE, TSminusSplus(f[2], f[3], f[4]), v)
          [] fn = "Level"       -> AddFactoryTerm(k, f, TRUE, TLevel(f[2], f[3], f[4]), v)
          [] fn = "Hopping"     -> AddFactoryTerm(k, f, TRUE, THopping(f[2], f[3], f[4], f[5], f[6], f[7]), v))
    [] n = "Preset" ->
        LET pk == a[2]  pf == a[3]  pfn == pf[1]  S == sites[pk] IN
       (CASE pfn = "addCoulombS"      -> Preset(pk, pf, CoulombS(S, pf[2], pf[3], pf[4]))
          [] pfn = "addCoulombP"      -> Preset(pk, pf, CoulombP(S, pf[2], pf[3], pf[4], pf[5], pf[6]))
          [] pfn = "addCoulombP3"     -> Preset(pk, pf, CoulombP(S, pf[2], pf[3], pf[3] - 2 * pf[4], pf[4], pf[5]))
          [] pfn = "addLevel"         -> Preset(pk, pf, LevelP(S, pf[2], pf[3]))
          [] pfn = "addMagnetization" -> Preset(pk, pf, Magnetization(S, pf[2], pf[3]))
          [] pfn = "addSzSz"          -> Preset(pk, pf, SzSz(S, pf[2], pf[3], pf[4]))
          [] pfn = "addSS"            -> Preset(pk, pf, SS(S, pf[2], pf[3], pf[4]))
          [] pfn = "addHopping8"      -> Preset(pk, pf, Hopping8(S, pf[2], pf[3], pf[4], pf[5], pf[6], pf[7], pf[8]))
          [] pfn = "addHopping7"      -> Preset(pk, pf, Hopping8(S, pf[2], pf[3], pf[4], pf[5], pf[6], pf[7], pf[7]))
          [] pfn = "addHopping6"      -> Preset(pk, pf, Hopping6(S, pf[2], pf[3], pf[4], pf[5], pf[6]))
          [] pfn = "addHopping4"      -> Preset(pk, pf, Hopping4(S, pf[2], pf[3], pf[4])))

\* value returned by a getter, as logged
ValMatches(e) ==
  CASE e.act[1] = "GetSite" /\ e.res = "ok" -> lastVal' = e.val
    [] e.act[1] = "GetTerms"                -> SameBag(lastVal', e.val)
    [] e.act[1] = "GetMaxOrder"             -> lastVal' = e.val
    [] OTHER -> TRUE

TraceCall == /\ IsEvent("Call")
             /\ Dispatch(Cur.act)
             /\ lastRes' = Cur.res
             /\ ValMatches(Cur)
             /\ StateMatches(Cur)

TraceBegin == /\ IsEvent("Begin")
              /\ sites' = [k \in LatId |-> <<>>] /\ terms' = [k \in LatId |-> <<>>] /\ live' = {1}
              /\ lastAct' = <<"Init">> /\ lastRes' = "ok" /\ lastVal' = NoVal /\ ncalls' = 0

TraceEnd == IsEvent("End") /\ UNCHANGED vars

TraceNext == TraceCall \/ TraceBegin \/ TraceEnd
TraceSpec == TraceInit /\ [][TraceNext]_tvars

TraceAccepted ==
  LET d == TLCGet("stats").diameter IN
  IF d - 1 = Len(Tr) THEN TRUE
  ELSE Print(<<"@@REJECT", d - 1, Len(Tr)>>, FALSE)
=============================================================================
