--------------------------- MODULE DispatcherCancel ---------------------------
(***************************************************************************)
(* What Dispatcher.tla ASSUMES about MPI_Cancel, made explicit.            *)
(* On Finish the worker re-posts its receive and cancels it at once         *)
(* (MPIWorker::receive_order); boost::mpi::request::cancel() does not wait  *)
(* for the cancellation to complete.  Dispatcher.tla treats the cancel as   *)
(* effective before the next round starts.  Here a cancelled receive may    *)
(* still be pending (stale) when the next round begins; MPI then allows it  *)
(* to match the first message for that rank instead ("either the cancel or  *)
(* the receive succeeds").  TLC shows the consequence: the order is         *)
(* swallowed, the job never runs and the round never ends -- so the         *)
(* assumption is necessary, and it holds for the MPI library used here      *)
(* (Open MPI removes an unmatched posted receive synchronously).            *)
(* Not used by any check's verdict; documented in DESIGN.md 9.              *)
(***************************************************************************)
EXTENDS Dispatcher
VARIABLE stale            \* [Ranks -> BOOLEAN]: a cancelled receive of the previous round is still posted
cvars == <<vars, stale>>
InitC == Init /\ stale = [r \in Ranks |-> FALSE]
Swallow(w) == /\ stale[w] /\ flightW[w] # <<>>
              /\ flightW' = [flightW EXCEPT ![w] = Tail(@)]          \* matched by the stale receive: lost to the new worker
              /\ stale' = [stale EXCEPT ![w] = FALSE]
              /\ UNCHANGED <<pc, arrivedW, flightM, arrivedM, jobStack, workerStack, dispatch, waitReq, finishSent, wStatus, curJob, ran, round>>
NextC == \/ (Order \/ CheckWorkers \/ \E r \in Ranks : Proc(r) \/ DeliverM(r)) /\ UNCHANGED stale
         \/ NextRound /\ stale' \in [Ranks -> BOOLEAN]
         \/ \E w \in Ranks : DeliverW(w) /\ ~stale[w] /\ UNCHANGED stale
         \/ \E w \in Ranks : Swallow(w)
SpecC == InitC /\ [][NextC]_cvars
FairSpecC == SpecC /\ WF_cvars(Order /\ UNCHANGED stale) /\ WF_cvars(CheckWorkers /\ UNCHANGED stale) /\ WF_cvars(NextRound /\ stale' \in [Ranks -> BOOLEAN])
                   /\ \A r \in Ranks : WF_cvars(Proc(r) /\ UNCHANGED stale) /\ WF_cvars((DeliverW(r) /\ ~stale[r] /\ UNCHANGED stale) \/ Swallow(r)) /\ WF_cvars(DeliverM(r) /\ UNCHANGED stale)
=============================================================================
