----------------------------- MODULE SymmetryMC -----------------------------
(* Design level of the symmetry analysis against its definition level: for every model of a small catalogue and     *)
(* every list of candidate integrals of motion drawn from a catalogue, the partition built from the ACCEPTED         *)
(* candidates is sound (blocks without gaps, H block diagonal, every c, c^+, c^+c maps a block into at most one      *)
(* block, bimaps faithful).  Linear candidates and the fermion parity in the main configuration; the configuration     *)
(* "NonLinear" adds products n_i n_j and shows the unsoundness recorded as known finding F14.                        *)
EXTENDS Symmetry, SequencesExt
CONSTANT AllowNonLinear
VARIABLES model, cands

T(m, re) == PTerm(m, re, 0)
Hop(i, j, t) == << T(<<Cr(i), An(j)>>, t), T(<<Cr(j), An(i)>>, t) >>
NN(i, j, u) == << T(<<Cr(i), An(i), Cr(j), An(j)>>, u) >>
Lev(i, e) == << T(Num(i), e) >>
Models == <<
  [M |-> 2, spins |-> <<0, 1>>, H |-> <<>>],                                                         \* H = 0
  [M |-> 2, spins |-> <<0, 1>>, H |-> Lev(0, -1) \o Lev(1, -1) \o NN(0, 1, 2)],                        \* Hubbard atom
  [M |-> 2, spins |-> <<0, 1>>, H |-> Hop(0, 1, 1) \o NN(0, 1, 2)],                                   \* transverse field: S_z broken
  [M |-> 2, spins |-> <<0, 1>>, H |-> << T(<<Cr(1), Cr(0)>>, 1), T(<<An(0), An(1)>>, 1) >> \o Lev(0, 1)],  \* pair field: N broken
  [M |-> 3, spins |-> <<0, 0, 0>>, H |-> Hop(0, 1, 1) \o Hop(1, 2, -1) \o Lev(2, 2)],                  \* spinless chain
  [M |-> 3, spins |-> <<0, 1, 0>>, H |-> Hop(0, 2, 1) \o NN(0, 1, 2) \o Lev(1, -1)],                  \* spinful site + spinless site
  [M |-> 3, spins |-> <<0, 1, 2>>, H |-> Hop(0, 1, 1) \o Lev(2, 1)],                                   \* three spin components: no S_z candidate
  [M |-> 4, spins |-> <<0, 1, 0, 1>>, H |-> Hop(0, 2, 1) \o Hop(1, 3, 1) \o NN(0, 1, 2) \o NN(2, 3, 2)]  \* Hubbard dimer
>>
Linear(M) == { <<<<1, 1, <<i>>>>>> : i \in 0..(M - 1) } \cup
             { [i \in 1..M |-> <<i, 1, <<i - 1>>>>] } \cup              \* sum i n_i
             { [i \in 1..M |-> <<1, 10, <<i - 1>>>>] }                   \* N/10
NonLinear(M) == { <<<<1, 1, <<i, j>>>>>> : i, j \in 0..(M - 1) } \ { <<<<1, 1, <<i, i>>>>>> : i \in 0..(M - 1) }
\* the fermion parity (-1)^N = prod_i (1 - 2 n_i): conserved by every H with an even number of operators per term, NOT linear in the n_i
\* (and its linear part 1 - 2N is not conserved by the pair-field model); c and c^+ flip it, so it keeps every field operator single-target --
\* unlike the products n_i n_j, which the "NonLinear" configuration shows to be unsound
RECURSIVE Pow(_, _)
Pow(b, k) == IF k = 0 THEN 1 ELSE b * Pow(b, k - 1)
Parity(M) == LET subs == SetToSeq(SUBSET (0..(M - 1))) IN
             [k \in 1..Len(subs) |-> <<Pow(-2, Cardinality(subs[k])), 1, SetToSortSeq(subs[k], LAMBDA a, b : a < b)>>]
Pool(M) == Linear(M) \cup {Parity(M)} \cup (IF AllowNonLinear THEN NonLinear(M) ELSE {})
Init == /\ model \in 1..Len(Models)
        /\ \/ cands = <<"default">>
           \/ cands = <<"ignore">>
           \/ \E a \in Pool(Models[model].M) : cands = <<"custom", <<a>>>>
           \/ \E a, b \in Pool(Models[model].M) : cands = <<"custom", <<a, b>>>>
Next == UNCHANGED <<model, cands>>
Spec == Init /\ [][Next]_<<model, cands>>
Mo == Models[model]
HM == PolyMat(Mo.H, Mo.M)
Accepted == CASE cands[1] = "default" -> Filter(HM, DefaultCandidates(Mo.spins), Mo.M)
              [] cands[1] = "ignore"  -> <<>>
              [] OTHER                -> Filter(HM, cands[2], Mo.M)
Blk == BlocksOf(Accepted, Mo.M)
IsSound == Sound(HM, Blk, Mo.M)
HHermitian == Hermitian(HM)
\* non-vacuity: the parity is accepted for every model of the catalogue (and then splits the Fock space into the even and the odd block)
ParityAccepted == cands = <<"custom", <<Parity(Mo.M)>>>> => Len(Accepted) = 1 /\ NBlocks(Blk) = 2
=============================================================================
