------------------------------ MODULE WickCGen ------------------------------
EXTENDS WickC, Json, IOUtils, TLC
Hs == ndJsonDeserialize(IOEnv.MODELS)
VARIABLE k
Init == k \in 1..Len(Hs)
Next == UNCHANGED k
Spec == Init /\ [][Next]_k
H == Hs[k].h
Checks == Hermitian(H) /\ Exact(H) /\ Identity(H) /\ RealDet(H)
Emit == PrintT("@@PV " \o ToJson([id |-> Hs[k].id, n |-> Len(H), det |-> DetPoly(H),
           num |-> [i \in 1..Len(H) |-> [j \in 1..Len(H) |-> NumPoly(H, i, j)]]]))
=============================================================================
