---------------------------- MODULE SymmetryTrace ----------------------------
(* C07 conformance: the partition, the (block, position) addresses and the block-to-block maps recorded from the     *)
(* real Symmetrizer / StatesClassification / FieldOperator (harness query "c07") must satisfy the definition level   *)
(* of Symmetry.tla for the exact Hamiltonian of the lattice (documented operators of the build calls).                *)
(* Whether the recorded partition also EQUALS the design level's prediction is counted, not required (a              *)
(* re-numbering of blocks is not a violation).                                                                       *)
EXTENDS Symmetry, Hamiltonian, Json, IOUtils
Tr == ndJsonDeserialize(IOEnv.TRACE)
VARIABLES l, ndesign
IsEvent(e) == l <= Len(Tr) /\ Tr[l].e = e /\ l' = l + 1
SetOf(s) == {s[i] : i \in 1..Len(s)}
SitesOf(e) == [lab \in {e.sites[i][1] : i \in 1..Len(e.sites)} |->
                 LET i == CHOOSE j \in 1..Len(e.sites) : e.sites[j][1] = lab /\ \A k \in (j + 1)..Len(e.sites) : e.sites[k][1] # lab IN
                 [orb |-> e.sites[i][2], spin |-> e.sites[i][3]]]
RecBimap(e, op) == LET k == CHOOSE j \in 1..Len(e.bimaps) : e.bimaps[j][1] = op IN SetOf(e.bimaps[k][2])
TraceC07 ==
  /\ IsEvent("Q")
  /\ LET e == Tr[l]
         M == e.M
         S == SitesOf(e)
         Ix(lab, o, s) == (CHOOSE i \in 1..Len(e.tab) : e.tab[i] = <<lab, o, s>>) - 1
         H == PolyMat(Flatten([i \in 1..Len(e.calls) |-> DocCall(S, Ix, e.calls[i])]), M)
         blk == e.block IN
       /\ "fail" \notin DOMAIN e /\ "ex" \notin DOMAIN e            \* the analysis completes without error
       /\ PartitionOK(blk, M) /\ e.nblocks = NBlocks(blk)
       /\ \A s \in 0..(Pow2(M) - 1) : e.roundtrip[s + 1] = s /\ e.inner[s + 1] < e.sizes[blk[s + 1] + 1]
       /\ \A s, t \in 0..(Pow2(M) - 1) : (s # t /\ blk[s + 1] = blk[t + 1]) => e.inner[s + 1] # e.inner[t + 1]
       /\ \A b \in 0..(NBlocks(blk) - 1) : e.sizes[b + 1] = Cardinality(StatesOf(blk, b))
       /\ HBlockDiagonal(H, blk)
       /\ e.cross = <<>>      \* the library's own operator expression of H (which may carry terms too small for this specification's
                              \* rational arithmetic, scenario field "tiny") has no element between different recorded blocks either
       /\ \A op \in FieldOps(M) : SingleTarget(op, blk) /\ BimapFaithful(op, blk, RecBimap(e, op))
       /\ ndesign' = ndesign + (IF \A op \in FieldOps(M) : RecBimap(e, op) = Bimap(op, blk) THEN 1 ELSE 0)
TraceInit == l = 1 /\ ndesign = 0
TraceSpec == TraceInit /\ [][TraceC07]_<<l, ndesign>>
TraceAccepted ==
  LET d == TLCGet("stats").diameter IN
  IF d - 1 = Len(Tr) THEN TRUE ELSE Print(<<"@@REJECT", d - 1, Len(Tr)>>, FALSE)
=============================================================================
