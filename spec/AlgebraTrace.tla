---------------------------- MODULE AlgebraTrace ----------------------------
(* Validates what the real Operator arithmetic returned (harness kinds "algebra", "nsz") against Fermion.tla:      *)
(* products are compositions of Jordan-Wigner actions, nothing else.                                               *)
EXTENDS OperatorAlgebra, Json, IOUtils, TLC
Tr == ndJsonDeserialize(IOEnv.TRACE)
VARIABLE l
IsEvent(e) == l <= Len(Tr) /\ Tr[l].e = e /\ l' = l + 1
SetOf(s) == {s[i] : i \in 1..Len(s)}
PolyOf(p) == [i \in 1..Len(p) |-> PTerm(p[i][3], p[i][1], p[i][2])]
Logged(x) == SetOf(x)

TraceAlg ==
  /\ IsEvent("Alg")
  /\ LET e == Tr[l]  M == e.M
         A == PolyMat(PolyOf(e.A), M)  B == PolyMat(PolyOf(e.B), M)
         al == <<e.alpha[1], e.alpha[2]>> IN
       /\ "ex" \notin DOMAIN e
       /\ Logged(e.mA) = Entries(A) /\ Logged(e.mB) = Entries(B)
       /\ Logged(e.mul) = Entries(MMul(A, B))
       /\ Logged(e.add) = Entries(MAdd(A, B))
       /\ Logged(e.sub) = Entries(MSub(A, B))
       /\ Logged(e.scale) = Entries(MScale(al, A))          \* A * alpha; the scalar may be alpha * 2^-k (field alpha_log2), the entries are then logged times 2^k
       /\ ("scale_l" \in DOMAIN e) => Logged(e.scale_l) = Entries(MScale(al, A)) /\ Logged(e.scale_c) = Entries(MScale(al, A))     \* alpha * A, A *= alpha
       /\ Logged(e.neg) = Entries(MScale(<<-1, 0>>, A))
       /\ Logged(e.comm) = Entries(MComm(A, B))
       /\ Logged(e.anti) = Entries(MAnti(A, B))
       /\ Logged(e.selfmul) = Entries(MMul(A, A)) /\ Logged(e.selfadd) = Entries(MAdd(A, A)) /\ Logged(e.selfsub) = {}     \* P *= P, P += P, P -= P
       /\ Logged(e.vec0) = Entries(A) /\ Logged(e.vec1) = Entries(A) /\ Logged(e.vec2) = Entries(MMul(A, B))   \* vector overload, any basis order
       /\ e.commutes = (MComm(A, B) = Zero)
       /\ e.equal = (A = B)
       /\ e.equal_self
       /\ LET mp == PolyOf(e.mulpoly) IN
            /\ PolyMat(mp, M) = MMul(A, B)
            /\ \A i \in 1..Len(mp) : IsNormal(mp[i].m)
       /\ ("C" \in DOMAIN e) =>
            LET C == PolyMat(PolyOf(e.C), M) IN
              /\ Logged(e.assocL) = Entries(MMul(MMul(A, B), C))
              /\ Logged(e.assocR) = Entries(MMul(A, MMul(B, C)))

\* rows: <<ket, N.short, N.generic, 2Sz.short, 2Sz.generic, N(bra=ket), 2Sz(bra=ket), actRight diagonal, N.act, 2Sz.act>>
TraceNSz ==
  /\ IsEvent("NSz")
  /\ LET e == Tr[l]  up == SetOf(e.up)
         down == IF "down" \in DOMAIN e THEN SetOf(e.down) ELSE (0..(e.M - 1)) \ SetOf(e.up) IN      \* two-list constructor: spectator modes allowed
       /\ "ex" \notin DOMAIN e
       /\ e.offdiag_zero
       /\ \A i \in 1..Len(e.rows) :
            LET r == e.rows[i]  s == r[1]
                n == PopCount(s)
                sz2 == Cardinality({x \in up : Bit(s, x) = 1}) - Cardinality({x \in down : Bit(s, x) = 1}) IN
              /\ r[2] = n /\ r[3] = n /\ r[6] = n /\ r[9] = n
              /\ r[4] = sz2 /\ r[5] = sz2 /\ r[7] = sz2 /\ r[10] = sz2
              /\ r[8]
\* many modes (Fock states beyond one machine word): rows <<monomial, occupied modes of the ket, sign, occupied modes of the image>>,
\* sign = 0 when the library's actRight returns nothing
TraceBig ==
  /\ IsEvent("Big")
  /\ LET e == Tr[l] IN
       /\ "ex" \notin DOMAIN e
       /\ \A i \in 1..Len(e.rows) :
            LET r == e.rows[i]
                a == ActMonoSet(r[1], SetOf(r[2])) IN
              /\ a.sign = r[3]
              /\ a.sign # 0 => a.occ = SetOf(r[4])
TraceInit == l = 1
TraceNext == TraceAlg \/ TraceNSz \/ TraceBig
TraceSpec == TraceInit /\ [][TraceNext]_l
TraceAccepted ==
  LET d == TLCGet("stats").diameter IN
  IF d - 1 = Len(Tr) THEN TRUE ELSE Print(<<"@@REJECT", d - 1, Len(Tr)>>, FALSE)
=============================================================================
