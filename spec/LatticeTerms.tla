----------------------------- MODULE LatticeTerms -----------------------------
(***************************************************************************)
(* Pure definitions shared by the lattice state machine (Lattice.tla) and  *)
(* the Hamiltonian modules: operators of a term, the term factories of     *)
(* Lattice::Term::Presets, the validation rule of Lattice::addTerm and the *)
(* term lists appended by every LatticePresets::add* call, transcribed     *)
(* from LatticePresets.cpp.  Amplitudes are numerators over 4.             *)
(***************************************************************************)
EXTENDS Naturals, Integers, Sequences, FiniteSets, TLC

SpUp == 1
SpDown == 0
NoVal == <<>>

Op(c, l, o, s) == <<c, l, o, s>>

----------------------------------------------------------------------------
(* Term factories: Lattice::Term::Presets.  Each returns a sequence of ops *)
(* or "throws" (the caller tests the guard first).                          *)

THopping(l1, l2, o1, o2, s1, s2) == << Op(1, l1, o1, s1), Op(0, l2, o2, s2) >>
TLevel(l, o, s)                  == << Op(1, l, o, s), Op(0, l, o, s) >>
TNupNdown(l1, l2, o1, o2, s1, s2) ==
    IF l1 = l2 /\ s1 = s2 /\ o1 = o2
    THEN TLevel(l1, o1, s1)       \* documented degenerate case: returns a Level term
    ELSE << Op(1, l1, o1, s1), Op(0, l1, o1, s1), Op(1, l2, o2, s2), Op(0, l2, o2, s2) >>
SpinflipDefined(o1, o2, s1, s2)  == o1 # o2 /\ s1 # s2
TSpinflip(l, o1, o2, s1, s2)     == << Op(1, l, o1, s1), Op(1, l, o2, s2), Op(0, l, o2, s1), Op(0, l, o1, s2) >>
TPairHopping(l, o1, o2, s1, s2)  == << Op(1, l, o1, s1), Op(1, l, o1, s2), Op(0, l, o2, s1), Op(0, l, o2, s2) >>
TSplusSminus(l1, l2, o)          == << Op(1, l1, o, SpUp), Op(0, l1, o, SpDown), Op(1, l2, o, SpDown), Op(0, l2, o, SpUp) >>
TSminusSplus(l1, l2, o)          == << Op(1, l1, o, SpDown), Op(0, l1, o, SpUp), Op(1, l2, o, SpUp), Op(0, l2, o, SpDown) >>

Term(ops, v) == [ops |-> ops, v |-> v]

----------------------------------------------------------------------------
(* Validation performed by Lattice::addTerm, in the order of the code.     *)

Known(S, l)     == l \in DOMAIN S
OpValid(S, op)  == /\ Known(S, op[2])
                   /\ op[3] < S[op[2]].orb
                   /\ op[4] < S[op[2]].spin
TermValid(S, t) == \A i \in 1..Len(t.ops) : OpValid(S, t.ops[i])

\* What addTerm does to the storage of one lattice: validate, then zero filter.
AddTermTo(S, T, t) == IF ~TermValid(S, t) THEN [res |-> "reject", T |-> T]
                      ELSE IF t.v = 0 THEN [res |-> "ok", T |-> T]
                      ELSE [res |-> "ok", T |-> Append(T, t)]

\* Sequence helpers
RECURSIVE Flatten(_)
Flatten(ss) == IF ss = <<>> THEN <<>> ELSE Head(ss) \o Flatten(Tail(ss))
SeqFor(n, F(_)) == [i \in 1..n |-> F(i - 1)]          \* F(0), ..., F(n-1)
NonZero(ts) == SelectSeq(ts, LAMBDA t : t.v # 0)

----------------------------------------------------------------------------
(* LatticePresets: the exact list of terms each preset appends (in the     *)
(* code's order), as documented in LatticePresets.h.  `guard' = the call   *)
(* is defined; otherwise the preset rejects and nothing is added.          *)
(* Presets marked (raw) write to the storage directly: no zero filter      *)
(* other than the one spelled out.                                         *)

CoulombS(S, l, U, eps) ==
  [guard |-> Known(S, l),
   add   |-> IF ~Known(S, l) THEN <<>> ELSE
     Flatten(SeqFor(S[l].orb, LAMBDA i :
       Flatten(SeqFor(S[l].spin, LAMBDA z1 :
          (IF eps # 0 THEN << Term(TLevel(l, i, z1), eps) >> ELSE <<>>) \o
          Flatten(SeqFor(z1, LAMBDA z2 :
             IF U # 0 THEN << Term(TNupNdown(l, l, i, i, z1, z2), U) >> ELSE <<>>))))))]

\* (U' - J)/2 over denominator 4:  numerators  (Upr - J) \div 2  -- Upr, J are numerators over 4 of
\* even parity in the catalogue, so the division is exact (ASSUME below).
CoulombP(S, l, U, Upr, J, eps) ==
  [guard |-> Known(S, l) /\ S[l].orb > 1 /\ S[l].spin > 1,
   add   |-> IF ~(Known(S, l) /\ S[l].orb > 1 /\ S[l].spin > 1) THEN <<>> ELSE
     Flatten(SeqFor(S[l].orb, LAMBDA i :
       Flatten(SeqFor(S[l].spin, LAMBDA z1 :
          (IF eps # 0 THEN << Term(TLevel(l, i, z1), eps) >> ELSE <<>>) \o
          Flatten(SeqFor(S[l].orb, LAMBDA j :
             IF i # j THEN << Term(TNupNdown(l, l, i, j, z1, z1), (Upr - J) \div 2) >> ELSE <<>>)) \o
          Flatten(SeqFor(z1, LAMBDA z2 :
             (IF U # 0 THEN << Term(TNupNdown(l, l, i, i, z1, z2), U) >> ELSE <<>>) \o
             Flatten(SeqFor(S[l].orb, LAMBDA j :
                IF i = j THEN <<>> ELSE
                  (IF Upr # 0 THEN << Term(TNupNdown(l, l, i, j, z1, z2), Upr) >> ELSE <<>>) \o
                  (IF J # 0 THEN << Term(TSpinflip(l, i, j, z1, z2), -J),
                                    Term(TPairHopping(l, i, j, z1, z2), -J) >> ELSE <<>>)))))))))]

LevelP(S, l, eps) ==
  [guard |-> Known(S, l),
   add   |-> IF ~Known(S, l) THEN <<>> ELSE
     Flatten(SeqFor(S[l].orb, LAMBDA i :
       Flatten(SeqFor(S[l].spin, LAMBDA z :
          IF eps # 0 THEN << Term(TLevel(l, i, z), eps) >> ELSE <<>>))))]

Magnetization(S, l, m) ==
  [guard |-> Known(S, l) /\ S[l].spin = 2,
   add   |-> IF ~(Known(S, l) /\ S[l].spin = 2) THEN <<>> ELSE
     Flatten(SeqFor(S[l].orb, LAMBDA i :
        << Term(TLevel(l, i, SpUp), m), Term(TLevel(l, i, SpDown), -m) >>))]

SameShape(S, l1, l2) == S[l1].orb = S[l2].orb /\ S[l1].spin = S[l2].spin

\* J/4: J is a numerator over 4 divisible by 4 in the catalogue (ASSUME below).
SzSzTerms(S, l1, l2, J) ==
     Flatten(SeqFor(S[l1].orb, LAMBDA i :
        << Term(TNupNdown(l1, l2, i, i, SpUp, SpDown), -(J \div 4)),
           Term(TNupNdown(l1, l2, i, i, SpDown, SpUp), -(J \div 4)) >> \o
        (IF l1 # l2
         THEN << Term(TNupNdown(l1, l2, i, i, SpUp, SpUp), J \div 4),
                 Term(TNupNdown(l1, l2, i, i, SpDown, SpDown), J \div 4) >>
         ELSE << Term(TLevel(l1, i, SpUp), J \div 4), Term(TLevel(l1, i, SpDown), J \div 4) >>)))

SzSzGuard(S, l1, l2) == Known(S, l1) /\ Known(S, l2) /\ SameShape(S, l1, l2) /\ S[l1].spin = 2

SzSz(S, l1, l2, J) ==
  [guard |-> SzSzGuard(S, l1, l2),
   add   |-> IF ~SzSzGuard(S, l1, l2) THEN <<>> ELSE SzSzTerms(S, l1, l2, J)]

SS(S, l1, l2, J) ==
  [guard |-> SzSzGuard(S, l1, l2),
   add   |-> IF ~SzSzGuard(S, l1, l2) THEN <<>> ELSE
      SzSzTerms(S, l1, l2, J) \o
      Flatten(SeqFor(S[l1].orb, LAMBDA i :
        << Term(TSplusSminus(l1, l2, i), J \div 2), Term(TSminusSplus(l1, l2, i), J \div 2) >>))]

\* addHopping goes through Lattice::addTerm, hence the zero filter (NonZero); real build: t is real.
Hop2(l1, l2, t, o1, o2, s1, s2) ==
  NonZero(<< Term(THopping(l1, l2, o1, o2, s1, s2), t), Term(THopping(l2, l1, o2, o1, s2, s1), t) >>)

Hopping8(S, l1, l2, t, o1, o2, s1, s2) ==
  LET g == Known(S, l1) /\ Known(S, l2) /\ o1 < S[l1].orb /\ o2 < S[l2].orb /\ s1 < S[l1].spin /\ s2 < S[l2].spin IN
  [guard |-> g, add |-> IF ~g THEN <<>> ELSE Hop2(l1, l2, t, o1, o2, s1, s2)]

Hopping6(S, l1, l2, t, o1, o2) ==
  LET g == Known(S, l1) /\ Known(S, l2) /\ o1 < S[l1].orb /\ o2 < S[l2].orb /\ S[l1].spin = S[l2].spin IN
  [guard |-> g,
   add   |-> IF ~g THEN <<>> ELSE Flatten(SeqFor(S[l1].spin, LAMBDA z : Hop2(l1, l2, t, o1, o2, z, z)))]

Hopping4(S, l1, l2, t) ==
  LET g == Known(S, l1) /\ Known(S, l2) /\ SameShape(S, l1, l2) IN
  [guard |-> g,
   add   |-> IF ~g THEN <<>> ELSE
      Flatten(SeqFor(S[l1].spin, LAMBDA z :
        Flatten(SeqFor(S[l1].orb, LAMBDA i : Hop2(l1, l2, t, i, i, z, z)))))]

----------------------------------------------------------------------------
=============================================================================
