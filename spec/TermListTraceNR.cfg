SPECIFICATION TraceSpec
CONSTANTS
  Kind = "NR"
  TolN = 22
  TolD = 5
  CTolN = 5
  CTolD = 2
  Cands = {}
  MaxAdds = 1000000
  Pinned = FALSE
INVARIANTS TypeOK Accounted NoEquivalentPair WeightsRight PolesClose Conservation
POSTCONDITION TraceAccepted
CHECK_DEADLOCK FALSE
