SPECIFICATION MCSpec
CONSTANTS
  Kind = "R"
  TolN = 22
  TolD = 5
  CTolN = 5
  CTolD = 2
  Cands <- CandsR
  MaxAdds = 3
  Pinned = TRUE
  EmitTrans = FALSE
INVARIANTS TypeOK Accounted NoEquivalentPair WeightsRight PolesClose Conservation
CHECK_DEADLOCK FALSE
