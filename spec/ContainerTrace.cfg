SPECIFICATION TraceSpec
CONSTANTS
  NModes = 4
  IndexSets = {}
  HasParts = {}
  FillClearsNT = TRUE
  MaxCalls = 1000000
INVARIANTS TypeOK AliasSound OwnerSound EvaluableAfterBulk
POSTCONDITION TraceAccepted
CHECK_DEADLOCK FALSE
