SPECIFICATION Spec
CONSTANT Guarded = TRUE
INVARIANTS NoOOB FindsAll
CHECK_DEADLOCK FALSE
