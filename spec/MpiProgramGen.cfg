SPECIFICATION Spec
CONSTANTS
  P = 1
  B = 2
  KK = 1
  N1 = 1
  N2 = 0
  N3 = 0
  N4 = 0
  NParts <- NPartsDef
  Clear = FALSE
  Split = TRUE
  SkelBarrierOnWorld = FALSE
  RootIsLowest = TRUE
  StatusEverywhere = TRUE
INVARIANTS NoMismatch NoDeadlock EigenEverywhere TablesDelivered TermsEvaluable
CHECK_DEADLOCK FALSE
