SPECIFICATION Spec
CONSTANTS
  P = 3
  B = 2
  KK = 3
  N1 = 1
  N2 = 1
  N3 = 1
  N4 = 0
  NParts <- NPartsDef
  Clear = TRUE
  Split = FALSE
  SkelBarrierOnWorld = FALSE
  RootIsLowest = TRUE
  StatusEverywhere = TRUE
INVARIANTS NoMismatch NoDeadlock EigenEverywhere TablesDelivered TermsEvaluable
CHECK_DEADLOCK FALSE
