------------------------------ MODULE Symmetry ------------------------------
(***************************************************************************)
(* Symmetry analysis, partition of the Fock space into blocks, and the     *)
(* block-to-block maps of field operators (Symmetrizer, StatesClassifi-    *)
(* cation, FieldOperator::mapsTo / prepare).                               *)
(* A candidate integral of motion is a polynomial that is diagonal in the  *)
(* Fock basis: a sequence of <<num, den, modes>> meaning                   *)
(*     sum  num/den * prod_{i in modes} n_i .                              *)
(* Design level: acceptance test, quantum numbers, blocks in order of      *)
(* first appearance, (block, inner) addresses, image block taken from the  *)
(* FIRST state that is not annihilated, bimap insert semantics.            *)
(* Definition level: the partition is sound for H and for every field      *)
(* operator -- stated on ANY partition (the design's or a recorded one).   *)
(***************************************************************************)
EXTENDS Fermion, TLC

\* ---- diagonal candidates ----------------------------------------------------------------------
\* value of the candidate on Fock state s, as a rational <<num, den>> over the common denominator Den(Q)
RECURSIVE Lcm(_, _), Gcd(_, _)
Gcd(a, b) == IF b = 0 THEN a ELSE Gcd(b, a % b)
Lcm(a, b) == (a * b) \div Gcd(a, b)
RECURSIVE DenOf(_)
DenOf(Q) == IF Q = <<>> THEN 1 ELSE Lcm(Head(Q)[2], DenOf(Tail(Q)))
RECURSIVE QVal(_, _, _)
QVal(Q, s, D) == IF Q = <<>> THEN 0
                 ELSE LET t == Head(Q)
                          on == \A i \in 1..Len(t[3]) : Bit(s, t[3][i]) = 1 IN
                      (IF on THEN t[1] * (D \div t[2]) ELSE 0) + QVal(Tail(Q), s, D)
Val(Q, s) == QVal(Q, s, DenOf(Q))            \* integer: value * DenOf(Q); exact comparison of quantum numbers

\* Q as a polynomial in c, c^+ (for commutators): prod n_i
RECURSIVE NProd(_)
NProd(ms) == IF ms = <<>> THEN <<>> ELSE <<Cr(Head(ms)), An(Head(ms))>> \o NProd(Tail(ms))
QPoly(Q) == [k \in 1..Len(Q) |-> PTerm(NProd(Q[k][3]), Q[k][1] * (DenOf(Q) \div Q[k][2]), 0)]

\* Symmetrizer::checkSymmetry: commutes with H (and with every n_i, which holds for every diagonal candidate)
Accept(H, Q, M) == MComm(H, PolyMat(QPoly(Q), M)) = Zero

\* default candidates: N, and S_z = 1/2 sum_up n - 1/2 sum_down n when every index has spin 0 or 1
NOp(M) == [i \in 1..M |-> <<1, 1, <<i - 1>>>>]
SzOp(spins) == [i \in 1..Len(spins) |-> <<IF spins[i] = 1 THEN 1 ELSE -1, 2, <<i - 1>>>>]
RECURSIVE Filter(_, _, _)
Filter(H, cands, M) == IF cands = <<>> THEN <<>>
                       ELSE (IF Accept(H, Head(cands), M) THEN <<Head(cands)>> ELSE <<>>) \o Filter(H, Tail(cands), M)
DefaultCandidates(spins) == <<NOp(Len(spins))>> \o (IF \A i \in 1..Len(spins) : spins[i] \in {0, 1} THEN <<SzOp(spins)>> ELSE <<>>)

\* ---- partition: quantum numbers -> blocks in order of first appearance -------------------------------
QN(ops, s) == [k \in 1..Len(ops) |-> Val(ops[k], s)]
\* block[s] for s = 0..2^M-1 (blocks numbered from 0 in order of first appearance of their quantum numbers)
RECURSIVE Classify(_, _, _, _)
Classify(ops, M, s, acc) ==          \* acc = [qns |-> Seq of distinct QN tuples, block |-> Seq of block numbers of states 0..s-1]
  IF s > Pow2(M) - 1 THEN acc
  ELSE LET q == QN(ops, s)
           hit == {b \in 1..Len(acc.qns) : acc.qns[b] = q} IN
       IF hit = {} THEN Classify(ops, M, s + 1, [qns |-> Append(acc.qns, q), block |-> Append(acc.block, Len(acc.qns))])
       ELSE Classify(ops, M, s + 1, [qns |-> acc.qns, block |-> Append(acc.block, (CHOOSE b \in hit : TRUE) - 1)])
BlocksOf(ops, M) == Classify(ops, M, 0, [qns |-> <<>>, block |-> <<>>]).block     \* sequence indexed by s+1
BlockOf(blk, s) == blk[s + 1]
NBlocks(blk) == Cardinality({blk[i] : i \in 1..Len(blk)})
StatesOf(blk, b) == {s \in 0..(Len(blk) - 1) : blk[s + 1] = b}
InnerOf(blk, s) == Cardinality({t \in StatesOf(blk, BlockOf(blk, s)) : t < s})          \* position inside the block (ascending Fock order)

\* ---- field operators on a partition -----------------------------------------------------------
\* op = a monomial (<<Cr(i)>>, <<An(i)>>, <<Cr(i), An(j)>>); image of basis state s or "none"
Img(op, s) == ActMono(op, s)
Alive(op, s) == Img(op, s).sign # 0
\* FieldOperator::mapsTo: block of the image of the first (lowest) state of the block that is not annihilated; -1 if none
MapsTo(op, blk, b) ==
  LET live == {s \in StatesOf(blk, b) : Alive(op, s)} IN
  IF live = {} THEN -1
  ELSE BlockOf(blk, Img(op, CHOOSE s \in live : \A t \in live : s <= t).s)
\* *::prepare: right blocks in ascending order; bimap insert is dropped when its left OR right key is already present
RECURSIVE BuildBimap(_, _, _, _)
BuildBimap(op, blk, b, acc) ==
  IF b >= NBlocks(blk) THEN acc
  ELSE LET t == MapsTo(op, blk, b) IN
       BuildBimap(op, blk, b + 1,
          IF t = -1 \/ (\E p \in acc : p[1] = t \/ p[2] = b) THEN acc ELSE acc \cup {<<t, b>>})       \* <<left (to), right (from)>>
Bimap(op, blk) == BuildBimap(op, blk, 0, {})

\* ---- definition level (on any partition blk and any bimaps) -------------------------------------------
PartitionOK(blk, M) ==
  /\ Len(blk) = Pow2(M)
  /\ {blk[i] : i \in 1..Len(blk)} = 0..(NBlocks(blk) - 1)                        \* blocks numbered without gaps
HBlockDiagonal(H, blk) == \A p \in DOMAIN H : BlockOf(blk, p[1]) = BlockOf(blk, p[2])
Targets(op, blk, b) == {BlockOf(blk, Img(op, s).s) : s \in {t \in StatesOf(blk, b) : Alive(op, t)}}
SingleTarget(op, blk) == \A b \in 0..(NBlocks(blk) - 1) : Cardinality(Targets(op, blk, b)) <= 1
\* every pair of blocks connected by a non-zero matrix element is in the bimap, and nothing else
TruePairs(op, blk) == {<<BlockOf(blk, Img(op, s).s), BlockOf(blk, s)>> : s \in {t \in 0..(Len(blk) - 1) : Alive(op, t)}}
BimapFaithful(op, blk, bm) == bm = TruePairs(op, blk)
FieldOps(M) == {<<Cr(i)>> : i \in 0..(M - 1)} \cup {<<An(i)>> : i \in 0..(M - 1)} \cup {<<Cr(i), An(j)>> : i, j \in 0..(M - 1)}
Sound(H, blk, M) == /\ PartitionOK(blk, M)
                    /\ HBlockDiagonal(H, blk)
                    /\ \A op \in FieldOps(M) : SingleTarget(op, blk) /\ BimapFaithful(op, blk, Bimap(op, blk))
=============================================================================
