--------------------------- MODULE MpiProgramTrace ---------------------------
(* Validates the per-rank sequences of MPI collectives recorded by PMPI interposition (harness/pv_mpi.cpp, mode     *)
(* "workflow") against MpiProgram.tla.  Per-rank cursors; a specification operation consumes a fixed number of MPI  *)
(* events of a fixed kind on every member:                                                                          *)
(*    Barrier 1 x Barrier | Disp 1 x P2P (the whole point-to-point episode of the dispatcher; the master's episode   *)
(*    carries the job->rank orders it sent, which bind the owners) | BcMap 2 x Bcast(root = lowest member)           *)
(*    BcBlkP 1 x Bcast(owner) | BcBlkC 2 x Bcast(owner) | Reduce 1 x Reduce | BcTerms, BcTermsD 4 x Bcast | BcTab 2   *)
(*    Split 1 x Split                                                                                               *)
(* events: <<"Barrier", comm>> <<"Bcast", comm, root>> <<"Reduce", comm, root>> <<"Split", comm>> <<"P2P", orders>>  *)
(* with comm = sequence of world ranks.                                                                             *)
EXTENDS MpiProgram, Json, IOUtils
Tr == ndJsonDeserialize(IOEnv.TRACE)      \* line 1: header [P, B, nparts, clear, split]; line r+2: [rank, ev]
Hdr == Tr[1]
PTr == Hdr.P
BTr == Hdr.B
NPartsTr == Hdr.nparts
ClearTr == Hdr.clear
SplitTr == Hdr.split
Log(r) == Tr[r + 2].ev
SetOf(s) == {s[i] : i \in 1..Len(s)}

VARIABLE cur
tvars == <<vars, cur>>

NEv(kind) == CASE kind \in {"Barrier", "Disp", "BcBlkP", "Split"} -> 1
               [] kind \in {"BcMap", "BcBlkC", "BcTab"} -> 2
               [] kind \in {"BcTerms", "BcTermsD"} -> 4
\* Boost.MPI reduces std::complex with a tree of point-to-point messages: a rank that sent or received one logs a
\* RedP2P episode, a rank that did neither (single-member communicator) logs nothing
NEvAt(r, o) == IF o.kind = "Reduce"
               THEN (IF cur[r] <= Len(Log(r)) /\ Log(r)[cur[r]][1] = "RedP2P" THEN 1 ELSE 0)
               ELSE NEv(o.kind)
EvMatches(e, o) ==
  CASE o.kind = "Barrier" -> e[1] = "Barrier" /\ SetOf(e[2]) = o.comm
    [] o.kind = "Disp"    -> e[1] = "P2P"
    [] o.kind = "Reduce"  -> e[1] = "RedP2P"
    [] o.kind = "Split"   -> e[1] = "Split" /\ SetOf(e[2]) = o.comm
    [] OTHER              -> e[1] = "Bcast" /\ SetOf(e[2]) = o.comm /\ e[3] = o.root
Consumes(r, o) == /\ cur[r] + NEvAt(r, o) - 1 <= Len(Log(r))
                  /\ \A i \in 0..(NEvAt(r, o) - 1) : EvMatches(Log(r)[cur[r] + i], o)
                  /\ (o.kind = "Reduce" /\ Cardinality(o.comm) > 1) => NEvAt(r, o) = 1

\* the orders <<job, rank>> the master of communicator c sent during this episode: job j -> owner of job j+1
Orders(c) == Log(Min(c))[cur[Min(c)]][2]
OwnersFrom(o, c) ==
  [x \in JobsOf(o) |-> LET hits == {i \in 1..Len(Orders(c)) : Orders(c)[i][1] = x - 1} IN
                          IF hits = {} THEN Min(c) ELSE Orders(c)[CHOOSE i \in hits : TRUE][2]]

TFire(c) ==
  /\ \A m \in c : AtColl(m, c)
  /\ LET o == Cur(Min(c)) IN
       /\ \A m \in c : Consumes(m, Cur(m))
       /\ IF o.kind = "Disp"
          THEN /\ \A x \in JobsOf(o) : \E i \in 1..Len(Orders(c)) : Orders(c)[i][1] = x - 1    \* every job was ordered
               /\ \A x \in JobsOf(o) : OwnersFrom(o, c)[x] \in c
               /\ FireWith(c, OwnersFrom(o, c))
          ELSE FireWith(c, [x \in {} |-> 0])
       /\ cur' = [r \in Ranks |-> IF r \in c THEN cur[r] + NEvAt(r, Cur(r)) ELSE cur[r]]
TFinish == Finish /\ UNCHANGED cur
TraceInit == Init /\ cur = [r \in Ranks |-> 1]
TraceNext == (\E c \in Comms : TFire(c)) \/ TFinish
TraceSpec == TraceInit /\ [][TraceNext]_tvars

Consumed == AllEnded /\ \A r \in Ranks : cur[r] = Len(Log(r)) + 1
NotAccepted == ~(Consumed /\ Settled)
=============================================================================
