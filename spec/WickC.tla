-------------------------------- MODULE WickC --------------------------------
(***************************************************************************)
(* Complex-Hermitian version of Wick.tla: h has Gaussian-integer entries   *)
(* <<re, im>>; Faddeev-LeVerrier in exact Gaussian-integer arithmetic.     *)
(* (z - h)^{-1} = Adj(z) / Det(z); Det has real integer coefficients for a *)
(* Hermitian h (checked), Adj has Gaussian-integer coefficients.           *)
(***************************************************************************)
EXTENDS Integers, Sequences
CA(a, b) == <<a[1] + b[1], a[2] + b[2]>>
CM(a, b) == <<a[1] * b[1] - a[2] * b[2], a[1] * b[2] + a[2] * b[1]>>
IdM(n) == [i \in 1..n |-> [j \in 1..n |-> IF i = j THEN <<1, 0>> ELSE <<0, 0>>]]
MulM(a, b) == LET n == Len(a) IN [i \in 1..n |-> [j \in 1..n |->
                 LET RECURSIVE S(_)
                     S(k) == IF k = 0 THEN <<0, 0>> ELSE CA(CM(a[i][k], b[k][j]), S(k - 1)) IN S(n)]]
AddScaled(a, c, n) == [i \in 1..n |-> [j \in 1..n |-> IF i = j THEN CA(a[i][j], c) ELSE a[i][j]]]
Trace(a) == LET RECURSIVE S(_)
                S(k) == IF k = 0 THEN <<0, 0>> ELSE CA(a[k][k], S(k - 1)) IN S(Len(a))
RECURSIVE FL(_, _, _, _)
FL(h, k, Mk, acc) ==
  LET n == Len(h)
      hm == MulM(h, Mk)
      t  == Trace(hm)
      c  == <<-(t[1] \div k), -(t[2] \div k)>> IN
  IF k = n THEN [Ms |-> Append(acc.Ms, Mk), cs |-> <<c>> \o acc.cs]
  ELSE FL(h, k + 1, AddScaled(hm, c, n), [Ms |-> Append(acc.Ms, Mk), cs |-> <<c>> \o acc.cs])
Resolvent(h) == FL(h, 1, IdM(Len(h)), [Ms |-> <<>>, cs |-> << <<1, 0>> >>])
NumPoly(h, i, j) == LET r == Resolvent(h)  n == Len(h) IN [p \in 1..n |-> r.Ms[n - (p - 1)][i][j]]
DetPoly(h) == Resolvent(h).cs
Hermitian(h) == \A i, j \in 1..Len(h) : h[i][j] = <<h[j][i][1], -h[j][i][2]>>
RealDet(h) == \A k \in 1..Len(DetPoly(h)) : DetPoly(h)[k][2] = 0
Exact(h) == LET n == Len(h)
                RECURSIVE Go(_, _)
                Go(k, Mk) == LET hm == MulM(h, Mk)  t == Trace(hm) IN
                             /\ t[1] % k = 0 /\ t[2] % k = 0
                             /\ (k < n => Go(k + 1, AddScaled(hm, <<-(t[1] \div k), -(t[2] \div k)>>, n))) IN
            Go(1, IdM(n))
Identity(h) == LET r == Resolvent(h)  n == Len(h) IN
  /\ r.Ms[1] = IdM(n)
  /\ \A k \in 1..(n - 1) : r.Ms[k + 1] = AddScaled(MulM(h, r.Ms[k]), r.cs[n - k + 1], n)
  /\ MulM(h, r.Ms[n]) = [i \in 1..n |-> [j \in 1..n |-> IF i = j THEN <<-r.cs[1][1], -r.cs[1][2]>> ELSE <<0, 0>>]]
=============================================================================
