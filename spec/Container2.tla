----------------------------- MODULE Container2 -----------------------------
(***************************************************************************)
(* IndexContainer2 / GFContainer as a state machine.                       *)
(*  EM  : ElementsMap  pair <<i, j>> -> el                                   *)
(*  elem: el -> [idx, st]   element objects ever created (GreensFunction),  *)
(*        st = "C"onstructed / "P"repared / co"M"puted                       *)
(* One action per public call.  Differences from the four-index container   *)
(* (Container4.tla), all read off the code: no aliasing (every pair owns    *)
(* its element), fill() always clears the map, GreensFunction::compute()    *)
(* prepares the object itself, and evaluating an element that was never      *)
(* computed silently gives 0.                                               *)
(***************************************************************************)
EXTENDS Integers, Sequences, FiniteSets, TLC

CONSTANTS NModes,          \* single-particle indices 0..NModes-1
          IndexSets,       \* catalogue of index sets handed to prepareAll ({} = "all pairs")
          MaxCalls
VARIABLES EM, elem, lastAct, lastRes, ncalls
vars == <<EM, elem, lastAct, lastRes, ncalls>>

Modes == 0..(NModes - 1)
Pair == Modes \X Modes
Less(a, b) == a[1] < b[1] \/ (a[1] = b[1] /\ a[2] < b[2])
RECURSIVE SortP(_)
SortP(S) == IF S = {} THEN <<>>
            ELSE LET m == CHOOSE x \in S : \A y \in S : y = x \/ Less(x, y) IN <<m>> \o SortP(S \ {m})
Empty == [x \in {} |-> 0]

\* IndexContainer2::set : a new element object for q; ElementsMap[q] = it (overwrites)
SetIn(st, q) ==
  LET e == Cardinality(DOMAIN st.elem) + 1 IN
  [EM |-> [x \in (DOMAIN st.EM) \cup {q} |-> IF x = q THEN e ELSE st.EM[x]],
   elem |-> [x \in (DOMAIN st.elem) \cup {e} |-> IF x = e THEN [idx |-> q, st |-> "C"] ELSE st.elem[x]]]
RECURSIVE FillSeq(_, _)
FillSeq(st, qs) == IF qs = <<>> THEN st ELSE FillSeq(IF Head(qs) \in DOMAIN st.EM THEN st ELSE SetIn(st, Head(qs)), Tail(qs))
FillFrom(S) == FillSeq([EM |-> Empty, elem |-> elem], SortP(IF S = {} THEN Pair ELSE S))

Ghost(a, r) == lastAct' = a /\ lastRes' = r /\ ncalls' = ncalls + 1
Init == EM = Empty /\ elem = Empty /\ lastAct = <<"Init">> /\ lastRes = "ok" /\ ncalls = 0

\* prepareAll(S) = fill(S) (drops every element, creates new ones) + prepare() on each
PrepareAll(S) ==
  LET st == FillFrom(S)
      touched == {st.EM[q] : q \in DOMAIN st.EM} IN
  /\ EM' = st.EM
  /\ elem' = [e \in DOMAIN st.elem |-> IF e \in touched THEN [st.elem[e] EXCEPT !.st = "P"] ELSE st.elem[e]]
  /\ Ghost(<<"PrepareAll", S>>, "ok")
\* computeAll(): compute() on every listed element (compute prepares if need be)
ComputeAll ==
  /\ elem' = [e \in DOMAIN elem |-> IF e \in {EM[q] : q \in DOMAIN EM} THEN [elem[e] EXCEPT !.st = "M"] ELSE elem[e]]
  /\ UNCHANGED EM
  /\ Ghost(<<"ComputeAll">>, "ok")
\* operator()(i, j): cache hit returns the entry, a miss creates the element on demand (Constructed)
Lookup(q) ==
  /\ IF q \in DOMAIN EM THEN UNCHANGED <<EM, elem>>
     ELSE LET st == SetIn([EM |-> EM, elem |-> elem], q) IN EM' = st.EM /\ elem' = st.elem
  /\ Ghost(<<"Lookup", q>>, "ok")
PrepareElem(q) ==
  /\ q \in DOMAIN EM
  /\ elem' = IF elem[EM[q]].st = "C" THEN [elem EXCEPT ![EM[q]].st = "P"] ELSE elem
  /\ UNCHANGED EM
  /\ Ghost(<<"PrepareElem", q>>, "ok")
ComputeElem(q) ==
  /\ q \in DOMAIN EM
  /\ elem' = [elem EXCEPT ![EM[q]].st = "M"]
  /\ UNCHANGED EM
  /\ Ghost(<<"ComputeElem", q>>, "ok")
\* container(i,j)(n): "value" for a computed element (the property speaks about these), "zero" otherwise
EvalRes(q) == IF elem[EM[q]].st = "M" THEN "value" ELSE "zero"
Eval(q) == q \in DOMAIN EM /\ UNCHANGED <<EM, elem>> /\ Ghost(<<"Eval", q>>, EvalRes(q))

Next == \/ \E S \in IndexSets : PrepareAll(S)
        \/ ComputeAll
        \/ \E q \in Pair : Lookup(q) \/ PrepareElem(q) \/ ComputeElem(q) \/ Eval(q)
Spec == Init /\ [][Next]_vars
Bounded == ncalls < MaxCalls

\* ---- definition level ----------------------------------------------------------------------------
\* the element listed for a pair was constructed for exactly that pair (G_ij, not G_ji)
OwnerSound == \A q \in DOMAIN EM : elem[EM[q]].idx = q
\* distinct pairs never share an element
NoSharing == \A p, q \in DOMAIN EM : p # q => EM[p] # EM[q]
\* after a bulk computation every listed element is evaluable
EvaluableAfterBulk == lastAct[1] = "ComputeAll" => \A q \in DOMAIN EM : elem[EM[q]].st = "M"
\* after prepareAll(S) exactly the requested pairs are listed
ListsRequested == lastAct[1] = "PrepareAll" => DOMAIN EM = (IF lastAct[2] = {} THEN Pair ELSE lastAct[2])
TypeOK == DOMAIN EM \subseteq Pair /\ \A q \in DOMAIN EM : EM[q] \in DOMAIN elem
=============================================================================
