SPECIFICATION Spec
INVARIANTS IsCanonical IsHermitian SumRules Emit
CHECK_DEADLOCK FALSE
