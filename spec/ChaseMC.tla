------------------------------- MODULE ChaseMC -------------------------------
EXTENDS Chase, TLC
VARIABLES sa, sb
RECURSIVE Asc(_)
Asc(S) == IF S = {} THEN <<>> ELSE LET m == CHOOSE x \in S : \A y \in S : x <= y IN <<m>> \o Asc(S \ {m})
Init == sa \in SUBSET (0..4) /\ sb \in SUBSET (0..4)
Next == UNCHANGED <<sa, sb>>
Spec == Init /\ [][Next]_<<sa, sb>>
NoOOB == InBounds(Asc(sa), Asc(sb))
FindsAll == Complete(Asc(sa), Asc(sb))
=============================================================================
