------------------------------- MODULE Lehmann -------------------------------
(***************************************************************************)
(* Exact thermal observables on the exact family (DESIGN.md section 5).    *)
(*                                                                         *)
(* A model of the family is a Fock-diagonal "d-model"                      *)
(*      H = sum_a eps_a n_a + sum_{a<b} U_ab n_a n_b ,  n_a = d^+_a d_a    *)
(* with integer parameters, together with a canonical transformation       *)
(* between the d operators and the operators c the library works with:     *)
(*   - rotation of a pair (p,q):    d_p = (3c_p + 4c_q)/5,  d_q = (-4c_p + 3c_q)/5      *)
(*   - Bogoliubov pair (p,q):       d_p = (3c_p + 4c^+_q)/5, d_q = (-4c^+_p + 3c_q)/5    *)
(*   - untouched modes:             d_a = c_a                               *)
(* In the d-Fock basis the eigenstates are the Fock states, the energies   *)
(* are integers and the matrix elements of every c_i are integers over D=5.*)
(* The Hamiltonian handed to the library is the expansion of H in c, c^+   *)
(* by distributivity only (factors in arbitrary order, coefficients over   *)
(* DE = D^4).                                                              *)
(*                                                                         *)
(* Everything below is the DEFINITION of the observables (Lehmann sums     *)
(* over ALL pairs of eigenstates, thermal weights kept symbolic as the     *)
(* label of the state they belong to).                                     *)
(***************************************************************************)
EXTENDS Fermion, TLC

\* ---- the canonical transformation -----------------------------------------------------------------
\* a linear form is a sequence of <<coef, kind, mode>>, kind 0 = annihilator, 1 = creator, over denominator D
InPair(pairs, x) == \E k \in 1..Len(pairs) : pairs[k][1] = x \/ pairs[k][2] = x
PairOf(pairs, x) == pairs[CHOOSE k \in 1..Len(pairs) : pairs[k][1] = x \/ pairs[k][2] = x]
DenOfModel(mo) == IF Len(mo.rot) + Len(mo.bog) = 0 THEN 1 ELSE 5

\* a linear form is a sequence of <<re, im, kind, mode>> (Gaussian-integer coefficient over D)
\* gauge phases (complex build): for every mode p listed in mo.ph the operator handed to the library is c'_p = i c_p
HasPhase(mo, p) == \E k \in 1..Len(mo.ph) : mo.ph[k] = p
\* c_i expressed in d, d^+  (over D), before the gauge phase
CExp0(mo, i) ==
  LET D == DenOfModel(mo) IN
  IF InPair(mo.rot, i) THEN LET pq == PairOf(mo.rot, i) IN
        IF i = pq[1] THEN << <<3, 0, 0, pq[1]>>, <<-4, 0, 0, pq[2]>> >> ELSE << <<4, 0, 0, pq[1]>>, <<3, 0, 0, pq[2]>> >>
  ELSE IF InPair(mo.bog, i) THEN LET pq == PairOf(mo.bog, i) IN
        IF i = pq[1] THEN << <<3, 0, 0, pq[1]>>, <<-4, 0, 1, pq[2]>> >> ELSE << <<4, 0, 1, pq[1]>>, <<3, 0, 0, pq[2]>> >>
  ELSE << <<D, 0, 0, i>> >>
MulI(f) == [k \in 1..Len(f) |-> <<-f[k][2], f[k][1], f[k][3], f[k][4]>>]          \* multiply every coefficient by i
CExp(mo, i) == IF HasPhase(mo, i) THEN MulI(CExp0(mo, i)) ELSE CExp0(mo, i)
\* d_a expressed in c', c'^+  (over D): c_p = -i c'_p and c^+_p = i c'^+_p for the phased modes
DExp0(mo, a) ==
  LET D == DenOfModel(mo) IN
  IF InPair(mo.rot, a) THEN LET pq == PairOf(mo.rot, a) IN
        IF a = pq[1] THEN << <<3, 0, 0, pq[1]>>, <<4, 0, 0, pq[2]>> >> ELSE << <<-4, 0, 0, pq[1]>>, <<3, 0, 0, pq[2]>> >>
  ELSE IF InPair(mo.bog, a) THEN LET pq == PairOf(mo.bog, a) IN
        IF a = pq[1] THEN << <<3, 0, 0, pq[1]>>, <<4, 0, 1, pq[2]>> >> ELSE << <<-4, 0, 1, pq[1]>>, <<3, 0, 0, pq[2]>> >>
  ELSE << <<D, 0, 0, a>> >>
DExp(mo, a) == LET f == DExp0(mo, a) IN
  [k \in 1..Len(f) |-> IF ~HasPhase(mo, f[k][4]) THEN f[k]
                        ELSE IF f[k][3] = 0 THEN <<f[k][2], -f[k][1], 0, f[k][4]>>      \* times -i
                        ELSE <<-f[k][2], f[k][1], 1, f[k][4]>>]                          \* times +i
AdjForm(f) == [k \in 1..Len(f) |-> <<f[k][1], -f[k][2], 1 - f[k][3], f[k][4]>>]         \* conjugate coefficient, flip kind
FormPoly(f) == [k \in 1..Len(f) |-> PTerm(<< <<f[k][3], f[k][4]>> >>, f[k][1], f[k][2])]

\* the transformation is canonical: {d_a, d^+_b} = delta_ab, {d_a, d_b} = 0 (as matrices on the c-Fock space, scaled by D^2)
Canonical(mo) ==
  LET M == mo.M  D == DenOfModel(mo)
      dm(a) == PolyMat(FormPoly(DExp(mo, a)), M)
      dd(a) == PolyMat(FormPoly(AdjForm(DExp(mo, a))), M) IN
  \A a, b \in 0..(M - 1) :
     /\ MAnti(dm(a), dd(b)) = (IF a = b THEN MScale(<<D * D, 0>>, Identity(M)) ELSE Zero)
     /\ MAnti(dm(a), dm(b)) = Zero
\* and CExp is the inverse of DExp: substituting d(c) into c_i(d) gives back D^2 c_i
Inverse(mo) ==
  LET M == mo.M  D == DenOfModel(mo)
      dm(a) == PolyMat(FormPoly(DExp(mo, a)), M)
      dd(a) == PolyMat(FormPoly(AdjForm(DExp(mo, a))), M)
      RECURSIVE Sub(_)
      Sub(f) == IF f = <<>> THEN Zero
                ELSE MAdd(MScale(<<Head(f)[1], Head(f)[2]>>, IF Head(f)[3] = 0 THEN dm(Head(f)[4]) ELSE dd(Head(f)[4])), Sub(Tail(f))) IN
  \A i \in 0..(M - 1) : Sub(CExp(mo, i)) = MScale(<<D * D, 0>>, MonoMat(<<An(i)>>, M))

\* ---- the Hamiltonian handed to the library: expansion by distributivity only ------------------------
\* product of linear forms -> sequence of [ops, num]; ops in the order of the factors
RECURSIVE FormProd(_)
FormProd(fs) ==
  IF fs = <<>> THEN << [ops |-> <<>>, num |-> 1, numi |-> 0] >>
  ELSE LET rest == FormProd(Tail(fs))  f == Head(fs) IN
       LET RECURSIVE Outer(_)
           Outer(k) == IF k > Len(f) THEN <<>>
                       ELSE [r \in 1..Len(rest) |-> [ops |-> << <<f[k][3], f[k][4]>> >> \o rest[r].ops,
                                                       num |-> f[k][1] * rest[r].num - f[k][2] * rest[r].numi,
                                                       numi |-> f[k][1] * rest[r].numi + f[k][2] * rest[r].num]] \o Outer(k + 1)
       IN Outer(1)
NForm(mo, a) == << AdjForm(DExp(mo, a)), DExp(mo, a) >>            \* n_a = d^+_a d_a
ScaleTerms(ts, z) == [k \in 1..Len(ts) |-> [ops |-> ts[k].ops, num |-> ts[k].num * z, numi |-> ts[k].numi * z]]
RECURSIVE CatRange(_, _, _)
CatRange(ss, lo, hi) == IF lo > hi THEN <<>> ELSE IF lo = hi THEN ss[lo]
                        ELSE LET mid == (lo + hi) \div 2 IN CatRange(ss, lo, mid) \o CatRange(ss, mid + 1, hi)
Cat(ss) == CatRange(ss, 1, Len(ss))
DEof(mo) == LET D == DenOfModel(mo) IN D * D * D * D
\* H * DE as a list of [ops, num]
HcTerms(mo) ==
  LET D == DenOfModel(mo) IN
  Cat([a \in 1..mo.M |-> IF mo.eps[a] = 0 THEN <<>> ELSE ScaleTerms(FormProd(NForm(mo, a - 1)), mo.eps[a] * D * D)]) \o
  Cat([k \in 1..Len(mo.U) |-> ScaleTerms(FormProd(NForm(mo, mo.U[k][1]) \o NForm(mo, mo.U[k][2])), mo.U[k][3])])
HcPoly(mo) == LET ts == HcTerms(mo) IN [k \in 1..Len(ts) |-> PTerm(ts[k].ops, ts[k].num, ts[k].numi)]
\* H written in d (for the self-check that the expansion is what it claims to be)
\* check: the c-Fock matrix of the expansion is Hermitian
HcHermitian(mo) == Hermitian(PolyMat(HcPoly(mo), mo.M))

\* ---- spectrum and matrix elements in the d-Fock eigenbasis ------------------------------------------
Energy(mo, s) ==
  LET RECURSIVE Lev(_), Inter(_)
      Lev(a) == IF a > mo.M THEN 0 ELSE (IF Bit(s, a - 1) = 1 THEN mo.eps[a] ELSE 0) + Lev(a + 1)
      Inter(k) == IF k > Len(mo.U) THEN 0
                ELSE (IF Bit(s, mo.U[k][1]) = 1 /\ Bit(s, mo.U[k][2]) = 1 THEN mo.U[k][3] ELSE 0) + Inter(k + 1)
  IN Lev(1) + Inter(1)
Spectrum(mo) == [s \in States(mo.M) |-> Energy(mo, s)]
\* sparse matrix (over D) of c_i in the eigenbasis: function <<n, m>> -> <<re, im>>
CMat(mo, i) == PolyMat(FormPoly(CExp(mo, i)), mo.M)
\* quadratic operator c^+_a c_b in the eigenbasis (over D^2)
QMat(mo, a, b) == MMul(MAdj(CMat(mo, a)), CMat(mo, b))

\* ---- Lehmann data -------------------------------------------------------------------------------------
\* G_ij(z) = sum_{n,m} <n|c_i|m><m|c^+_j|n> (w_n + w_m) / (z - (E_m - E_n));  numerators over D^2
GFTerms(mo, i, j) ==
  LET Ci == CMat(mo, i)  Cj == CMat(mo, j)  E == Spectrum(mo) IN
  { <<p[1], p[2], E[p[2]] - E[p[1]], CMul(Ci[p], CConj(Cj[p]))[1], CMul(Ci[p], CConj(Cj[p]))[2]>> : p \in (DOMAIN Ci) \cap (DOMAIN Cj) }
\* sum rule, coefficient-wise in the symbolic weights: for every n,  sum_m X_nm + X_mn = D^2 delta_ij
SumRule(mo, i, j) ==
  LET T == GFTerms(mo, i, j)  D == DenOfModel(mo)
      RECURSIVE Sum(_)
      Sum(S) == IF S = {} THEN <<0, 0>> ELSE LET t == CHOOSE x \in S : TRUE IN CAdd(<<t[4], t[5]>>, Sum(S \ {t})) IN
  \A n \in States(mo.M) :
     CAdd(Sum({t \in T : t[1] = n}), Sum({t \in T : t[2] = n})) = (IF i = j THEN <<D * D, 0>> ELSE <<0, 0>>)
\* conj symmetry of the data: terms of (j,i) are the conjugates of the terms of (i,j)
ConjSym(mo, i, j) == GFTerms(mo, j, i) = {<<t[1], t[2], t[3], t[4], -t[5]>> : t \in GFTerms(mo, i, j)}

\* <c^+_a c_b> = sum_n w_n A[n,n]   (over D^2)
AvgTerms(mo, a, b) == LET A == QMat(mo, a, b) IN {<<p[1], A[p][1], A[p][2]>> : p \in {q \in DOMAIN A : q[1] = q[2]}}
\* <n_i n_j> = sum_n w_n (n_i n_j)[n,n]   (over D^4)
DoccTerms(mo, i, j) == LET A == MMul(QMat(mo, i, i), QMat(mo, j, j)) IN {<<p[1], A[p][1], A[p][2]>> : p \in {q \in DOMAIN A : q[1] = q[2]}}
\* chi_AB(iW) = sum_{n,m} A[n,m] B[m,n] ( -(w_n - w_m)/(iW - (E_m - E_n))  if E_m # E_n ;  beta w_n delta_{W,0}  if E_m = E_n )   (over D^4)
SusTerms(mo, a, b, c, d) ==
  LET A == QMat(mo, a, b)  B == QMat(mo, c, d)  E == Spectrum(mo) IN
  { <<p[1], p[2], E[p[2]] - E[p[1]], CMul(A[p], B[<<p[2], p[1]>>])[1], CMul(A[p], B[<<p[2], p[1]>>])[2]>> :
       p \in {q \in DOMAIN A : <<q[2], q[1]>> \in DOMAIN B} }

\* ---- two-particle Green's function: the closed paths of the six time orderings ----------------------
\* chi_ijkl = int <T c_i(t1) c_j(t2) c^+_k(t3) c^+_l(0)> e^{i w1 t1 + i w2 t2 - i w3 t3}.  For the time ordering
\* t_{p1} > t_{p2} > t_{p3} > 0 of the three operators O_1 = c_i, O_2 = c_j, O_3 = c^+_k the integrand is
\*    sign(p) sum over closed paths a -> b -> c -> d -> a of
\*    <a|O_p1|b><b|O_p2|c><c|O_p3|d><d|c^+_l|a>  w_a  e^{t_p1 (E_a-E_b)} e^{t_p2 (E_b-E_c)} e^{t_p3 (E_c-E_d)} .
\* The module lists the paths with their exact numerators (over D^4); the time-ordered triple integral of the exponentials is
\* carried out by the comparator (exact case split on vanishing exponents), see DESIGN.md.
Perms3 == << <<1, 2, 3>>, <<1, 3, 2>>, <<2, 1, 3>>, <<2, 3, 1>>, <<3, 1, 2>>, <<3, 2, 1>> >>
PermSign == <<1, -1, -1, 1, 1, -1>>
ChiPaths(mo, i, j, k, l) ==
  LET O == << CMat(mo, i), CMat(mo, j), MAdj(CMat(mo, k)) >>
      X4 == MAdj(CMat(mo, l))
      paths(pi) ==
        LET P1 == O[Perms3[pi][1]]  P2 == O[Perms3[pi][2]]  P3 == O[Perms3[pi][3]]
            closed == { x \in (DOMAIN P1) \X (DOMAIN P3) : <<x[1][2], x[2][1]>> \in DOMAIN P2 /\ <<x[2][2], x[1][1]>> \in DOMAIN X4 }
            num(x) == CMul(CMul(P1[x[1]], P2[<<x[1][2], x[2][1]>>]), CMul(P3[x[2]], X4[<<x[2][2], x[1][1]>>])) IN
        { <<pi, x[1][1], x[1][2], x[2][1], x[2][2], num(x)[1], num(x)[2]>> : x \in closed } IN
  UNION { paths(pi) : pi \in 1..6 }
=============================================================================
