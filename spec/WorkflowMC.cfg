SPECIFICATION MCSpec
CONSTANTS
  EmitAt = 0
  EmitTrans = FALSE
VIEW View
INVARIANTS TypeOK DepsFinished DocumentedSucceeds GuardedRejects
PROPERTIES MonotoneA RegressA OnlyOwnDataA ComputedOnceA GetIffFinishedA
CHECK_DEADLOCK FALSE
