------------------------------- MODULE Lattice -------------------------------
(***************************************************************************)
(* The lattice builder of pomerol (Lattice, Lattice::Term::Presets,        *)
(* LatticePresets) as a state machine: one action per public call.         *)
(*                                                                         *)
(* Amplitudes: every value v in this module is the integer NUMERATOR of    *)
(* the amplitude over the fixed denominator 4 (the presets divide by 2 and *)
(* by 4, nothing else), so  "U = 1"  is  v = 4.                            *)
(*                                                                         *)
(* An operator of a term is a 4-tuple <<c, label, orbital, spin>>, c = 1   *)
(* for creation and 0 for annihilation; up = 1, down = 0 as in Misc.h.     *)
(*                                                                         *)
(* Two lattices (ids 1, 2) exist so that Copy and the independence of a    *)
(* copy from its original are part of the model.                           *)
(***************************************************************************)
EXTENDS LatticeTerms

CONSTANTS Labels,      \* site labels the actions draw from (some never added)
          MaxOrb,      \* orbitals per site 1..MaxOrb
          MaxSpin,     \* spins per site 1..MaxSpin
          Amps,        \* amplitudes (numerators over 4) the actions draw from, 0 included
          MaxCalls     \* bound on the length of a history (state constraint)

VARIABLES sites,       \* [LatId -> [Label -|-> [orb, spin]]]   (partial map as a function on its domain)
          terms,       \* [LatId -> Seq(Term)] in insertion order; Term = [ops, v]
          live,        \* set of lattice ids that exist
          lastAct,     \* ghost: name and arguments of the last call
          lastRes,     \* ghost: "ok" | "reject"  (for getters: "ok" + value in lastVal)
          lastVal,     \* ghost: value returned by a getter
          ncalls

vars == <<sites, terms, live, lastAct, lastRes, lastVal, ncalls>>

LatId == {1, 2}

Init == /\ sites = [k \in LatId |-> <<>>]      \* empty function (DOMAIN = {})
        /\ terms = [k \in LatId |-> <<>>]
        /\ live = {1}
        /\ lastAct = <<"Init">>
        /\ lastRes = "ok"
        /\ lastVal = NoVal
        /\ ncalls = 0

Ghost(act, res, val) == /\ lastAct' = act /\ lastRes' = res /\ lastVal' = val /\ ncalls' = ncalls + 1

EmptyFn == [x \in {} |-> 0]

AddSite(k, l, o, s) ==
  /\ k \in live
  /\ sites' = [sites EXCEPT ![k] = [x \in (DOMAIN sites[k]) \cup {l} |->
                                      IF x = l THEN [orb |-> o, spin |-> s] ELSE sites[k][x]]]
  /\ UNCHANGED <<terms, live>>
  /\ Ghost(<<"AddSite", k, l, o, s>>, "ok", NoVal)

\* Lattice::addTerm with an arbitrary user term
AddTerm(k, t) ==
  /\ k \in live
  /\ LET r == AddTermTo(sites[k], terms[k], t) IN
       /\ terms' = [terms EXCEPT ![k] = r.T]
       /\ Ghost(<<"AddTerm", k, t>>, r.res, NoVal)
  /\ UNCHANGED <<sites, live>>

\* L.addTerm(Lattice::Term::Presets::X(...)): the factory may throw before addTerm is reached
AddFactoryTerm(k, name, defined, ops, v) ==
  /\ k \in live
  /\ IF ~defined
     THEN /\ UNCHANGED terms
          /\ Ghost(<<"Factory", k, name, v>>, "reject", NoVal)
     ELSE LET r == AddTermTo(sites[k], terms[k], Term(ops, v)) IN
          /\ terms' = [terms EXCEPT ![k] = r.T]
          /\ Ghost(<<"Factory", k, name, v>>, r.res, NoVal)
  /\ UNCHANGED <<sites, live>>

\* a LatticePresets::add* call described by a [guard, add] record
Preset(k, name, p) ==
  /\ k \in live
  /\ IF p.guard
     THEN /\ terms' = [terms EXCEPT ![k] = @ \o p.add]
          /\ Ghost(<<"Preset", k, name>>, "ok", NoVal)
     ELSE /\ UNCHANGED terms
          /\ Ghost(<<"Preset", k, name>>, "reject", NoVal)
  /\ UNCHANGED <<sites, live>>

GetSite(k, l) ==
  /\ k \in live
  /\ IF Known(sites[k], l)
     THEN Ghost(<<"GetSite", k, l>>, "ok", <<l, sites[k][l].orb, sites[k][l].spin>>)
     ELSE Ghost(<<"GetSite", k, l>>, "reject", NoVal)
  /\ UNCHANGED <<sites, terms, live>>

TermsOfOrder(T, n) == SelectSeq(T, LAMBDA t : Len(t.ops) = n)
MaxOrder(T) == IF T = <<>> THEN 0
               ELSE CHOOSE m \in {Len(T[i].ops) : i \in 1..Len(T)} :
                       \A i \in 1..Len(T) : Len(T[i].ops) <= m

GetTerms(k, n) ==
  /\ k \in live
  /\ Ghost(<<"GetTerms", k, n>>, "ok", TermsOfOrder(terms[k], n))
  /\ UNCHANGED <<sites, terms, live>>

GetMaxOrder(k) ==
  /\ k \in live
  /\ Ghost(<<"GetMaxOrder", k>>, "ok", <<MaxOrder(terms[k])>>)
  /\ UNCHANGED <<sites, terms, live>>

Copy ==
  /\ live = {1}
  /\ live' = {1, 2}
  /\ sites' = [sites EXCEPT ![2] = sites[1]]
  /\ terms' = [terms EXCEPT ![2] = terms[1]]
  /\ Ghost(<<"Copy">>, "ok", NoVal)

----------------------------------------------------------------------------
Orbs  == 0..MaxOrb          \* one beyond the largest valid index, so that invalid ones are drawn
Spins == 0..MaxSpin

Next ==
  \E k \in LatId :
    \/ \E l \in Labels, o \in 1..MaxOrb, s \in 1..MaxSpin : AddSite(k, l, o, s)
    \/ \E l1, l2 \in Labels, o1, o2 \in Orbs, s1, s2 \in Spins, v \in Amps :
          \/ AddTerm(k, Term(THopping(l1, l2, o1, o2, s1, s2), v))
          \/ AddTerm(k, Term(<< Op(0, l1, o1, s1), Op(1, l2, o2, s2) >>, v))
          \/ AddTerm(k, Term(<< Op(1, l1, o1, s1), Op(1, l2, o2, s2), Op(0, l2, o2, s2), Op(0, l1, o1, s1) >>, v))
          \/ AddFactoryTerm(k, <<"NupNdown", l1, l2, o1, o2, s1, s2>>, TRUE, TNupNdown(l1, l2, o1, o2, s1, s2), v)
          \/ l1 = l2 /\ AddFactoryTerm(k, <<"Spinflip", l1, o1, o2, s1, s2>>, SpinflipDefined(o1, o2, s1, s2),
                                       TSpinflip(l1, o1, o2, s1, s2), v)
          \/ l1 = l2 /\ AddFactoryTerm(k, <<"PairHopping", l1, o1, o2, s1, s2>>, SpinflipDefined(o1, o2, s1, s2),
                                       TPairHopping(l1, o1, o2, s1, s2), v)
          \/ s1 = s2 /\ o1 = o2 /\ AddFactoryTerm(k, <<"SplusSminus", l1, l2, o1>>, TRUE, TSplusSminus(l1, l2, o1), v)
          \/ s1 = s2 /\ o1 = o2 /\ AddFactoryTerm(k, <<"SminusSplus", l1, l2, o1>>, TRUE, TSminusSplus(l1, l2, o1), v)
          \/ s1 = s2 /\ o1 = o2 /\ l1 = l2 /\ AddFactoryTerm(k, <<"Level", l1, o1, s1>>, TRUE, TLevel(l1, o1, s1), v)
          \/ Preset(k, <<"addHopping8", l1, l2, v, o1, o2, s1, s2>>, Hopping8(sites[k], l1, l2, v, o1, o2, s1, s2))
          \/ s1 = s2 /\ s1 = 0 /\ Preset(k, <<"addHopping6", l1, l2, v, o1, o2>>, Hopping6(sites[k], l1, l2, v, o1, o2))
    \/ \E l1, l2 \in Labels, v \in Amps :
          \/ Preset(k, <<"addHopping4", l1, l2, v>>, Hopping4(sites[k], l1, l2, v))
          \/ v % 4 = 0 /\ Preset(k, <<"addSzSz", l1, l2, v>>, SzSz(sites[k], l1, l2, v))
          \/ v % 4 = 0 /\ Preset(k, <<"addSS", l1, l2, v>>, SS(sites[k], l1, l2, v))
    \/ \E l \in Labels, v, w \in Amps :
          \/ Preset(k, <<"addCoulombS", l, v, w>>, CoulombS(sites[k], l, v, w))
          \/ Preset(k, <<"addLevel", l, v>>, LevelP(sites[k], l, v))
          \/ Preset(k, <<"addMagnetization", l, v>>, Magnetization(sites[k], l, v))
          \/ \E j \in Amps : (v - j) % 2 = 0 /\
                Preset(k, <<"addCoulombP", l, w, v, j, 0>>, CoulombP(sites[k], l, w, v, j, 0))
    \/ \E l \in Labels : GetSite(k, l)
    \/ \E n \in {2, 4, 6} : GetTerms(k, n)
    \/ GetMaxOrder(k)
    \/ Copy

Spec == Init /\ [][Next]_vars

Bounded == ncalls < MaxCalls

----------------------------------------------------------------------------
(* The property (C20), stated on the state machine.                         *)

IsMutator == lastAct[1] \in {"AddSite", "AddTerm", "Factory", "Preset", "Copy"}

\* A rejected call leaves both lattices unchanged; getters never change anything.
RejectLeavesUnchanged ==
  [][ (lastRes' = "reject" \/ lastAct'[1] \in {"GetSite", "GetTerms", "GetMaxOrder"})
        => (sites' = sites /\ terms' = terms) ]_vars

\* A call addressed to one lattice never changes the other (copy independence)
OtherUnchanged ==
  [][ (lastAct'[1] # "Copy" /\ Len(lastAct') >= 2) =>
        \A k \in LatId : k # lastAct'[2] => (sites'[k] = sites[k] /\ terms'[k] = terms[k]) ]_vars

\* addTerm stores exactly the valid non-zero terms: anything a Lattice::addTerm-path call appended
\* is valid against the sites at that moment and non-zero.
AddTermSound ==
  [][ (lastAct'[1] \in {"AddTerm", "Factory"}) =>
        LET k == lastAct'[2] IN
          \/ terms'[k] = terms[k]
          \/ /\ Len(terms'[k]) = Len(terms[k]) + 1
             /\ SubSeq(terms'[k], 1, Len(terms[k])) = terms[k]
             /\ TermValid(sites[k], terms'[k][Len(terms'[k])])
             /\ terms'[k][Len(terms'[k])].v # 0
             /\ lastRes' = "ok" ]_vars

\* Terms added by presets are valid against the sites (presets check shapes instead of each index)
PresetSound ==
  [][ (lastAct'[1] = "Preset") =>
        LET k == lastAct'[2] IN
          /\ Len(terms'[k]) >= Len(terms[k])
          /\ SubSeq(terms'[k], 1, Len(terms[k])) = terms[k]
          /\ \A i \in (Len(terms[k]) + 1)..Len(terms'[k]) : TermValid(sites[k], terms'[k][i]) ]_vars

\* Site lookup returns what was added last under the label, and fails for unknown labels
LookupFaithful ==
  lastAct[1] = "GetSite" =>
     LET k == lastAct[2]  l == lastAct[3] IN
       IF l \in DOMAIN sites[k]
       THEN lastRes = "ok" /\ lastVal = <<l, sites[k][l].orb, sites[k][l].spin>>
       ELSE lastRes = "reject"

\* Every stored term is retrievable under its order and under no other; max order is the max
RetrievableByOrder ==
  \A k \in live :
     /\ \A i \in 1..Len(terms[k]) :
           \E j \in 1..Len(TermsOfOrder(terms[k], Len(terms[k][i].ops))) :
               TermsOfOrder(terms[k], Len(terms[k][i].ops))[j] = terms[k][i]
     /\ Len(TermsOfOrder(terms[k], 2)) + Len(TermsOfOrder(terms[k], 4)) + Len(TermsOfOrder(terms[k], 6)) = Len(terms[k])
     /\ \A i \in 1..Len(terms[k]) : Len(terms[k][i].ops) <= MaxOrder(terms[k])

\* A fresh copy defines the same model
CopySame == lastAct[1] = "Copy" => (sites[2] = sites[1] /\ terms[2] = terms[1])

TypeOK == /\ live \subseteq LatId /\ 1 \in live
          /\ lastRes \in {"ok", "reject"}
          /\ \A k \in LatId : \A l \in DOMAIN sites[k] : sites[k][l].orb \in 1..MaxOrb /\ sites[k][l].spin \in 1..MaxSpin
=============================================================================
