SPECIFICATION TraceSpec
CONSTANTS
  Labels = {"A", "B", "Z"}
  MaxOrb = 3
  MaxSpin = 3
  Amps = {0}
  MaxCalls = 1000000
INVARIANTS RetrievableByOrder
POSTCONDITION TraceAccepted
CHECK_DEADLOCK FALSE
