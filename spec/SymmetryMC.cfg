SPECIFICATION Spec
CONSTANT AllowNonLinear = FALSE
INVARIANTS HHermitian IsSound ParityAccepted
CHECK_DEADLOCK FALSE
