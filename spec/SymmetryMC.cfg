SPECIFICATION Spec
CONSTANT AllowNonLinear = FALSE
INVARIANTS HHermitian IsSound
CHECK_DEADLOCK FALSE
