------------------------------ MODULE LehmannGen ------------------------------
(* For every model of the exact family listed in the file IOEnv.MODELS (one JSON object per line: M, eps, U, rot, bog and the   *)
(* index selections gf / avg / sus) TLC                                                                                        *)
(*   - checks the specification's own obligations: the transformation is canonical and CExp inverts DExp, the expanded           *)
(*     Hamiltonian is Hermitian, the Lehmann data of G satisfies the sum rule coefficient-wise in the weights and the            *)
(*     conjugation symmetry;                                                                                                      *)
(*   - prints the Hamiltonian to hand to the library and the exact Lehmann data (integers), for the conformance step.            *)
EXTENDS Lehmann, Json, IOUtils
Models == ndJsonDeserialize(IOEnv.MODELS)
VARIABLE k
Init == k \in 1..Len(Models)
Next == UNCHANGED k
Spec == Init /\ [][Next]_k
Mo == Models[k]
SetOf(s) == {s[i] : i \in 1..Len(s)}
IsCanonical == Canonical(Mo) /\ Inverse(Mo)
IsHermitian == HcHermitian(Mo)
SumRules == \A p \in SetOf(Mo.gf) : SumRule(Mo, p[1], p[2]) /\ ConjSym(Mo, p[1], p[2])
Emit == PrintT("@@PV " \o ToJson([
          id |-> Mo.id, M |-> Mo.M, DE |-> DEof(Mo), D |-> DenOfModel(Mo),
          hc |-> HcTerms(Mo),
          E  |-> [s \in 1..Pow2(Mo.M) |-> Energy(Mo, s - 1)],
          gf |-> [i \in 1..Len(Mo.gf) |-> [ij |-> Mo.gf[i], terms |-> GFTerms(Mo, Mo.gf[i][1], Mo.gf[i][2])]],
          docc |-> [i \in 1..Len(Mo.docc) |-> [ij |-> Mo.docc[i], terms |-> DoccTerms(Mo, Mo.docc[i][1], Mo.docc[i][2])]],
          avg |-> [i \in 1..Len(Mo.avg) |-> [ab |-> Mo.avg[i], terms |-> AvgTerms(Mo, Mo.avg[i][1], Mo.avg[i][2])]],
          chi |-> [i \in 1..Len(Mo.chi) |-> [q |-> Mo.chi[i], paths |-> ChiPaths(Mo, Mo.chi[i][1], Mo.chi[i][2], Mo.chi[i][3], Mo.chi[i][4])]],
          sus |-> [i \in 1..Len(Mo.sus) |-> [q |-> Mo.sus[i], terms |-> SusTerms(Mo, Mo.sus[i][1], Mo.sus[i][2], Mo.sus[i][3], Mo.sus[i][4])]]
        ]))
=============================================================================
