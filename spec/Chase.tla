-------------------------------- MODULE Chase --------------------------------
(***************************************************************************)
(* The index-chasing loops over two sparse inner iterators (C17):          *)
(*   GreensFunctionPart::compute / SusceptibilityPart::compute  (Merge)    *)
(*   chaseIndices + its caller loop in TwoParticleGFPart::compute (Chase)  *)
(* An inner iterator is a cursor into an ascending sequence of indices; it *)
(* is valid while the cursor is within the sequence; index() of an invalid *)
(* iterator is an out-of-bounds read.  The loops are run to completion on  *)
(* the pair (A, B); the result records the matches found and whether any   *)
(* index() was evaluated on an invalid iterator.                           *)
(* Guarded = TRUE : the validity of the iterator is tested BEFORE index()  *)
(*                  in the inner catching-up loops (current tree);         *)
(* Guarded = FALSE: the pinned tree (no test in Merge; test after the read *)
(*                  in chaseIndices).                                      *)
(***************************************************************************)
EXTENDS Integers, Sequences, FiniteSets
CONSTANT Guarded
Valid(s, p) == p <= Len(s)

\* for(; [valid &&] s[p] < target; ++p) : returns [p, oob]
RECURSIVE CatchUp(_, _, _)
CatchUp(s, p, target) ==
  IF ~Valid(s, p) THEN [p |-> p, oob |-> ~Guarded]           \* unguarded code reads index() here
  ELSE IF s[p] < target THEN CatchUp(s, p + 1, target) ELSE [p |-> p, oob |-> FALSE]

\* GreensFunctionPart::compute / SusceptibilityPart::compute for one outer index
RECURSIVE Merge(_, _, _, _, _)
Merge(A, B, pa, pb, acc) ==
  IF ~(Valid(A, pa) /\ Valid(B, pb)) THEN acc
  ELSE IF A[pa] = B[pb] THEN Merge(A, B, pa + 1, pb + 1, [acc EXCEPT !.hits = @ \cup {A[pa]}])
  ELSE IF B[pb] < A[pa]
       THEN LET r == CatchUp(B, pb, A[pa]) IN
            IF r.oob THEN [acc EXCEPT !.oob = TRUE] ELSE Merge(A, B, pa, r.p, acc)
       ELSE LET r == CatchUp(A, pa, B[pb]) IN
            IF r.oob THEN [acc EXCEPT !.oob = TRUE] ELSE Merge(A, B, r.p, pb, acc)

\* chaseIndices: for(; it.index() < target && it; ++it) -- after the increment the index is read before the validity test
RECURSIVE ChaseUp(_, _, _)
ChaseUp(s, p, target) ==
  IF ~Valid(s, p) THEN [p |-> p, oob |-> ~Guarded]
  ELSE IF s[p] < target THEN ChaseUp(s, p + 1, target) ELSE [p |-> p, oob |-> FALSE]
\* caller: while (it1 && it2) { if (chaseIndices(it1, it2)) { record; ++it1; ++it2; } }
RECURSIVE Chase(_, _, _, _, _)
Chase(A, B, pa, pb, acc) ==
  IF ~(Valid(A, pa) /\ Valid(B, pb)) THEN acc
  ELSE IF A[pa] = B[pb] THEN Chase(A, B, pa + 1, pb + 1, [acc EXCEPT !.hits = @ \cup {A[pa]}])
  ELSE IF A[pa] < B[pb]
       THEN LET r == ChaseUp(A, pa, B[pb]) IN
            IF r.oob THEN [acc EXCEPT !.oob = TRUE] ELSE Chase(A, B, r.p, pb, acc)
       ELSE LET r == ChaseUp(B, pb, A[pa]) IN
            IF r.oob THEN [acc EXCEPT !.oob = TRUE] ELSE Chase(A, B, pa, r.p, acc)

Start == [hits |-> {}, oob |-> FALSE]
RangeOf(s) == {s[i] : i \in 1..Len(s)}
\* definition level: no out-of-bounds read, and exactly the common indices are found
InBounds(A, B) == ~Merge(A, B, 1, 1, Start).oob /\ ~Chase(A, B, 1, 1, Start).oob
Complete(A, B) == /\ Merge(A, B, 1, 1, Start).hits = RangeOf(A) \cap RangeOf(B)
                  /\ Chase(A, B, 1, 1, Start).hits = RangeOf(A) \cap RangeOf(B)
=============================================================================
