---------------------------- MODULE SpectrumTrace ----------------------------
(* C03 conformance (harness query "c03").  For every model:                                                           *)
(*  - the prepared block matrices, placed on the Fock space, equal the exact Hamiltonian (integers x 16);             *)
(*  - the exact Hamiltonian has no element between states of different recorded blocks;                               *)
(*  - per block: as many eigenpairs as states, residual max|H V - V E| / max|H| and orthonormality max|V^+V - 1|,      *)
(*    computed by the harness against the PREPARED matrix (just shown exact) and logged in units of 1e-10, are <= 10  *)
(*    (i.e. 1e-9), getEigenState(k) is column k;                                                                       *)
(*    => the union of the block spectra is the spectrum of H on the whole Fock space;                                 *)
(*  - the reported ground energy is one of the stored eigenvalues and the minimum over all blocks (units of 1e-6);    *)
(*  - getEigenValues() is the concatenation of the block spectra; the eigenvalue looked up for a state label is the   *)
(*    one stored at (block(label), position(label)) -- compared as printed 17-digit strings.                          *)
(* A model may be given in an energy unit of 2^-k (field unit_log2; an exact rescaling of H): entries, residuals and  *)
(* quantised energies are all logged relative to that unit, so the same conditions apply at every scale.              *)
EXTENDS Symmetry, Hamiltonian, Json, IOUtils
Tr == ndJsonDeserialize(IOEnv.TRACE)
VARIABLE l
IsEvent(e) == l <= Len(Tr) /\ Tr[l].e = e /\ l' = l + 1
SetOf(s) == {s[i] : i \in 1..Len(s)}
SitesOf(e) == [lab \in {e.sites[i][1] : i \in 1..Len(e.sites)} |->
                 LET i == CHOOSE j \in 1..Len(e.sites) : e.sites[j][1] = lab /\ \A k \in (j + 1)..Len(e.sites) : e.sites[k][1] # lab IN
                 [orb |-> e.sites[i][2], spin |-> e.sites[i][3]]]
RECURSIVE Concat(_)
Concat(ss) == IF ss = <<>> THEN <<>> ELSE Head(ss) \o Concat(Tail(ss))
MinOf(S) == CHOOSE x \in S : \A y \in S : x <= y
TraceC03 ==
  /\ IsEvent("Q")
  /\ LET e == Tr[l]
         M == e.M
         S == SitesOf(e)
         Ix(lab, o, s) == (CHOOSE i \in 1..Len(e.tab) : e.tab[i] = <<lab, o, s>>) - 1
         H == PolyMat(Flatten([i \in 1..Len(e.calls) |-> DocCall(S, Ix, e.calls[i])]), M)
         blk == e.block
         nb == Len(e.eig) IN
       /\ "fail" \notin DOMAIN e /\ "ex" \notin DOMAIN e
       /\ e.scale = 4 * DocScale /\ e.den = 4
       /\ SetOf(e.entries) = Entries(H)
       /\ HBlockDiagonal(H, blk)
       /\ nb = NBlocks(blk)
       /\ \A b \in 1..nb : LET x == e.eig[b] IN
             /\ x.n = e.sizes[b] /\ x.rows = e.sizes[b] /\ x.cols = e.sizes[b]
             /\ x.residq <= 10 /\ x.orthoq <= 10 /\ x.colmis = 0
       /\ LET allq == UNION {SetOf(e.eig[b].Eq) : b \in 1..nb} IN
             /\ e.groundq - MinOf(allq) \in -1..1
             /\ \E b \in 1..nb : e.ground \in SetOf(e.eig[b].E)
       /\ e.all = Concat([b \in 1..nb |-> e.eig[b].E])
       /\ \A s \in 0..(Pow2(M) - 1) : e.by_label[s + 1] = e.eig[blk[s + 1] + 1].E[e.inner[s + 1] + 1]
TraceInit == l = 1
TraceSpec == TraceInit /\ [][TraceC03]_l
TraceAccepted ==
  LET d == TLCGet("stats").diameter IN
  IF d - 1 = Len(Tr) THEN TRUE ELSE Print(<<"@@REJECT", d - 1, Len(Tr)>>, FALSE)
=============================================================================
