--------------------------- MODULE ContainerTrace ---------------------------
(* Trace validation of the real TwoParticleGFContainer (harness kind "container4") against        *)
(* Container4.tla.  One line per public call, logged at its return (also on the exception path)   *)
(* with the projected state: ElementsMap, NonTrivialElements, the elements they reference (named  *)
(* in order of creation), statuses.  An Eval line additionally carries whether the value agreed   *)
(* with a TwoParticleGF constructed directly for that quadruple -- the property itself.           *)
EXTENDS Container4, Json, IOUtils
Tr == ndJsonDeserialize(IOEnv.TRACE)
VARIABLE l
tvars == <<vars, l>>
RangeOf(s) == {s[i] : i \in 1..Len(s)}
IsEvent(e) == l <= Len(Tr) /\ Tr[l].e = e /\ l' = l + 1
Cur == Tr[l]

\* which quadruples have parts is a fact about the physical model of the execution: read from the logged event
HasPartsOf(e) == {x[2] : x \in {y \in RangeOf(e.el) : y[4] > 0}}

Dispatch(a) ==
  CASE a[1] = "PrepareAll"  -> PrepareAll(RangeOf(a[2]))
    [] a[1] = "ComputeAll"  -> ComputeAll(a[2])
    [] a[1] = "Lookup"      -> Lookup(a[2])
    [] a[1] = "PrepareElem" -> PrepareElem(a[2])
    [] a[1] = "ComputeElem" -> ComputeElem(a[2])
    [] a[1] = "Eval"        -> EvalWith(a[2], HasPartsOf(Cur))

StateMatches(e) ==
  /\ {<<q, EM'[q].el, EM'[q].perm>> : q \in DOMAIN EM'} = RangeOf(e.em)
  /\ {<<q, NT'[q]>> : q \in DOMAIN NT'} = RangeOf(e.nt)
  /\ \A x \in RangeOf(e.el) : /\ x[1] \in DOMAIN elem' /\ elem'[x[1]].idx = x[2]
                               /\ \/ elem'[x[1]].st = x[3]
                                  \* several ranks, split bulk computation: a component without parts (identically zero) is marked
                                  \* Computed only on the ranks of its colour and stays Prepared elsewhere; it evaluates to 0 either way
                                  \/ x[4] = 0 /\ elem'[x[1]].st = "M" /\ x[3] = "P"

TraceCall == /\ IsEvent("Call")
             /\ Dispatch(Cur.act)
             /\ lastRes' = Cur.res
             /\ (Cur.act[1] = "Eval" /\ Cur.res = "value") => Cur.agrees     \* container value = direct computation
             /\ StateMatches(Cur)
TraceBegin == /\ IsEvent("Begin")
              /\ EM' = Empty /\ NT' = Empty /\ elem' = Empty
              /\ lastAct' = <<"Init">> /\ lastRes' = "ok" /\ ncalls' = 0
TraceEnd == IsEvent("End") /\ UNCHANGED vars
TraceInit == Init /\ l = 1
TraceNext == TraceCall \/ TraceBegin \/ TraceEnd
TraceSpec == TraceInit /\ [][TraceNext]_tvars
TraceAccepted ==
  LET d == TLCGet("stats").diameter IN
  IF d - 1 = Len(Tr) THEN TRUE ELSE Print(<<"@@REJECT", d - 1, Len(Tr)>>, FALSE)
=============================================================================
