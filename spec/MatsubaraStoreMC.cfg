SPECIFICATION Spec
CONSTANT MaxN = 4
INVARIANTS InvTransparent InvWindow InvFill
CHECK_DEADLOCK FALSE
