SPECIFICATION Spec
CONSTANTS
  MaxSites = 3
  MaxOrb = 3
  MaxSpin = 3
INVARIANTS Bijective Inverse ModesAgree Emit
CHECK_DEADLOCK FALSE
