SPECIFICATION MCSpec
CONSTANTS
  NModes = 2
  IndexSets <- IndexSetsDef
  HasParts <- AllQuads
  FillClearsNT = TRUE
  MaxCalls = 3
  EmitTrans = TRUE
VIEW View
CONSTRAINT Bounded
INVARIANTS TypeOK AliasSound OwnerSound NTisEM
PROPERTIES EvaluableAfterBulkA
CHECK_DEADLOCK FALSE
