------------------------------ MODULE HamTrace ------------------------------
(* C04 conformance: the Hamiltonian matrix the real library builds from a lattice (harness query "hfock": the     *)
(* prepared block matrices assembled on the full Fock space, entries x 16 as integers) must equal the sum of the  *)
(* documented operators of the calls that built the lattice (Hamiltonian.tla), with the library's own index table.*)
EXTENDS Hamiltonian, Json, IOUtils
Tr == ndJsonDeserialize(IOEnv.TRACE)
VARIABLE l
IsEvent(e) == l <= Len(Tr) /\ Tr[l].e = e /\ l' = l + 1
SetOf(s) == {s[i] : i \in 1..Len(s)}
SitesOf(e) == [lab \in {e.sites[i][1] : i \in 1..Len(e.sites)} |->
                 LET i == CHOOSE j \in 1..Len(e.sites) : e.sites[j][1] = lab /\ \A k \in (j + 1)..Len(e.sites) : e.sites[k][1] # lab IN
                 [orb |-> e.sites[i][2], spin |-> e.sites[i][3]]]
TraceHam ==
  /\ IsEvent("Q")
  /\ LET e == Tr[l]
         S == SitesOf(e)
         Ix(lab, o, s) == (CHOOSE i \in 1..Len(e.tab) : e.tab[i] = <<lab, o, s>>) - 1
         doc == Flatten([i \in 1..Len(e.calls) |-> DocCall(S, Ix, e.calls[i])]) IN
       /\ "fail" \notin DOMAIN e /\ "ex" \notin DOMAIN e
       /\ e.scale = 4 * DocScale /\ e.den = 4
       /\ SetOf(e.entries) = Entries(PolyMat(doc, e.M))
TraceInit == l = 1
TraceSpec == TraceInit /\ [][TraceHam]_l
TraceAccepted ==
  LET d == TLCGet("stats").diameter IN
  IF d - 1 = Len(Tr) THEN TRUE ELSE Print(<<"@@REJECT", d - 1, Len(Tr)>>, FALSE)
=============================================================================
