-------------------------------- MODULE Wick --------------------------------
(***************************************************************************)
(* Free propagator without diagonalisation (C12).  For a quadratic         *)
(* Hamiltonian H = sum h_ij c^+_i c_j with an integer symmetric matrix h,  *)
(*     G(z) = (z - h)^{-1} = Adj(z) / Det(z)                               *)
(* with Adj and Det computed by the Faddeev-LeVerrier recursion in exact   *)
(* integer arithmetic: this is an exact oracle for EVERY integer h,        *)
(* irrational spectra included.  TLC checks the defining identity          *)
(* (z - h) Adj(z) = Det(z) 1  coefficient by coefficient.                  *)
(* chi0 is the antisymmetrised product documented with the vertex:         *)
(*   chi0_ijkl(n1,n2;n3) = beta d(n2,n3) G_il(n1) G_jk(n2) - beta d(n1,n3) G_ik(n1) G_jl(n2) *)
(* Matrices are functions on (1..n) x (1..n).                              *)
(***************************************************************************)
EXTENDS Integers, Sequences
Dim(h) == Len(h)                                   \* h as a sequence of rows
At(h, i, j) == h[i][j]
IdM(n) == [i \in 1..n |-> [j \in 1..n |-> IF i = j THEN 1 ELSE 0]]
MulM(a, b) == LET n == Len(a) IN [i \in 1..n |-> [j \in 1..n |->
                 LET RECURSIVE S(_)
                     S(k) == IF k = 0 THEN 0 ELSE a[i][k] * b[k][j] + S(k - 1) IN S(n)]]
AddScaled(a, c, n) == [i \in 1..n |-> [j \in 1..n |-> a[i][j] + (IF i = j THEN c ELSE 0)]]
Trace(a) == LET RECURSIVE S(_)
                S(k) == IF k = 0 THEN 0 ELSE a[k][k] + S(k - 1) IN S(Len(a))
\* Faddeev-LeVerrier: M_1 = 1, c_{n-k} = -tr(h M_k)/k, M_{k+1} = h M_k + c_{n-k} 1
\* returns [Ms |-> <<M_1..M_n>>, cs |-> <<c_0..c_n>> (cs[k+1] = c_k, c_n = 1)]
RECURSIVE FL(_, _, _, _)
FL(h, k, Mk, acc) ==
  LET n == Len(h)
      hm == MulM(h, Mk)
      c  == -(Trace(hm) \div k) IN
  IF k = n THEN [Ms |-> Append(acc.Ms, Mk), cs |-> <<c>> \o acc.cs]
  ELSE FL(h, k + 1, AddScaled(hm, c, n), [Ms |-> Append(acc.Ms, Mk), cs |-> <<c>> \o acc.cs])
Resolvent(h) == FL(h, 1, IdM(Len(h)), [Ms |-> <<>>, cs |-> <<1>>])
\* numerator polynomial of G_ij: coefficient of z^(n-k) is (M_k)_ij, k = 1..n  -> sequence indexed by power+1, powers 0..n-1
NumPoly(h, i, j) == LET r == Resolvent(h)  n == Len(h) IN [p \in 1..n |-> r.Ms[n - (p - 1)][i][j]]
DetPoly(h) == Resolvent(h).cs                      \* powers 0..n
\* divisions by k in the recursion are exact
Exact(h) == LET n == Len(h)
                RECURSIVE Go(_, _)
                Go(k, Mk) == LET hm == MulM(h, Mk) IN
                             /\ Trace(hm) % k = 0
                             /\ (k < n => Go(k + 1, AddScaled(hm, -(Trace(hm) \div k), n))) IN
            Go(1, IdM(n))
\* (z - h) Adj(z) = Det(z) 1, coefficient by coefficient: with Adj(z) = sum_{k=1..n} z^{n-k} M_k
\*   z^n: M_1 = 1 ;  z^{n-k}: M_{k+1} - h M_k = c_{n-k} 1 (k = 1..n-1) ;  z^0: -h M_n = c_0 1
Identity(h) == LET r == Resolvent(h)  n == Len(h) IN
  /\ r.Ms[1] = IdM(n)
  /\ \A k \in 1..(n - 1) : r.Ms[k + 1] = AddScaled(MulM(h, r.Ms[k]), r.cs[n - k + 1], n)
  /\ MulM(h, r.Ms[n]) = [i \in 1..n |-> [j \in 1..n |-> IF i = j THEN -r.cs[1] ELSE 0]]
Symmetric(h) == \A i, j \in 1..Len(h) : h[i][j] = h[j][i]
=============================================================================
