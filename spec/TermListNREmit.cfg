SPECIFICATION MCSpec
CONSTANTS
  Kind = "NR"
  TolN = 22
  TolD = 5
  CTolN = 5
  CTolD = 2
  Cands <- CandsNR
  MaxAdds = 3
  Pinned = FALSE
  EmitTrans = TRUE
INVARIANTS TypeOK
CHECK_DEADLOCK FALSE
