SPECIFICATION Spec
CONSTANTS
  NM = 3
  MaxLen = 4
INVARIANTS SetAgrees Correct
CHECK_DEADLOCK FALSE
