SPECIFICATION Spec
CONSTANTS
  NM = 3
  MaxLen = 4
INVARIANTS Correct
CHECK_DEADLOCK FALSE
