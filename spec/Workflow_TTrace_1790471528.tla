---- MODULE Workflow_TTrace_1790471528 ----
EXTENDS Sequences, TLCExt, Toolbox, Workflow, Naturals, TLC, Workflow_TEConstants

_expression ==
    LET Workflow_TEExpression == INSTANCE Workflow_TEExpression
    IN Workflow_TEExpression!expression
----

_trace ==
    LET Workflow_TETrace == INSTANCE Workflow_TETrace
    IN Workflow_TETrace!trace
----

_prop ==
    ~(([]<>(
            st = ([IC |-> 2, HS |-> 2, SYM |-> 2, S |-> 2, H |-> 2, DM |-> 2, CX |-> 2, C |-> 2, QA |-> 2, GF |-> 2, X |-> 2, HP |-> 1, OPS |-> 2, SU |-> 2, EA |-> 1, V |-> 2])
            /\
            last = ([out |-> "ok", ret |-> "none", changed |-> {"OPS"}, op |-> "compute", obj |-> "OPS"])
    ))/\([]<>(
            st = ([IC |-> 2, HS |-> 2, SYM |-> 2, S |-> 2, H |-> 2, DM |-> 2, CX |-> 2, C |-> 2, QA |-> 2, GF |-> 2, X |-> 2, HP |-> 1, OPS |-> 2, SU |-> 2, EA |-> 1, V |-> 2])
            /\
            last = ([out |-> "ok", ret |-> "value", changed |-> {}, op |-> "get", obj |-> "IC"])
    )))
----

_init ==
    /\ last = _TETrace[1].last
    /\ st = _TETrace[1].st
----

_next ==
    /\ \E i,j \in DOMAIN _TETrace:
        /\ \/ /\ j = i + 1
              /\ i = TLCGet("level")
           \/ /\ i = _TTraceLassoEnd
              /\ j = _TTraceLassoStart
        /\ last  = _TETrace[i].last
        /\ last' = _TETrace[j].last
        /\ st  = _TETrace[i].st
        /\ st' = _TETrace[j].st

\* Uncomment the ASSUME below to write the states of the error trace
\* to the given file in Json format. Note that you can pass any tuple
\* to `JsonSerialize`. For example, a sub-sequence of _TETrace.
    \* ASSUME
    \*     LET J == INSTANCE Json
    \*         IN J!JsonSerialize("Workflow_TTrace_1790471528.json", _TETrace)


_view ==
    <<last, st, IF TLCGet("level") = _TTraceLassoEnd + 1 THEN _TTraceLassoStart ELSE TLCGet("level")>>
=============================================================================

 Note that you can extract this module `Workflow_TEExpression`
  to a dedicated file to reuse `expression` (the module in the 
  dedicated `Workflow_TEExpression.tla` file takes precedence 
  over the module `Workflow_TEExpression` below).

---- MODULE Workflow_TEExpression ----
EXTENDS Sequences, TLCExt, Toolbox, Workflow, Naturals, TLC, Workflow_TEConstants

expression == 
    [
        \* To hide variables of the `Workflow` spec from the error trace,
        \* remove the variables below.  The trace will be written in the order
        \* of the fields of this record.
        last |-> last
        ,st |-> st
        
        \* Put additional constant-, state-, and action-level expressions here:
        \* ,_stateNumber |-> _TEPosition
        \* ,_lastUnchanged |-> last = last'
        
        \* Format the `last` variable as Json value.
        \* ,_lastJson |->
        \*     LET J == INSTANCE Json
        \*     IN J!ToJson(last)
        
        \* Lastly, you may build expressions over arbitrary sets of states by
        \* leveraging the _TETrace operator.  For example, this is how to
        \* count the number of times a spec variable changed up to the current
        \* state in the trace.
        \* ,_lastModCount |->
        \*     LET F[s \in DOMAIN _TETrace] ==
        \*         IF s = 1 THEN 0
        \*         ELSE IF _TETrace[s].last # _TETrace[s-1].last
        \*             THEN 1 + F[s-1] ELSE F[s-1]
        \*     IN F[_TEPosition - 1]
    ]

=============================================================================



Parsing and semantic processing can take forever if the trace below is long.
 In this case, it is advised to uncomment the module below to deserialize the
 trace from a generated binary file.

\*
\*---- MODULE Workflow_TETrace ----
\*EXTENDS IOUtils, Workflow, TLC, Workflow_TEConstants
\*
\*trace == IODeserialize("Workflow_TTrace_1790471528.bin", TRUE)
\*
\*=============================================================================
\*

---- MODULE Workflow_TETrace ----
EXTENDS Workflow, TLC, Workflow_TEConstants

trace == 
    <<
    ([st |-> [IC |-> 0, HS |-> 0, SYM |-> 0, S |-> 0, H |-> 0, DM |-> 0, CX |-> 0, C |-> 0, QA |-> 0, GF |-> 0, X |-> 0, HP |-> 0, OPS |-> 0, SU |-> 0, EA |-> 0, V |-> 0],last |-> [out |-> "", ret |-> "", changed |-> {}, op |-> "", obj |-> ""]]),
    ([st |-> [IC |-> 2, HS |-> 0, SYM |-> 0, S |-> 0, H |-> 0, DM |-> 0, CX |-> 0, C |-> 0, QA |-> 0, GF |-> 0, X |-> 0, HP |-> 0, OPS |-> 0, SU |-> 0, EA |-> 0, V |-> 0],last |-> [out |-> "ok", ret |-> "none", changed |-> {"IC"}, op |-> "compute", obj |-> "IC"]]),
    ([st |-> [IC |-> 2, HS |-> 2, SYM |-> 0, S |-> 0, H |-> 0, DM |-> 0, CX |-> 0, C |-> 0, QA |-> 0, GF |-> 0, X |-> 0, HP |-> 0, OPS |-> 0, SU |-> 0, EA |-> 0, V |-> 0],last |-> [out |-> "ok", ret |-> "none", changed |-> {"HS"}, op |-> "compute", obj |-> "HS"]]),
    ([st |-> [IC |-> 2, HS |-> 2, SYM |-> 2, S |-> 0, H |-> 0, DM |-> 0, CX |-> 0, C |-> 0, QA |-> 0, GF |-> 0, X |-> 0, HP |-> 0, OPS |-> 0, SU |-> 0, EA |-> 0, V |-> 0],last |-> [out |-> "ok", ret |-> "none", changed |-> {"SYM"}, op |-> "compute", obj |-> "SYM"]]),
    ([st |-> [IC |-> 2, HS |-> 2, SYM |-> 2, S |-> 2, H |-> 0, DM |-> 0, CX |-> 0, C |-> 0, QA |-> 0, GF |-> 0, X |-> 0, HP |-> 0, OPS |-> 0, SU |-> 0, EA |-> 0, V |-> 0],last |-> [out |-> "ok", ret |-> "none", changed |-> {"S"}, op |-> "compute", obj |-> "S"]]),
    ([st |-> [IC |-> 2, HS |-> 2, SYM |-> 2, S |-> 2, H |-> 0, DM |-> 0, CX |-> 0, C |-> 0, QA |-> 0, GF |-> 0, X |-> 0, HP |-> 1, OPS |-> 0, SU |-> 0, EA |-> 0, V |-> 0],last |-> [out |-> "ok", ret |-> "none", changed |-> {"HP"}, op |-> "prepare", obj |-> "HP"]]),
    ([st |-> [IC |-> 2, HS |-> 2, SYM |-> 2, S |-> 2, H |-> 1, DM |-> 0, CX |-> 0, C |-> 0, QA |-> 0, GF |-> 0, X |-> 0, HP |-> 1, OPS |-> 0, SU |-> 0, EA |-> 0, V |-> 0],last |-> [out |-> "ok", ret |-> "none", changed |-> {"H"}, op |-> "prepare", obj |-> "H"]]),
    ([st |-> [IC |-> 2, HS |-> 2, SYM |-> 2, S |-> 2, H |-> 1, DM |-> 0, CX |-> 0, C |-> 0, QA |-> 1, GF |-> 0, X |-> 0, HP |-> 1, OPS |-> 0, SU |-> 0, EA |-> 0, V |-> 0],last |-> [out |-> "ok", ret |-> "none", changed |-> {"QA"}, op |-> "prepare", obj |-> "QA"]]),
    ([st |-> [IC |-> 2, HS |-> 2, SYM |-> 2, S |-> 2, H |-> 1, DM |-> 0, CX |-> 0, C |-> 1, QA |-> 1, GF |-> 0, X |-> 0, HP |-> 1, OPS |-> 0, SU |-> 0, EA |-> 0, V |-> 0],last |-> [out |-> "ok", ret |-> "none", changed |-> {"C"}, op |-> "prepare", obj |-> "C"]]),
    ([st |-> [IC |-> 2, HS |-> 2, SYM |-> 2, S |-> 2, H |-> 2, DM |-> 0, CX |-> 0, C |-> 1, QA |-> 1, GF |-> 0, X |-> 0, HP |-> 1, OPS |-> 0, SU |-> 0, EA |-> 0, V |-> 0],last |-> [out |-> "ok", ret |-> "none", changed |-> {"H"}, op |-> "compute", obj |-> "H"]]),
    ([st |-> [IC |-> 2, HS |-> 2, SYM |-> 2, S |-> 2, H |-> 2, DM |-> 0, CX |-> 0, C |-> 2, QA |-> 1, GF |-> 0, X |-> 0, HP |-> 1, OPS |-> 0, SU |-> 0, EA |-> 0, V |-> 0],last |-> [out |-> "ok", ret |-> "none", changed |-> {"C"}, op |-> "compute", obj |-> "C"]]),
    ([st |-> [IC |-> 2, HS |-> 2, SYM |-> 2, S |-> 2, H |-> 2, DM |-> 1, CX |-> 0, C |-> 2, QA |-> 1, GF |-> 0, X |-> 0, HP |-> 1, OPS |-> 0, SU |-> 0, EA |-> 0, V |-> 0],last |-> [out |-> "ok", ret |-> "none", changed |-> {"DM"}, op |-> "prepare", obj |-> "DM"]]),
    ([st |-> [IC |-> 2, HS |-> 2, SYM |-> 2, S |-> 2, H |-> 2, DM |-> 1, CX |-> 0, C |-> 2, QA |-> 1, GF |-> 0, X |-> 0, HP |-> 1, OPS |-> 1, SU |-> 0, EA |-> 0, V |-> 0],last |-> [out |-> "ok", ret |-> "none", changed |-> {"OPS"}, op |-> "prepare", obj |-> "OPS"]]),
    ([st |-> [IC |-> 2, HS |-> 2, SYM |-> 2, S |-> 2, H |-> 2, DM |-> 2, CX |-> 0, C |-> 2, QA |-> 1, GF |-> 0, X |-> 0, HP |-> 1, OPS |-> 1, SU |-> 0, EA |-> 0, V |-> 0],last |-> [out |-> "ok", ret |-> "none", changed |-> {"DM"}, op |-> "compute", obj |-> "DM"]]),
    ([st |-> [IC |-> 2, HS |-> 2, SYM |-> 2, S |-> 2, H |-> 2, DM |-> 2, CX |-> 0, C |-> 2, QA |-> 1, GF |-> 0, X |-> 0, HP |-> 1, OPS |-> 2, SU |-> 0, EA |-> 0, V |-> 0],last |-> [out |-> "ok", ret |-> "none", changed |-> {"OPS"}, op |-> "compute", obj |-> "OPS"]]),
    ([st |-> [IC |-> 2, HS |-> 2, SYM |-> 2, S |-> 2, H |-> 2, DM |-> 2, CX |-> 0, C |-> 2, QA |-> 2, GF |-> 0, X |-> 0, HP |-> 1, OPS |-> 2, SU |-> 0, EA |-> 0, V |-> 0],last |-> [out |-> "ok", ret |-> "none", changed |-> {"QA"}, op |-> "compute", obj |-> "QA"]]),
    ([st |-> [IC |-> 2, HS |-> 2, SYM |-> 2, S |-> 2, H |-> 2, DM |-> 2, CX |-> 1, C |-> 2, QA |-> 2, GF |-> 0, X |-> 0, HP |-> 1, OPS |-> 2, SU |-> 0, EA |-> 0, V |-> 0],last |-> [out |-> "ok", ret |-> "none", changed |-> {"CX"}, op |-> "prepare", obj |-> "CX"]]),
    ([st |-> [IC |-> 2, HS |-> 2, SYM |-> 2, S |-> 2, H |-> 2, DM |-> 2, CX |-> 1, C |-> 2, QA |-> 2, GF |-> 0, X |-> 0, HP |-> 1, OPS |-> 2, SU |-> 2, EA |-> 0, V |-> 0],last |-> [out |-> "ok", ret |-> "none", changed |-> {"SU"}, op |-> "compute", obj |-> "SU"]]),
    ([st |-> [IC |-> 2, HS |-> 2, SYM |-> 2, S |-> 2, H |-> 2, DM |-> 2, CX |-> 1, C |-> 2, QA |-> 2, GF |-> 0, X |-> 1, HP |-> 1, OPS |-> 2, SU |-> 2, EA |-> 0, V |-> 0],last |-> [out |-> "ok", ret |-> "none", changed |-> {"X"}, op |-> "prepare", obj |-> "X"]]),
    ([st |-> [IC |-> 2, HS |-> 2, SYM |-> 2, S |-> 2, H |-> 2, DM |-> 2, CX |-> 1, C |-> 2, QA |-> 2, GF |-> 0, X |-> 1, HP |-> 1, OPS |-> 2, SU |-> 2, EA |-> 1, V |-> 0],last |-> [out |-> "ok", ret |-> "none", changed |-> {"EA"}, op |-> "prepare", obj |-> "EA"]]),
    ([st |-> [IC |-> 2, HS |-> 2, SYM |-> 2, S |-> 2, H |-> 2, DM |-> 2, CX |-> 2, C |-> 2, QA |-> 2, GF |-> 0, X |-> 1, HP |-> 1, OPS |-> 2, SU |-> 2, EA |-> 1, V |-> 0],last |-> [out |-> "ok", ret |-> "none", changed |-> {"CX"}, op |-> "compute", obj |-> "CX"]]),
    ([st |-> [IC |-> 2, HS |-> 2, SYM |-> 2, S |-> 2, H |-> 2, DM |-> 2, CX |-> 2, C |-> 2, QA |-> 2, GF |-> 2, X |-> 1, HP |-> 1, OPS |-> 2, SU |-> 2, EA |-> 1, V |-> 0],last |-> [out |-> "ok", ret |-> "none", changed |-> {"GF"}, op |-> "compute", obj |-> "GF"]]),
    ([st |-> [IC |-> 2, HS |-> 2, SYM |-> 2, S |-> 2, H |-> 2, DM |-> 2, CX |-> 2, C |-> 2, QA |-> 2, GF |-> 2, X |-> 2, HP |-> 1, OPS |-> 2, SU |-> 2, EA |-> 1, V |-> 0],last |-> [out |-> "ok", ret |-> "table", changed |-> {"X"}, op |-> "compute", obj |-> "X"]]),
    ([st |-> [IC |-> 2, HS |-> 2, SYM |-> 2, S |-> 2, H |-> 2, DM |-> 2, CX |-> 2, C |-> 2, QA |-> 2, GF |-> 2, X |-> 2, HP |-> 1, OPS |-> 2, SU |-> 2, EA |-> 1, V |-> 2],last |-> [out |-> "ok", ret |-> "none", changed |-> {"V"}, op |-> "compute", obj |-> "V"]]),
    ([st |-> [IC |-> 2, HS |-> 2, SYM |-> 2, S |-> 2, H |-> 2, DM |-> 2, CX |-> 2, C |-> 2, QA |-> 2, GF |-> 2, X |-> 2, HP |-> 1, OPS |-> 2, SU |-> 2, EA |-> 1, V |-> 2],last |-> [out |-> "ok", ret |-> "value", changed |-> {}, op |-> "get", obj |-> "IC"]]),
    ([st |-> [IC |-> 2, HS |-> 2, SYM |-> 2, S |-> 2, H |-> 2, DM |-> 2, CX |-> 2, C |-> 2, QA |-> 2, GF |-> 2, X |-> 2, HP |-> 1, OPS |-> 2, SU |-> 2, EA |-> 1, V |-> 2],last |-> [out |-> "ok", ret |-> "none", changed |-> {}, op |-> "prepare", obj |-> "HP"]]),
    ([st |-> [IC |-> 2, HS |-> 2, SYM |-> 2, S |-> 2, H |-> 2, DM |-> 2, CX |-> 2, C |-> 2, QA |-> 2, GF |-> 2, X |-> 2, HP |-> 1, OPS |-> 2, SU |-> 2, EA |-> 1, V |-> 2],last |-> [out |-> "ok", ret |-> "value", changed |-> {}, op |-> "get", obj |-> "IC"]]),
    ([st |-> [IC |-> 2, HS |-> 2, SYM |-> 2, S |-> 2, H |-> 2, DM |-> 2, CX |-> 2, C |-> 2, QA |-> 2, GF |-> 2, X |-> 2, HP |-> 1, OPS |-> 2, SU |-> 2, EA |-> 1, V |-> 2],last |-> [out |-> "ok", ret |-> "value", changed |-> {}, op |-> "get", obj |-> "SU"]]),
    ([st |-> [IC |-> 2, HS |-> 2, SYM |-> 2, S |-> 2, H |-> 2, DM |-> 2, CX |-> 2, C |-> 2, QA |-> 2, GF |-> 2, X |-> 2, HP |-> 1, OPS |-> 2, SU |-> 2, EA |-> 1, V |-> 2],last |-> [out |-> "ok", ret |-> "none", changed |-> {}, op |-> "compute", obj |-> "SU"]]),
    ([st |-> [IC |-> 2, HS |-> 2, SYM |-> 2, S |-> 2, H |-> 2, DM |-> 2, CX |-> 2, C |-> 2, QA |-> 2, GF |-> 2, X |-> 2, HP |-> 1, OPS |-> 2, SU |-> 2, EA |-> 1, V |-> 2],last |-> [out |-> "ok", ret |-> "none", changed |-> {}, op |-> "prepare", obj |-> "X"]]),
    ([st |-> [IC |-> 2, HS |-> 2, SYM |-> 2, S |-> 2, H |-> 2, DM |-> 2, CX |-> 2, C |-> 2, QA |-> 2, GF |-> 2, X |-> 2, HP |-> 1, OPS |-> 2, SU |-> 2, EA |-> 1, V |-> 2],last |-> [out |-> "ok", ret |-> "value", changed |-> {}, op |-> "get", obj |-> "X"]]),
    ([st |-> [IC |-> 2, HS |-> 2, SYM |-> 2, S |-> 2, H |-> 2, DM |-> 2, CX |-> 2, C |-> 2, QA |-> 2, GF |-> 2, X |-> 2, HP |-> 1, OPS |-> 2, SU |-> 2, EA |-> 1, V |-> 2],last |-> [out |-> "ok", ret |-> "value", changed |-> {}, op |-> "get", obj |-> "QA"]]),
    ([st |-> [IC |-> 2, HS |-> 2, SYM |-> 2, S |-> 2, H |-> 2, DM |-> 2, CX |-> 2, C |-> 2, QA |-> 2, GF |-> 2, X |-> 2, HP |-> 1, OPS |-> 2, SU |-> 2, EA |-> 1, V |-> 2],last |-> [out |-> "ok", ret |-> "none", changed |-> {}, op |-> "prepare", obj |-> "EA"]]),
    ([st |-> [IC |-> 2, HS |-> 2, SYM |-> 2, S |-> 2, H |-> 2, DM |-> 2, CX |-> 2, C |-> 2, QA |-> 2, GF |-> 2, X |-> 2, HP |-> 1, OPS |-> 2, SU |-> 2, EA |-> 1, V |-> 2],last |-> [out |-> "ok", ret |-> "empty", changed |-> {}, op |-> "compute", obj |-> "X"]]),
    ([st |-> [IC |-> 2, HS |-> 2, SYM |-> 2, S |-> 2, H |-> 2, DM |-> 2, CX |-> 2, C |-> 2, QA |-> 2, GF |-> 2, X |-> 2, HP |-> 1, OPS |-> 2, SU |-> 2, EA |-> 1, V |-> 2],last |-> [out |-> "ok", ret |-> "value", changed |-> {}, op |-> "copy", obj |-> "SU"]]),
    ([st |-> [IC |-> 2, HS |-> 2, SYM |-> 2, S |-> 2, H |-> 2, DM |-> 2, CX |-> 2, C |-> 2, QA |-> 2, GF |-> 2, X |-> 2, HP |-> 1, OPS |-> 1, SU |-> 2, EA |-> 1, V |-> 2],last |-> [out |-> "ok", ret |-> "none", changed |-> {"OPS"}, op |-> "prepare", obj |-> "OPS"]]),
    ([st |-> [IC |-> 2, HS |-> 2, SYM |-> 2, S |-> 2, H |-> 2, DM |-> 2, CX |-> 2, C |-> 2, QA |-> 2, GF |-> 2, X |-> 2, HP |-> 2, OPS |-> 1, SU |-> 2, EA |-> 1, V |-> 2],last |-> [out |-> "ok", ret |-> "none", changed |-> {"HP"}, op |-> "compute", obj |-> "HP"]]),
    ([st |-> [IC |-> 2, HS |-> 2, SYM |-> 2, S |-> 2, H |-> 2, DM |-> 2, CX |-> 2, C |-> 2, QA |-> 2, GF |-> 2, X |-> 2, HP |-> 1, OPS |-> 1, SU |-> 2, EA |-> 1, V |-> 2],last |-> [out |-> "ok", ret |-> "none", changed |-> {"HP"}, op |-> "prepare", obj |-> "HP"]]),
    ([st |-> [IC |-> 2, HS |-> 2, SYM |-> 2, S |-> 2, H |-> 2, DM |-> 2, CX |-> 2, C |-> 2, QA |-> 2, GF |-> 2, X |-> 2, HP |-> 1, OPS |-> 2, SU |-> 2, EA |-> 1, V |-> 2],last |-> [out |-> "ok", ret |-> "none", changed |-> {"OPS"}, op |-> "compute", obj |-> "OPS"]])
    >>
----


=============================================================================

---- MODULE Workflow_TEConstants ----
EXTENDS Workflow

CONSTANTS _TTraceLassoStart, _TTraceLassoEnd

=============================================================================

---- CONFIG Workflow_TTrace_1790471528 ----
CONSTANTS
_TTraceLassoStart = 25
_TTraceLassoEnd = 39

PROPERTY
    _prop

CHECK_DEADLOCK
    \* CHECK_DEADLOCK off because of PROPERTY or INVARIANT above.
    FALSE

INIT
    _init

NEXT
    _next

VIEW
    _view

CONSTANT
    _TETrace <- _trace

ALIAS
    _expression
=============================================================================
\* Generated on Sun Sep 27 01:13:41 UTC 2026