---------------------------- MODULE WorkflowTrace ----------------------------
(* Validates call histories recorded from the real objects (harness kind "workflow") against Workflow.tla.  *)
(*  WReset            a fresh set of objects: every status Constructed                                       *)
(*  WCall(obj, op, out, ret, st0, st, changed [, jump])                                                       *)
(*                    the call must be a behaviour of the specification in the pre-state (documented or     *)
(*                    guarded), and outcome, statuses of ALL objects after it, the set of objects whose data  *)
(*                    changed and the kind of result must be those of Eff.  ret = "different" (a getter or    *)
(*                    the returned table disagrees with the canonical linear order) never matches.           *)
(*                    jump = TRUE: only the last call of a replayed path is logged; its pre-state st0 is      *)
(*                    taken from the event (the prefix is the last call of other paths).                     *)
(*  WEnd(differs)     no finished object may differ from the canonical one                                   *)
EXTENDS Workflow, Json, IOUtils
Tr == ndJsonDeserialize(IOEnv.TRACE)
VARIABLE l
IsEvent(e) == l <= Len(Tr) /\ Tr[l].e = e /\ l' = l + 1
ToSt(r) == [o \in Objs |-> r[o]]
SetOf(s) == {s[i] : i \in 1..Len(s)}
HasField(r, f) == f \in DOMAIN r

TReset == IsEvent("WReset") /\ st' = [o \in Objs |-> Con] /\ UNCHANGED last
TCall == /\ IsEvent("WCall")
         /\ LET ev == Tr[l]
                s0 == ToSt(ev.st0)
                jump == HasField(ev, "jump") /\ ev.jump
                e == Eff(s0, ev.obj, ev.op) IN
              /\ jump \/ s0 = st
              /\ \A o \in Objs : (s0[o] >= Pre => PrepOK(s0, o)) /\ (s0[o] = Com => CompOK(s0, o))    \* a logged pre-state must itself be a state of the specification
              /\ ev.obj \in Objs /\ ev.op \in OpNames
              /\ Documented(s0, ev.obj, ev.op) \/ Guarded(s0, ev.obj, ev.op)
              /\ ev.out = e.out
              /\ ev.ret = e.ret
              /\ ToSt(ev.st) = e.st
              /\ SetOf(ev.changed) = e.changed
              /\ st' = e.st
              /\ last' = [obj |-> ev.obj, op |-> ev.op, out |-> e.out, ret |-> e.ret, changed |-> e.changed]
TEnd == IsEvent("WEnd") /\ Tr[l].differs = <<>> /\ UNCHANGED <<st, last>>
TraceInit == l = 1 /\ Init
TraceNext == TReset \/ TCall \/ TEnd
TraceSpec == TraceInit /\ [][TraceNext]_<<l, vars>>
TraceAccepted ==
  LET d == TLCGet("stats").diameter IN
  IF d - 1 = Len(Tr) THEN TRUE ELSE Print(<<"@@REJECT", d - 1, Len(Tr)>>, FALSE)
=============================================================================
