---------------------------- MODULE Container4MC ----------------------------
EXTENDS Container4, Json
CONSTANT EmitTrans
VARIABLE hist
S1 == {<<0, 1, 0, 1>>}
S2 == {<<0, 1, 0, 1>>, <<1, 0, 0, 1>>, <<0, 0, 1, 1>>}
S3 == {<<1, 0, 1, 0>>, <<1, 1, 0, 1>>}
S4 == {<<0, 1, 1, 0>>, <<0, 0, 0, 0>>}
IndexSetsDef == {{}, S1, S2, S3, S4}
AllQuads == Quad
MCInit == Init /\ hist = <<>>
ProjEM == [q \in DOMAIN EM |-> EM[q]]
MCNext == /\ Next
          /\ hist' = Append(hist, lastAct')
          /\ EmitTrans => PrintT("@@PV " \o ToJson(
               [pre |-> hist, act |-> lastAct', res |-> lastRes',
                em |-> {<<q, EM'[q].el, EM'[q].perm>> : q \in DOMAIN EM'},
                nt |-> {<<q, NT'[q]>> : q \in DOMAIN NT'},
                el |-> {<<e, elem'[e].idx, elem'[e].st>> : e \in DOMAIN elem'}]))
mcvars == <<vars, hist>>
MCSpec == MCInit /\ [][MCNext]_mcvars
View == <<EM, NT, elem, ncalls>>
EvaluableAfterBulkA == [][EvaluableAfterBulk']_mcvars
=============================================================================
