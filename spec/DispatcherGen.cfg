SPECIFICATION FairSpec
CONSTANTS
  P = 3
  J = 1
  R = 2
  BossWorks = FALSE
PROPERTY Termination
CHECK_DEADLOCK FALSE
