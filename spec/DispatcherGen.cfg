SPECIFICATION FairSpec
CONSTANTS
  P = 3
  JobIds = {3}
  R = 2
  BossWorks = FALSE
PROPERTY Termination
CHECK_DEADLOCK FALSE
