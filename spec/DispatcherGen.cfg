SPECIFICATION FairSpec
CONSTANTS
  P = 2
  J = 1
  R = 2
PROPERTY Termination
CHECK_DEADLOCK FALSE
