SPECIFICATION TraceSpec
INVARIANT Layout
POSTCONDITION TraceAccepted
CHECK_DEADLOCK FALSE
