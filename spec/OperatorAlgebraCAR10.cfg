SPECIFICATION Spec
CONSTANTS
  NM = 3
  MaxLen = 0
INVARIANTS CARHolds
CHECK_DEADLOCK FALSE
