------------------------------ MODULE LatticeMC ------------------------------
(* Model-checking / behaviour-generation wrapper of Lattice.tla.            *)
(*  - every lattice of BaseMaps is an initial state (so that calls on       *)
(*    heterogeneous two-site lattices are reached at depth 1);              *)
(*  - hist = the calls made so far (a path to the current state);           *)
(*  - every TRANSITION explored is printed as JSON (base lattice, path,     *)
(*    call, predicted outcome, predicted abstract state) so that the whole  *)
(*    bounded state graph can be replayed into the real library.            *)
EXTENDS Lattice, Json

CONSTANT EmitTrans
VARIABLES hist, base

AmpsDef == {0, 4, -8}
SiteRec == [orb : 1..MaxOrb, spin : 1..MaxSpin]
BaseMaps == UNION { [D -> SiteRec] : D \in SUBSET Labels }

MCInit == /\ base \in BaseMaps
          /\ sites = [k \in LatId |-> IF k = 1 THEN base ELSE <<>>]
          /\ terms = [k \in LatId |-> <<>>]
          /\ live = {1}
          /\ lastAct = <<"Init">> /\ lastRes = "ok" /\ lastVal = NoVal /\ ncalls = 0
          /\ hist = <<>>

MCNext == /\ Next
          /\ hist' = Append(hist, lastAct')
          /\ UNCHANGED base
          /\ EmitTrans => PrintT("@@PV " \o ToJson(
                [base |-> base, pre |-> hist, act |-> lastAct', res |-> lastRes', val |-> lastVal',
                 sites |-> sites', terms |-> terms', live |-> live']))

mcvars == <<vars, hist, base>>
MCSpec == MCInit /\ [][MCNext]_mcvars

View == <<sites, terms, live, ncalls>>

\* the properties of Lattice.tla as action properties, so that every transition is checked under the VIEW
LookupFaithfulA == [][lastAct'[1] = "GetSite" => LookupFaithful']_mcvars
CopySameA       == [][lastAct'[1] = "Copy" => CopySame']_mcvars
RejectLeavesUnchangedA == [][ (lastRes' = "reject" \/ lastAct'[1] \in {"GetSite", "GetTerms", "GetMaxOrder"})
                               => (sites' = sites /\ terms' = terms) ]_mcvars
OtherUnchangedA == [][ (lastAct'[1] # "Copy" /\ Len(lastAct') >= 2) =>
        \A k \in LatId : k # lastAct'[2] => (sites'[k] = sites[k] /\ terms'[k] = terms[k]) ]_mcvars
AddTermSoundA == [][ (lastAct'[1] \in {"AddTerm", "Factory"}) =>
        LET k == lastAct'[2] IN
          \/ terms'[k] = terms[k]
          \/ /\ Len(terms'[k]) = Len(terms[k]) + 1
             /\ SubSeq(terms'[k], 1, Len(terms[k])) = terms[k]
             /\ TermValid(sites[k], terms'[k][Len(terms'[k])])
             /\ terms'[k][Len(terms'[k])].v # 0
             /\ lastRes' = "ok" ]_mcvars
\* an invalid or undefined request never reports success
AddTermCompleteA == [][ (lastAct'[1] = "AddTerm") =>
        (lastRes' = "ok" <=> TermValid(sites[lastAct'[2]], lastAct'[3])) ]_mcvars
PresetSoundA == [][ (lastAct'[1] = "Preset") =>
        LET k == lastAct'[2] IN
          /\ Len(terms'[k]) >= Len(terms[k])
          /\ SubSeq(terms'[k], 1, Len(terms[k])) = terms[k]
          /\ \A i \in (Len(terms[k]) + 1)..Len(terms'[k]) : TermValid(sites[k], terms'[k][i]) ]_mcvars
=============================================================================
