SPECIFICATION Spec
CONSTANT Guarded = FALSE
INVARIANTS NoOOB
CHECK_DEADLOCK FALSE
