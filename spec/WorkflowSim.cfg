SPECIFICATION MCSpec
CONSTANTS
  EmitTrans = FALSE
  EmitAt = 40
INVARIANTS TypeOK
CHECK_DEADLOCK FALSE
