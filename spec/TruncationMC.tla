---------------------------- MODULE TruncationMC ----------------------------
EXTENDS Truncation, TLC
VARIABLES w, eps
Blocks == 1..3
Init == /\ w \in [Blocks -> {<<0>>, <<1>>, <<3>>, <<0, 2>>, <<2, 2>>, <<1, 3>>}]
        /\ eps \in 0..3
Next == UNCHANGED <<w, eps>>
Spec == Init /\ [][Next]_<<w, eps>>
Pairs == {<<a, b>> : a, b \in Blocks}
Quads == {<<a, b, c, d>> : a, b, c, d \in Blocks}
Ret == Retained(w, eps)
Inv == /\ DiscardSound(w, eps, Ret) /\ RetainTight(w, eps, Ret)
       /\ SkipSound(Pairs, Ret, Selected(Pairs, Ret)) /\ KeepAll(Pairs, Ret, Selected(Pairs, Ret))
       /\ SkipSound(Quads, Ret, Selected(Quads, Ret)) /\ LostTermsSmall(Quads, w, eps, Selected(Quads, Ret))
       /\ LostTermsSmall(Pairs, w, eps, Selected(Pairs, Ret))
       /\ (eps = 0 => \A p \in Pairs \ Selected(Pairs, Ret) : \A k \in 1..2 : \A s \in 1..Len(w[p[k]]) : w[p[k]][s] = 0)
=============================================================================
