SPECIFICATION Spec
INVARIANTS Checks Emit
CHECK_DEADLOCK FALSE
