SPECIFICATION TraceSpec
INVARIANT DesignCount
POSTCONDITION TraceAccepted
CHECK_DEADLOCK FALSE
