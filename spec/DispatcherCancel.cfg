SPECIFICATION FairSpecC
CONSTANTS
  P = 2
  JobIds = {0, 1}
  R = 2
  BossWorks = TRUE
INVARIANTS AtMostOnce RealJobs
PROPERTY Termination
CHECK_DEADLOCK FALSE
