SPECIFICATION FairSpecC
CONSTANTS
  P = 2
  J = 2
  R = 2
  BossWorks = TRUE
INVARIANTS AtMostOnce RealJobs
PROPERTY Termination
CHECK_DEADLOCK FALSE
