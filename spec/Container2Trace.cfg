SPECIFICATION TraceSpec
CONSTANTS
  NModes = 4
  IndexSets = {}
  MaxCalls = 1000000
INVARIANTS TypeOK OwnerSound NoSharing EvaluableAfterBulk ListsRequested
POSTCONDITION TraceAccepted
CHECK_DEADLOCK FALSE
