------------------------------ MODULE Truncation ------------------------------
(***************************************************************************)
(* Block truncation (C19): DensityMatrix::truncateBlocks and the filters   *)
(* in GreensFunction / Susceptibility / TwoParticleGF / EnsembleAverage    *)
(* ::prepare.                                                              *)
(* Design level: a block is retained iff some state of it has weight above *)
(* eps; an observable is assembled from the world stripes (tuples of       *)
(* blocks) that contain at least one retained block.                       *)
(* Definition level: a stripe is skipped only if ALL its blocks are        *)
(* discarded, a block is discarded only if NONE of its states has weight   *)
(* above eps; hence every Lehmann term that is lost has all its weights    *)
(* <= eps, which gives the property's bounds (|G| : 2 eps dim / |Im z|,    *)
(* since sum_nm |<n|c|m>|^2 <= dim).                                       *)
(* Weights are abstract integers here (units of an arbitrary quantum).     *)
(***************************************************************************)
EXTENDS Integers, Sequences, FiniteSets
Retained(w, eps) == [b \in DOMAIN w |-> \E s \in 1..Len(w[b]) : w[b][s] > eps]       \* w[b] = weights of the states of block b
Selected(stripes, ret) == {p \in stripes : \E k \in 1..Len(p) : ret[p[k]]}
\* definition level
DiscardSound(w, eps, ret) == \A b \in DOMAIN w : ~ret[b] => \A s \in 1..Len(w[b]) : w[b][s] <= eps
RetainTight(w, eps, ret)  == \A b \in DOMAIN w : ret[b] => \E s \in 1..Len(w[b]) : w[b][s] > eps
SkipSound(stripes, ret, sel) == \A p \in stripes \ sel : \A k \in 1..Len(p) : ~ret[p[k]]
KeepAll(stripes, ret, sel) == \A p \in stripes : (\E k \in 1..Len(p) : ret[p[k]]) => p \in sel
\* every lost term has all its weights <= eps
LostTermsSmall(stripes, w, eps, sel) == \A p \in stripes \ sel : \A k \in 1..Len(p) : \A s \in 1..Len(w[p[k]]) : w[p[k]][s] <= eps
=============================================================================
