SPECIFICATION Spec
CONSTANTS
  P = 3
  J = 3
  R = 1
  BossWorks = TRUE
INVARIANTS TypeOK ExactlyOnce AtMostOnce MapTruthful MapComplete RealJobs Drained StackSound FinishSafe
CHECK_DEADLOCK FALSE
