SPECIFICATION Spec
CONSTANTS
  P = 3
  JobIds = {0, 1, 2}
  R = 1
  BossWorks = TRUE
INVARIANTS TypeOK ExactlyOnce AtMostOnce MapTruthful MapComplete RealJobs Drained StackSound FinishSafe
CHECK_DEADLOCK FALSE
