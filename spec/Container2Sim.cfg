SPECIFICATION MCSpec
CONSTANTS
  NModes = 3
  IndexSets <- IndexSetsDef
  MaxCalls = 12
  EmitTrans = FALSE
  EmitAt = 12
VIEW View
CONSTRAINT Bounded
INVARIANTS TypeOK OwnerSound NoSharing
PROPERTIES EvaluableAfterBulkA ListsRequestedA
CHECK_DEADLOCK FALSE
