SPECIFICATION MCSpec
CONSTANTS
  Kind = "GF"
  TolN = 22
  TolD = 5
  CTolN = 5
  CTolD = 2
  Cands <- CandsGF
  MaxAdds = 4
  Pinned = TRUE
  EmitTrans = FALSE
INVARIANTS TypeOK Accounted NoEquivalentPair WeightsRight PolesClose Conservation
CHECK_DEADLOCK FALSE
