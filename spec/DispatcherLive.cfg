SPECIFICATION FairSpec
CONSTANTS
  P = 2
  J = 2
  R = 1
PROPERTY Termination
CHECK_DEADLOCK FALSE
