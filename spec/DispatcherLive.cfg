SPECIFICATION FairSpec
CONSTANTS
  P = 2
  J = 2
  R = 1
  BossWorks = TRUE
PROPERTY Termination
CHECK_DEADLOCK FALSE
