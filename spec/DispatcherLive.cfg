SPECIFICATION FairSpec
CONSTANTS
  P = 2
  JobIds = {0, 1}
  R = 1
  BossWorks = TRUE
PROPERTY Termination
CHECK_DEADLOCK FALSE
