SPECIFICATION Spec
INVARIANT Inv
CHECK_DEADLOCK FALSE
