--------------------------- MODULE DispatcherTrace ---------------------------
(* Validates per-rank logs recorded from the real mpi_skel::run / MPIMaster / MPIWorker (PMPI interposition  *)
(* in harness/pv_mpi.cpp) against Dispatcher.tla.  The logs are NOT merged by time: every rank has its own  *)
(* cursor and TLC searches for an interleaving of the per-rank logs that is a behaviour of the specification. *)
(* Unobservable steps (negative MPI_Test polls, loop tests, message delivery) are silent; a successful test  *)
(* is "deliver, then receive" in one step, so the arrived queues stay empty.                                 *)
(*   events (after filtering by kind in tools):                                                               *)
(*     <<"SendWork", w, j>>  <<"SendFinish", w>>  <<"GotDone", w>>       (rank 0 as master)                   *)
(*     <<"GotOrder", tag, j>>  <<"Run", j>>  <<"SendDone">>                (every rank as worker)               *)
(*     <<"RoundEnd", map>>                                                 (return of mpi_skel::run)            *)
EXTENDS Dispatcher, Json, IOUtils

Tr == ndJsonDeserialize(IOEnv.TRACE)          \* line r+1 = [rank |-> r, ev |-> <<events>>]
PFromTrace == Len(Tr)
JobIdsFromTrace == {Tr[1].ids[i] : i \in 1..Len(Tr[1].ids)}      \* the job ids the scenario handed to the master (its input, not recorded)
RFromTrace == Tr[1].R
BossFromTrace == IF "boss" \in DOMAIN Tr[1] THEN Tr[1].boss ELSE TRUE
Log(r) == Tr[r + 1].ev

VARIABLES cur, finished
tvars == <<vars, cur, finished>>

Ev(r) == Log(r)[cur[r]]
Has(r) == cur[r] <= Len(Log(r))
Adv(S) == cur' = [r \in Ranks |-> IF r \in S THEN cur[r] + 1 ELSE cur[r]]

\* job order of a round = the order in which the master sends the jobs out (jobs never sent are appended)
RECURSIVE SkipRounds(_, _)
SkipRounds(evs, k) == IF k = 0 \/ evs = <<>> THEN evs
                      ELSE SkipRounds(Tail(evs), IF Head(evs)[1] = "RoundEnd" THEN k - 1 ELSE k)
RECURSIVE WorkJobs(_)
WorkJobs(evs) == IF evs = <<>> \/ Head(evs)[1] = "RoundEnd" THEN <<>>
                 ELSE IF Head(evs)[1] = "SendWork" THEN <<Head(evs)[3]>> \o WorkJobs(Tail(evs)) ELSE WorkJobs(Tail(evs))
RECURSIVE Dedup(_, _)
Dedup(s, seen) == IF s = <<>> THEN <<>> ELSE IF Head(s) \in seen \/ Head(s) \notin Jobs THEN Dedup(Tail(s), seen)
                  ELSE <<Head(s)>> \o Dedup(Tail(s), seen \cup {Head(s)})
JobOrder(k) == LET sent == Dedup(WorkJobs(SkipRounds(Log(Root), k - 1)), {}) IN
               sent \o SeqOfSet(Jobs \ {sent[i] : i \in 1..Len(sent)})

TraceInit ==
  /\ round = 1 /\ ran = <<>>
  /\ flightW = [r \in Ranks |-> <<>>] /\ arrivedW = [r \in Ranks |-> <<>>]
  /\ flightM = [r \in Ranks |-> <<>>] /\ arrivedM = [r \in Ranks |-> <<>>]
  /\ pc = [r \in Ranks |-> IF r = Root THEN "order" ELSE "recv"]
  /\ jobStack = JobOrder(1)
  /\ workerStack = SeqOfSet(Workers)
  /\ dispatch = EmptyMap
  /\ waitReq = [r \in Ranks |-> FALSE]
  /\ finishSent = [r \in Ranks |-> FALSE]
  /\ wStatus = [r \in Ranks |-> "Pending"]
  /\ curJob = [r \in Ranks |-> -1]
  /\ cur = [r \in Ranks |-> 1]
  /\ finished = FALSE

TOrder ==
  /\ pc[Root] = "order"
  /\ IF workerStack # <<>> /\ jobStack # <<>>
     THEN /\ Has(Root) /\ Ev(Root) = <<"SendWork", Head(workerStack), Head(jobStack)>>
          /\ Adv({Root})
     ELSE UNCHANGED cur
  /\ Order
  /\ UNCHANGED finished

\* successful test of the worker's receive: the head message in flight is delivered and received in one step
TRecvOk(r) ==
  /\ pc[r] = "recv" /\ wStatus[r] = "Pending" /\ flightW[r] # <<>> /\ arrivedW[r] = <<>>
  /\ Has(r) /\ Ev(r) = <<"GotOrder", Head(flightW[r]).tag, Head(flightW[r]).job>>
  /\ LET m == Head(flightW[r]) IN
       /\ wStatus' = [wStatus EXCEPT ![r] = m.tag]
       /\ curJob' = [curJob EXCEPT ![r] = m.job]
       /\ flightW' = [flightW EXCEPT ![r] = Tail(@)]
       /\ pc' = [pc EXCEPT ![r] = IF m.tag = "Work" THEN "run" ELSE AfterBody(r)]
  /\ Adv({r})
  /\ UNCHANGED <<arrivedW, flightM, arrivedM, jobStack, workerStack, dispatch, waitReq, finishSent, ran, round, finished>>
\* negative poll (or not Pending): silent
TRecvNo(r) == /\ pc[r] = "recv" /\ arrivedW[r] = <<>> /\ ReceiveOrder(r) /\ UNCHANGED <<cur, finished>>

TRun(r) == /\ pc[r] = "run" /\ Has(r) /\ Ev(r) = <<"Run", curJob[r]>> /\ RunJob(r) /\ Adv({r}) /\ UNCHANGED finished
TReport(r) == /\ pc[r] = "report" /\ Has(r) /\ Ev(r) = <<"SendDone">> /\ Report(r) /\ Adv({r}) /\ UNCHANGED finished
TLoop(r) == LoopTest(r) /\ UNCHANGED <<cur, finished>>

\* check_workers: k completed receives (logged GotDone events, ascending pool order), then the Finish rule
GotDoneAt(i) == i <= Len(Log(Root)) /\ Log(Root)[i][1] = "GotDone"
TCheck ==
  /\ pc[Root] = "check"
  /\ \E k \in 0..NW :
       LET c0 == cur[Root]
           ws == [i \in 1..k |-> Log(Root)[c0 + i - 1][2]]
           D  == {ws[i] : i \in 1..k}
           pushed == PushAll(workerStack, SeqOfSet(D))
           fin == jobStack = <<>> /\ Len(pushed) >= NW
           toFinish == SeqOfSet({w \in Workers : fin /\ ~finishSent[w]}) IN
       /\ \A i \in 1..k : GotDoneAt(c0 + i - 1)
       /\ \A i \in 1..(k - 1) : ws[i] < ws[i + 1]
       /\ \A w \in D : waitReq[w] /\ flightM[w] # <<>>
       /\ \A i \in 1..Len(toFinish) : c0 + k + i - 1 <= Len(Log(Root)) /\ Log(Root)[c0 + k + i - 1] = <<"SendFinish", toFinish[i]>>
       /\ workerStack' = pushed
       /\ waitReq' = [w \in Ranks |-> IF w \in D THEN FALSE ELSE waitReq[w]]
       /\ flightM' = [w \in Ranks |-> IF w \in D THEN Tail(flightM[w]) ELSE flightM[w]]
       /\ flightW' = [w \in Ranks |-> IF fin /\ ~finishSent[w] /\ w \in Workers THEN Append(flightW[w], Msg("Finish", -1)) ELSE flightW[w]]
       /\ finishSent' = IF fin THEN [w \in Ranks |-> w \in Workers] ELSE finishSent
       /\ cur' = [cur EXCEPT ![Root] = c0 + k + Len(toFinish)]
  /\ pc' = [pc EXCEPT ![Root] = "top"]
  /\ UNCHANGED <<arrivedW, arrivedM, jobStack, dispatch, wStatus, curJob, ran, round, finished>>

\* return of mpi_skel::run on every rank: the returned map must be the master's map, identical on all ranks
MapOf(e) == e[2]
\* (with a pure master only rank 0 holds a map: the other ranks log an empty one)
MapsAgree == \A r \in Ranks : /\ Has(r) /\ Ev(r)[1] = "RoundEnd"
                              /\ (BossWorks \/ r = Root) =>
                                   {<<j, dispatch[j]>> : j \in DOMAIN dispatch} = {MapOf(Ev(r))[i] : i \in 1..Len(MapOf(Ev(r)))}
TNextRound ==
  /\ AllDone /\ round < R /\ MapsAgree
  /\ round' = round + 1
  /\ StartRound(JobOrder(round + 1))
  /\ Adv(Ranks)
  /\ UNCHANGED <<flightW, arrivedW, flightM, arrivedM, ran, finished>>
TFinal ==
  /\ AllDone /\ round = R /\ ~finished /\ MapsAgree
  /\ finished' = TRUE /\ Adv(Ranks) /\ UNCHANGED vars

TraceNext == TOrder \/ TCheck \/ TNextRound \/ TFinal
             \/ \E r \in Ranks : TRecvOk(r) \/ TRecvNo(r) \/ TRun(r) \/ TReport(r) \/ TLoop(r)
TraceSpec == TraceInit /\ [][TraceNext]_tvars

\* acceptance: a state in which every log is consumed; reported by violating this invariant
Consumed == finished /\ \A r \in Ranks : cur[r] = Len(Log(r)) + 1
NotAccepted == ~Consumed
\* progress report for rejected traces: the furthest total cursor position reached
Progress == TLCSet(1, IF TLCGet(1) < cur[0] + cur[P - 1] THEN cur[0] + cur[P - 1] ELSE TLCGet(1))
=============================================================================
