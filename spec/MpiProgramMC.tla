---------------------------- MODULE MpiProgramMC ----------------------------
EXTENDS MpiProgram
CONSTANTS KK, N1, N2, N3, N4
NPartsDef == SubSeq(<<N1, N2, N3, N4>>, 1, KK)
=============================================================================
