---- MODULE TermListMC_TTrace_1790457011 ----
EXTENDS Sequences, TLCExt, TermListMC, Toolbox, Naturals, TLC

_expression ==
    LET TermListMC_TEExpression == INSTANCE TermListMC_TEExpression
    IN TermListMC_TEExpression!expression
----

_trace ==
    LET TermListMC_TETrace == INSTANCE TermListMC_TETrace
    IN TermListMC_TETrace!trace
----

_inv ==
    ~(
        TLCGet("level") = Len(_TETrace)
        /\
        added = (<<[c |-> <<0, -1>>, ps |-> <<0, 0, 0>>, w |-> 1, f |-> TRUE], [c |-> <<0, -1>>, ps |-> <<0, 0, 5>>, w |-> 1, f |-> TRUE], [c |-> <<0, -1>>, ps |-> <<0, 0, 3>>, w |-> 1, f |-> TRUE]>>)
        /\
        terms = ({[c |-> <<0, -1>>, ps |-> <<0, 0, 0>>, w |-> 1, f |-> TRUE]})
        /\
        lost = (<<0, -2>>)
        /\
        members = (([c |-> <<0, -1>>, ps |-> <<0, 0, 0>>, w |-> 1, f |-> TRUE] :> {1}))
        /\
        lostHow = ({"refused"})
        /\
        lastAct = (<<"Add", [c |-> <<0, -1>>, ps |-> <<0, 0, 3>>, w |-> 1, f |-> TRUE], "refused">>)
    )
----

_init ==
    /\ added = _TETrace[1].added
    /\ lastAct = _TETrace[1].lastAct
    /\ lostHow = _TETrace[1].lostHow
    /\ lost = _TETrace[1].lost
    /\ members = _TETrace[1].members
    /\ terms = _TETrace[1].terms
----

_next ==
    /\ \E i,j \in DOMAIN _TETrace:
        /\ \/ /\ j = i + 1
              /\ i = TLCGet("level")
        /\ added  = _TETrace[i].added
        /\ added' = _TETrace[j].added
        /\ lastAct  = _TETrace[i].lastAct
        /\ lastAct' = _TETrace[j].lastAct
        /\ lostHow  = _TETrace[i].lostHow
        /\ lostHow' = _TETrace[j].lostHow
        /\ lost  = _TETrace[i].lost
        /\ lost' = _TETrace[j].lost
        /\ members  = _TETrace[i].members
        /\ members' = _TETrace[j].members
        /\ terms  = _TETrace[i].terms
        /\ terms' = _TETrace[j].terms

\* Uncomment the ASSUME below to write the states of the error trace
\* to the given file in Json format. Note that you can pass any tuple
\* to `JsonSerialize`. For example, a sub-sequence of _TETrace.
    \* ASSUME
    \*     LET J == INSTANCE Json
    \*         IN J!JsonSerialize("TermListMC_TTrace_1790457011.json", _TETrace)

=============================================================================

 Note that you can extract this module `TermListMC_TEExpression`
  to a dedicated file to reuse `expression` (the module in the 
  dedicated `TermListMC_TEExpression.tla` file takes precedence 
  over the module `TermListMC_TEExpression` below).

---- MODULE TermListMC_TEExpression ----
EXTENDS Sequences, TLCExt, TermListMC, Toolbox, Naturals, TLC

expression == 
    [
        \* To hide variables of the `TermListMC` spec from the error trace,
        \* remove the variables below.  The trace will be written in the order
        \* of the fields of this record.
        added |-> added
        ,lastAct |-> lastAct
        ,lostHow |-> lostHow
        ,lost |-> lost
        ,members |-> members
        ,terms |-> terms
        
        \* Put additional constant-, state-, and action-level expressions here:
        \* ,_stateNumber |-> _TEPosition
        \* ,_addedUnchanged |-> added = added'
        
        \* Format the `added` variable as Json value.
        \* ,_addedJson |->
        \*     LET J == INSTANCE Json
        \*     IN J!ToJson(added)
        
        \* Lastly, you may build expressions over arbitrary sets of states by
        \* leveraging the _TETrace operator.  For example, this is how to
        \* count the number of times a spec variable changed up to the current
        \* state in the trace.
        \* ,_addedModCount |->
        \*     LET F[s \in DOMAIN _TETrace] ==
        \*         IF s = 1 THEN 0
        \*         ELSE IF _TETrace[s].added # _TETrace[s-1].added
        \*             THEN 1 + F[s-1] ELSE F[s-1]
        \*     IN F[_TEPosition - 1]
    ]

=============================================================================



Parsing and semantic processing can take forever if the trace below is long.
 In this case, it is advised to uncomment the module below to deserialize the
 trace from a generated binary file.

\*
\*---- MODULE TermListMC_TETrace ----
\*EXTENDS IOUtils, TermListMC, TLC
\*
\*trace == IODeserialize("TermListMC_TTrace_1790457011.bin", TRUE)
\*
\*=============================================================================
\*

---- MODULE TermListMC_TETrace ----
EXTENDS TermListMC, TLC

trace == 
    <<
    ([added |-> <<>>,terms |-> {},lost |-> <<0, 0>>,members |-> <<>>,lostHow |-> {},lastAct |-> <<"Init">>]),
    ([added |-> <<[c |-> <<0, -1>>, ps |-> <<0, 0, 0>>, w |-> 1, f |-> TRUE]>>,terms |-> {[c |-> <<0, -1>>, ps |-> <<0, 0, 0>>, w |-> 1, f |-> TRUE]},lost |-> <<0, 0>>,members |-> ([c |-> <<0, -1>>, ps |-> <<0, 0, 0>>, w |-> 1, f |-> TRUE] :> {1}),lostHow |-> {},lastAct |-> <<"Add", [c |-> <<0, -1>>, ps |-> <<0, 0, 0>>, w |-> 1, f |-> TRUE], "new">>]),
    ([added |-> <<[c |-> <<0, -1>>, ps |-> <<0, 0, 0>>, w |-> 1, f |-> TRUE], [c |-> <<0, -1>>, ps |-> <<0, 0, 5>>, w |-> 1, f |-> TRUE]>>,terms |-> {[c |-> <<0, -1>>, ps |-> <<0, 0, 0>>, w |-> 1, f |-> TRUE], [c |-> <<0, -1>>, ps |-> <<0, 0, 5>>, w |-> 1, f |-> TRUE]},lost |-> <<0, 0>>,members |-> ([c |-> <<0, -1>>, ps |-> <<0, 0, 0>>, w |-> 1, f |-> TRUE] :> {1} @@ [c |-> <<0, -1>>, ps |-> <<0, 0, 5>>, w |-> 1, f |-> TRUE] :> {2}),lostHow |-> {},lastAct |-> <<"Add", [c |-> <<0, -1>>, ps |-> <<0, 0, 5>>, w |-> 1, f |-> TRUE], "new">>]),
    ([added |-> <<[c |-> <<0, -1>>, ps |-> <<0, 0, 0>>, w |-> 1, f |-> TRUE], [c |-> <<0, -1>>, ps |-> <<0, 0, 5>>, w |-> 1, f |-> TRUE], [c |-> <<0, -1>>, ps |-> <<0, 0, 3>>, w |-> 1, f |-> TRUE]>>,terms |-> {[c |-> <<0, -1>>, ps |-> <<0, 0, 0>>, w |-> 1, f |-> TRUE]},lost |-> <<0, -2>>,members |-> ([c |-> <<0, -1>>, ps |-> <<0, 0, 0>>, w |-> 1, f |-> TRUE] :> {1}),lostHow |-> {"refused"},lastAct |-> <<"Add", [c |-> <<0, -1>>, ps |-> <<0, 0, 3>>, w |-> 1, f |-> TRUE], "refused">>])
    >>
----


=============================================================================

---- CONFIG TermListMC_TTrace_1790457011 ----
CONSTANTS
    Kind = "R"
    TolN = 22
    TolD = 5
    CTolN = 5
    CTolD = 2
    Cands <- CandsR
    MaxAdds = 3
    MergeAgain = FALSE
    EmitTrans = FALSE

INVARIANT
    _inv

CHECK_DEADLOCK
    \* CHECK_DEADLOCK off because of PROPERTY or INVARIANT above.
    FALSE

INIT
    _init

NEXT
    _next

CONSTANT
    _TETrace <- _trace

ALIAS
    _expression
=============================================================================
\* Generated on Sat Sep 26 21:10:12 UTC 2026