------------------------------ MODULE ObsTrace ------------------------------
(* C08 / C18: an observable is a function of (model, beta, arguments) only -- not of the symmetry partition chosen, nor of the    *)
(* site labels or the index ordering mode (up to the induced permutation, which the recorder undoes).                             *)
(* Events: [e |-> "Obs", key |-> "<model>|<observable>|<arguments>", vals |-> <<integers>>, var |-> "<partition / labelling>"]    *)
(* where vals are the observed numbers in units of a quantum delta (floor(x / delta)); the first observation under a key is the   *)
(* reference, every later one (another partition or labelling) must agree within one quantum, element by element.                *)
(* |x - y| < delta  =>  |floor(x/delta) - floor(y/delta)| <= 1  =>  |x - y| < 2 delta : sound in both directions.                 *)
EXTENDS Integers, Sequences, Json, IOUtils, TLC
Tr == ndJsonDeserialize(IOEnv.TRACE)
VARIABLES l, ref
IsEvent(e) == l <= Len(Tr) /\ Tr[l].e = e /\ l' = l + 1
Agree(a, b) == Len(a) = Len(b) /\ \A i \in 1..Len(a) : a[i] - b[i] \in -1..1
TraceObs ==
  /\ IsEvent("Obs")
  /\ LET e == Tr[l] IN
     IF e.key \in DOMAIN ref
     THEN Agree(ref[e.key], e.vals) /\ UNCHANGED ref
     ELSE ref' = [k \in (DOMAIN ref) \cup {e.key} |-> IF k = e.key THEN e.vals ELSE ref[k]]
TraceReset == IsEvent("Reset") /\ ref' = [k \in {} |-> <<>>]
TraceInit == l = 1 /\ ref = [k \in {} |-> <<>>]
TraceSpec == TraceInit /\ [][TraceObs \/ TraceReset]_<<l, ref>>
TraceAccepted ==
  LET d == TLCGet("stats").diameter IN
  IF d - 1 = Len(Tr) THEN TRUE ELSE Print(<<"@@REJECT", d - 1, Len(Tr)>>, FALSE)
=============================================================================
