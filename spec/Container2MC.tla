---------------------------- MODULE Container2MC ----------------------------
EXTENDS Container2, Json
CONSTANT EmitTrans
VARIABLE hist
P1 == {<<0, 1>>}
P2 == {<<0, 0>>, <<1, 0>>, <<1, 2>>}
P3 == {<<2, 2>>, <<0, 1>>}
IndexSetsDef == {{}, P1, P2, P3}
MCInit == Init /\ hist = <<>>
MCNext == /\ Next
          /\ hist' = Append(hist, lastAct')
          /\ EmitTrans => PrintT("@@PV " \o ToJson([pre |-> hist, act |-> lastAct', res |-> lastRes']))
mcvars == <<vars, hist>>
MCSpec == MCInit /\ [][MCNext]_mcvars
View == <<EM, elem, ncalls>>
EvaluableAfterBulkA == [][EvaluableAfterBulk']_mcvars
ListsRequestedA == [][ListsRequested']_mcvars
=============================================================================
