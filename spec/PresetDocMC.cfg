SPECIFICATION Spec
INVARIANTS IsHermitian SU2 DocMatches
CHECK_DEADLOCK FALSE
