---------------------------- MODULE TermListTrace ----------------------------
(* Validates add_term histories recorded from the real TermList template over the library's own term types   *)
(* (harness pv_termlist) against TermList.tla:                                                               *)
(*  TBegin          an empty list                                                                             *)
(*  TAdd(t, terms)  after add_term(t) the stored terms must be one of the outcomes the specification allows   *)
(*                  (find() may pick any equivalent element); the definition-level invariants are evaluated   *)
(*                  on the recorded states.                                                                   *)
EXTENDS TermList, Json, IOUtils
Tr == ndJsonDeserialize(IOEnv.TRACE)
VARIABLE l
tvars == <<vars, l>>
IsEvent(e) == l <= Len(Tr) /\ Tr[l].e = e /\ l' = l + 1
ToTerm(j) == [ps |-> j.ps, w |-> j.w, f |-> j.f, c |-> j.c]
SetOf(s) == {ToTerm(s[i]) : i \in 1..Len(s)}
TBegin == /\ IsEvent("TBegin")
          /\ terms' = {} /\ lost' = ZeroC /\ lostHow' = {} /\ added' = <<>> /\ members' = [x \in {} |-> {}] /\ lastAct' = <<"Init">>
TAdd == /\ IsEvent("TAdd")
        /\ LET ev == Tr[l]
               t == [ps |-> ev.t.ps, w |-> 1, f |-> ev.t.f, c |-> ev.t.c]
               n == Len(added) + 1 IN
             /\ ev.exact
             /\ added' = Append(added, t)
             /\ \E r \in Rounds(terms, members, t, {n}, 0) :
                  /\ r.terms = SetOf(ev.terms)
                  /\ Cardinality(r.terms) = Len(ev.terms)
                  /\ terms' = r.terms /\ members' = r.members
                  /\ lost' = AddC(lost, r.lostc)
                  /\ lostHow' = lostHow \cup (CASE r.how = "dropped" -> {"negligible"} [] r.how = "refused" -> {"refused"} [] r.how = "beside" -> {"beside"} [] OTHER -> {})
                  /\ lastAct' = <<"Add", t, r.how>>
TraceInit == l = 1 /\ Init
TraceNext == TBegin \/ TAdd
TraceSpec == TraceInit /\ [][TraceNext]_tvars
TraceAccepted ==
  LET d == TLCGet("stats").diameter IN
  IF d - 1 = Len(Tr) THEN TRUE ELSE Print(<<"@@REJECT", d - 1, Len(Tr)>>, FALSE)
=============================================================================
