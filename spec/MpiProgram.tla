----------------------------- MODULE MpiProgram -----------------------------
(***************************************************************************)
(* The collective communication of a pomerol run on P ranks:               *)
(*   Hamiltonian::prepare(comm); Hamiltonian::compute(comm);               *)
(*   TwoParticleGFContainer::computeAll(clear, freqs, comm, split)         *)
(* Every rank executes a PROGRAM: the sequence of collective operations    *)
(* that the control flow of mpi_skel::run, Hamiltonian::prepare/compute,   *)
(* TwoParticleGF::compute, computeAll_nosplit and computeAll_split issues  *)
(* on that rank (transcribed below), given who computed what (the dispatch *)
(* maps, chosen non-deterministically: any member may own any job).        *)
(* A collective on communicator c completes when EVERY member's next       *)
(* operation on c is the same kind with the same root (the MPI standard    *)
(* lets a collective synchronise); members that meet with different kinds  *)
(* or roots are the error state Mismatch; ranks that can never be matched  *)
(* are a deadlock.  The master/worker loop inside mpi_skel::run is the     *)
(* abstract collective "Disp" (Dispatcher.tla shows it terminates and      *)
(* returns one truthful map to all members).                               *)
(* Data: which rank holds which eigen-data, 2PGF terms, part statuses and  *)
(* frequency tables, and whether a table is the full sum ("valid"), a      *)
(* zero-filled buffer ("zero") or a partial sum ("partial").               *)
(***************************************************************************)
EXTENDS Integers, Sequences, FiniteSets, TLC

CONSTANTS
  P,                 \* ranks 0..P-1
  B,                 \* Hamiltonian blocks 1..B
  NParts,            \* <<n_1,...,n_K>> parts of each 2PGF component in NonTrivialElements order (0 = vanishing)
  Clear, Split,      \* arguments of computeAll
  SkelBarrierOnWorld,\* TRUE: mpi_skel::run calls MPI_Barrier(MPI_COMM_WORLD)   (pinned tree) ; FALSE: comm.barrier()
  RootIsLowest,      \* TRUE: a colour's data is broadcast from its lowest rank (= the reduce root) ; FALSE: from its highest (pinned tree)
  StatusEverywhere   \* TRUE: part statuses are set on every rank that received the terms ; FALSE: pinned tree

Ranks == 0..(P - 1)
World == Ranks
K == Len(NParts)
Comps == 1..K
Parts(k) == 1..NParts[k]
Min(S) == CHOOSE x \in S : \A y \in S : x <= y
Max(S) == CHOOSE x \in S : \A y \in S : x >= y

\* colours of computeAll_split (integer arithmetic of the intended formulas)
NColors == IF K = 0 THEN 0 ELSE IF P < K THEN P ELSE K
ProcColor(p) == (p * NColors) \div P
ElemColor(k) == ((k - 1) * NColors) \div K
ColorComm(col) == {p \in Ranks : ProcColor(p) = col}
ColorRoot(col) == IF RootIsLowest THEN Min(ColorComm(col)) ELSE Max(ColorComm(col))

VARIABLES
  ownH1, ownH2,    \* [1..B -> Ranks]          who prepared / diagonalised block b
  own,             \* [Comps -> [part -> rank]] who computed part p of component k
  pos,             \* [Ranks -> Nat]           program counter
  eigP, eigC,      \* [Ranks -> SUBSET 1..B]   blocks whose matrix / eigen-system the rank holds
  have,            \* [Ranks -> [Comps -> SUBSET parts]]  term lists held
  pdone,           \* [Ranks -> [Comps -> SUBSET parts]]  parts with Status = Computed
  cdone,           \* [Ranks -> SUBSET Comps]             components with Status = Computed
  tab,             \* [Ranks -> [Comps -> {"none","partial","zero","valid"}]]  the compute() return buffer
  ret,             \* [Ranks -> [Comps -> ...]]  what computeAll returned for the component
  err
vars == <<ownH1, ownH2, own, pos, eigP, eigC, have, pdone, cdone, tab, ret, err>>

Op(kind, comm, root, k, p) == [kind |-> kind, comm |-> comm, root |-> root, k |-> k, p |-> p, who |-> "fix"]
OpW(kind, comm, who, k, p) == [kind |-> kind, comm |-> comm, root |-> -1, k |-> k, p |-> p, who |-> who]   \* root = the owner decided by a dispatch
Bar(c)            == Op("Barrier", c, -1, 0, 0)
Disp(c, k)        == Op("Disp", c, -1, k, 0)          \* k = -2 H.prepare, -1 H.compute, >=1 component
BcMap(c)          == Op("BcMap", c, Min(c), 0, 0)     \* serialized broadcast of the jobs / workers vector
BcBlkP(c, b)      == OpW("BcBlkP", c, "h1", b, 0)
BcBlkC(c, b)      == OpW("BcBlkC", c, "h2", b, 0)       \* two raw broadcasts: eigenvectors, eigenvalues
Red(c, k)         == Op("Reduce", c, Min(c), k, 0)
BcT(c, k, p)      == OpW("BcTerms", c, "own", k, p)     \* NonResonantTerms + ResonantTerms of part p, from its owner
BcTD(c, o, k, p)  == Op("BcTermsD", c, o, k, p)       \* same, in the distribution phase of computeAll_split
BcTab(c, o, k)    == Op("BcTab", c, o, k, 0)
Spl(c)            == Op("Split", c, -1, 0, 0)
CollKinds == {"Barrier", "Disp", "BcMap", "BcBlkP", "BcBlkC", "Reduce", "BcTerms", "BcTermsD", "BcTab", "Split"}

RECURSIVE Flat(_)
Flat(ss) == IF ss = <<>> THEN <<>> ELSE Head(ss) \o Flat(Tail(ss))
SeqFor(n, F(_)) == [i \in 1..n |-> F(i)]

\* mpi_skel::run(comm)
Skel(c, k) == << Bar(c), Bar(c), Disp(c, k), Bar(IF SkelBarrierOnWorld THEN World ELSE c), Bar(c), BcMap(c), BcMap(c) >>
\* Hamiltonian::prepare / compute
HPrep(c) == Skel(c, -2) \o << Bar(c) >> \o SeqFor(B, LAMBDA b : BcBlkP(c, b))
HComp(c) == Skel(c, -1) \o << Bar(c) >> \o SeqFor(B, LAMBDA b : BcBlkC(c, b))
\* TwoParticleGF::compute(clear, freqs, comm) of component k
Comp(c, k) == IF NParts[k] = 0 THEN <<>>
              ELSE Skel(c, k) \o << Bar(c), Red(c, k) >> \o
                   (IF Clear THEN <<>> ELSE SeqFor(NParts[k], LAMBDA p : BcT(c, k, p)) \o << Bar(c) >>)
\* computeAll_nosplit / computeAll_split on rank r
NoSplitProg(c) == Flat(SeqFor(K, LAMBDA k : Comp(c, k)))
SplitProg(c, r) ==
   << Bar(c), Spl(c) >> \o
   Flat(SeqFor(K, LAMBDA k : IF ElemColor(k) = ProcColor(r) THEN Comp(ColorComm(ProcColor(r)), k) ELSE <<>>)) \o
   << Bar(c) >> \o
   Flat(SeqFor(K, LAMBDA k : Flat(SeqFor(NParts[k], LAMBDA p :
          << BcTD(c, ColorRoot(ElemColor(k)), k, p), BcTab(c, ColorRoot(ElemColor(k)), k) >>)))) \o
   << Bar(c) >>
ProgSym(r) == HPrep(World) \o HComp(World) \o (IF K = 0 THEN <<>> ELSE IF Split THEN SplitProg(World, r) ELSE NoSplitProg(World))

----------------------------------------------------------------------------
DefaultOwner(k) == Min(IF Split THEN ColorComm(ElemColor(k)) ELSE World)
Init ==
  /\ ownH1 = [b \in 1..B |-> 0] /\ ownH2 = [b \in 1..B |-> 0]      \* placeholders until the dispatch decides
  /\ own = [k \in Comps |-> [p \in Parts(k) |-> DefaultOwner(k)]]
  /\ pos = [r \in Ranks |-> 1]
  /\ eigP = [r \in Ranks |-> {}] /\ eigC = [r \in Ranks |-> {}]
  /\ have = [r \in Ranks |-> [k \in Comps |-> {}]]
  /\ pdone = [r \in Ranks |-> [k \in Comps |-> {}]]
  /\ cdone = [r \in Ranks |-> {}]
  /\ tab = [r \in Ranks |-> [k \in Comps |-> "none"]]
  /\ ret = [r \in Ranks |-> [k \in Comps |-> "none"]]
  /\ err = "none"

\* the programs are constant-level (owners are symbolic in them): evaluated once
ProgTab == [r \in Ranks |-> ProgSym(r)]
Prog(r) == ProgTab[r]
RootOf(o) == CASE o.who = "fix" -> o.root
               [] o.who = "h1" -> ownH1[o.k]
               [] o.who = "h2" -> ownH2[o.k]
               [] o.who = "own" -> own[o.k][o.p]
AtEnd(r) == pos[r] > Len(Prog(r))
Cur(r) == LET o == Prog(r)[pos[r]] IN [o EXCEPT !.root = RootOf(o)]
AtColl(r, c) == ~AtEnd(r) /\ Cur(r).comm = c
Same(a, b) == a.kind = b.kind /\ a.root = b.root /\ a.k = b.k /\ a.p = b.p

\* effect of a completed collective `o' (the operation of any member) on the data of rank r
Eff(o, r) ==
  LET c == o.comm IN
  CASE o.kind = "BcBlkP" -> [eigP |-> eigP[r] \cup (IF o.k \in eigP[o.root] THEN {o.k} ELSE {})]
    [] o.kind = "BcBlkC" -> [eigC |-> eigC[r] \cup (IF o.k \in eigC[o.root] THEN {o.k} ELSE {})]
    [] o.kind = "Reduce" -> [tab |-> IF r = o.root /\ \A m \in c : tab[m][o.k] = "partial" THEN "valid" ELSE "zero",
                             cdone |-> IF Clear THEN cdone[r] \cup {o.k} ELSE cdone[r]]
    [] o.kind = "BcTerms" -> [have |-> have[r][o.k] \cup (IF o.p \in have[o.root][o.k] THEN {o.p} ELSE {}),
                              pdone |-> pdone[r][o.k] \cup {o.p},          \* parts[p]->Status = Computed after the two broadcasts
                              cdone |-> IF o.p = NParts[o.k] THEN cdone[r] \cup {o.k} ELSE cdone[r]]
    [] o.kind = "BcTermsD" -> [have |-> IF o.p \in have[o.root][o.k] THEN have[r][o.k] \cup {o.p} ELSE have[r][o.k] \ {o.p},
                               pdone |-> IF StatusEverywhere /\ ~Clear THEN pdone[r][o.k] \cup {o.p} ELSE pdone[r][o.k],
                               cdone |-> cdone[r] \cup {o.k}]            \* chi.setStatus(Computed)
    [] o.kind = "BcTab" -> [ret |-> tab[o.root][o.k]]
    [] OTHER -> [none |-> 0]

EffDisp(o, r, f) ==
  CASE o.k = -2 -> [eigP |-> eigP[r] \cup {b \in 1..B : f[b] = r}]
    [] o.k = -1 -> [eigC |-> eigC[r] \cup {b \in 1..B : f[b] = r}]
    [] OTHER -> LET mine == {p \in Parts(o.k) : f[p] = r} IN
          [have |-> IF Clear THEN have[r][o.k] ELSE have[r][o.k] \cup mine,
           pdone |-> IF Clear THEN pdone[r][o.k] ELSE pdone[r][o.k] \cup mine,
           tab |-> "partial"]

\* the dispatch of job set o.k on communicator c decides who owns which job: any member may get any job
Assign(o, c, f) ==
  CASE o.kind = "Disp" /\ o.k = -2 -> ownH1' = f /\ UNCHANGED <<ownH2, own>>
    [] o.kind = "Disp" /\ o.k = -1 -> ownH2' = f /\ UNCHANGED <<ownH1, own>>
    [] o.kind = "Disp" /\ o.k >= 1 -> own' = [own EXCEPT ![o.k] = f] /\ UNCHANGED <<ownH1, ownH2>>
    [] OTHER -> UNCHANGED <<ownH1, ownH2, own>>
JobsOf(o) == IF o.kind # "Disp" THEN {} ELSE IF o.k < 0 THEN 1..B ELSE Parts(o.k)

\* effect with the owners of the dispatched job set given explicitly (they are decided by this very step)
FireWith(c, f) ==
  /\ err = "none"
  /\ \A m \in c : AtColl(m, c)
  /\ LET o == Cur(Min(c)) IN
     IF \A m \in c : Same(Cur(m), o)
     THEN /\ Assign(o, c, f)
          /\ pos' = [r \in Ranks |-> IF r \in c THEN pos[r] + 1 ELSE pos[r]]
          /\ LET E(r) == IF o.kind = "Disp" THEN EffDisp(o, r, f) ELSE Eff(o, r) IN
             /\ eigP' = [r \in Ranks |-> IF r \in c /\ "eigP" \in DOMAIN E(r) THEN E(r).eigP ELSE eigP[r]]
             /\ eigC' = [r \in Ranks |-> IF r \in c /\ "eigC" \in DOMAIN E(r) THEN E(r).eigC ELSE eigC[r]]
             /\ cdone' = [r \in Ranks |-> IF r \in c /\ "cdone" \in DOMAIN E(r) THEN E(r).cdone ELSE cdone[r]]
             /\ have' = [r \in Ranks |-> IF r \in c /\ "have" \in DOMAIN E(r) THEN [have[r] EXCEPT ![o.k] = E(r).have] ELSE have[r]]
             /\ pdone' = [r \in Ranks |-> IF r \in c /\ "pdone" \in DOMAIN E(r) THEN [pdone[r] EXCEPT ![o.k] = E(r).pdone] ELSE pdone[r]]
             /\ tab' = [r \in Ranks |-> IF r \in c /\ "tab" \in DOMAIN E(r) THEN [tab[r] EXCEPT ![o.k] = E(r).tab] ELSE tab[r]]
             /\ ret' = [r \in Ranks |-> IF r \in c /\ "ret" \in DOMAIN E(r) THEN [ret[r] EXCEPT ![o.k] = E(r).ret] ELSE ret[r]]
          /\ UNCHANGED err
     ELSE /\ err' = "Mismatch"
          /\ UNCHANGED <<pos, eigP, eigC, have, pdone, cdone, tab, ret, ownH1, ownH2, own>>
Fire(c) == (\A m \in c : AtColl(m, c)) /\ \E f \in [JobsOf(Cur(Min(c))) -> c] : FireWith(c, f)

Comms == {World} \cup {ColorComm(col) : col \in 0..(NColors - 1)}
\* nosplit: compute() returns its buffer directly
Finish ==
  /\ err = "none" /\ (\A r \in Ranks : AtEnd(r)) /\ ~Split /\ ret # tab
  /\ ret' = tab
  /\ UNCHANGED <<ownH1, ownH2, own, pos, eigP, eigC, have, pdone, cdone, tab, err>>
Next == (\E c \in Comms : Fire(c)) \/ Finish
Spec == Init /\ [][Next]_vars
FairSpec == Spec /\ WF_vars(Next)

----------------------------------------------------------------------------
(* Definition level *)
AllEnded == \A r \in Ranks : AtEnd(r)
Settled == AllEnded /\ (Split \/ ret = tab)
NoMismatch == err = "none"
\* a state in which nothing can happen is the end of every program (no rank waits for ever)
NoDeadlock == (\A c \in Comms : ~ENABLED Fire(c)) => AllEnded
\* every rank holds every block's matrix and eigen-system
EigenEverywhere == AllEnded => \A r \in Ranks : eigP[r] = 1..B /\ eigC[r] = 1..B
NonVan == {k \in Comps : NParts[k] > 0}
\* tables: the full sum reaches every rank the interface returns it to
TablesDelivered == Settled =>
    \A k \in NonVan : IF Split THEN \A r \in Ranks : ret[r][k] = "valid" ELSE ret[0][k] = "valid"
\* terms (when kept): every rank holds all term lists and can evaluate the component
TermsEvaluable == (AllEnded /\ ~Clear) =>
    \A k \in NonVan : \A r \in Ranks : have[r][k] = Parts(k) /\ pdone[r][k] = Parts(k) /\ k \in cdone[r]
Termination == <>AllEnded
=============================================================================
