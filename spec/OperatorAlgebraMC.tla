-------------------------- MODULE OperatorAlgebraMC --------------------------
(* every product of up to MaxLen elementary operators over NM modes: the transcribed normal ordering is correct;   *)
(* and the canonical anticommutation relations of the Jordan-Wigner matrices.                                       *)
EXTENDS OperatorAlgebra, TLC
CONSTANTS NM, MaxLen
VARIABLE m
Ops == {0, 1} \X (0..(NM - 1))
Monos == UNION {[1..n -> Ops] : n \in 0..MaxLen}
Init == m \in Monos
Next == UNCHANGED m
Spec == Init /\ [][Next]_m
Correct == NormalOrderCorrect(m, NM)
CARHolds == CAR(NM)
\* the set representation of Fock states (used beyond one machine word) acts like the integer one, for the monomial m
SetAgrees == SetActionAgrees(NM, {m})
=============================================================================
