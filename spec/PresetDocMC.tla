----------------------------- MODULE PresetDocMC -----------------------------
(* Design vs definition for the lattice presets: for every preset call on every small lattice, the term list the   *)
(* preset appends (Lattice.tla, transcribed from LatticePresets.cpp) has the same Fock-space matrix as the operator *)
(* written in the documentation (Hamiltonian.tla, the Doc operators), that matrix is Hermitian, and the Kanamori interaction     *)
(* with U' = U - 2J and the spin-spin exchange commute with the total-spin raising operator.                        *)
EXTENDS Hamiltonian, TLC
VARIABLES S, call
Lab == <<"A", "B">>
SiteRec == [orb : 1..3, spin : 1..2]
Layouts == {s \in [{"A", "B"} -> SiteRec] : s["A"].orb * s["A"].spin + s["B"].orb * s["B"].spin <= 6 /\ s["B"].orb <= 2}
AmpsDef == {0, 4, -8, 12}
Off(l) == IF l = "A" THEN 0 ELSE S["A"].orb * S["A"].spin
Ix(l, o, s) == Off(l) + o * S[l].spin + s
NModes == S["A"].orb * S["A"].spin + S["B"].orb * S["B"].spin
Calls ==
  {<<"addCoulombS", l, u, e>> : l \in {"A", "B"}, u \in {4, -8, 0}, e \in {0, 4}} \cup
  {<<"addCoulombP", l, u, up, j, e>> : l \in {"A"}, u \in {8, 0}, up \in {4, 12, 0}, j \in {0, 4}, e \in {0, 4}} \cup
  {<<"addCoulombP3", l, u, j, e>> : l \in {"A"}, u \in {12, 8}, j \in {4, -4}, e \in {-8}} \cup
  {<<"addLevel", l, e>> : l \in {"A", "B"}, e \in {4, -8}} \cup
  {<<"addMagnetization", l, e>> : l \in {"A", "B"}, e \in {4, -8}} \cup
  {<<"addSzSz", l1, l2, j>> : l1 \in {"A", "B"}, l2 \in {"A", "B"}, j \in {4, -8}} \cup
  {<<"addSS", l1, l2, j>> : l1 \in {"A", "B"}, l2 \in {"A", "B"}, j \in {4, -8}} \cup
  {<<"addHopping8", l1, l2, t, o1, o2, s1, s2>> : l1 \in {"A", "B"}, l2 \in {"A", "B"}, t \in {4, -8}, o1 \in {0, 1}, o2 \in {0}, s1 \in {0, 1}, s2 \in {1}} \cup
  {<<"addHopping6", l1, l2, t, o1, o2>> : l1 \in {"A", "B"}, l2 \in {"A", "B"}, t \in {4}, o1 \in {0, 1}, o2 \in {0, 1}} \cup
  {<<"addHopping4", l1, l2, t>> : l1 \in {"A", "B"}, l2 \in {"A", "B"}, t \in {4, -8}}
Init == S \in Layouts /\ call \in Calls
Next == UNCHANGED <<S, call>>
Spec == Init /\ [][Next]_<<S, call>>

PresetOf(f) ==
  LET fn == f[1] IN
  CASE fn = "addCoulombS"      -> CoulombS(S, f[2], f[3], f[4])
    [] fn = "addCoulombP"      -> CoulombP(S, f[2], f[3], f[4], f[5], f[6])
    [] fn = "addCoulombP3"     -> CoulombP(S, f[2], f[3], f[3] - 2 * f[4], f[4], f[5])
    [] fn = "addLevel"         -> LevelP(S, f[2], f[3])
    [] fn = "addMagnetization" -> Magnetization(S, f[2], f[3])
    [] fn = "addSzSz"          -> SzSz(S, f[2], f[3], f[4])
    [] fn = "addSS"            -> SS(S, f[2], f[3], f[4])
    [] fn = "addHopping8"      -> Hopping8(S, f[2], f[3], f[4], f[5], f[6], f[7], f[8])
    [] fn = "addHopping6"      -> Hopping6(S, f[2], f[3], f[4], f[5], f[6])
    [] fn = "addHopping4"      -> Hopping4(S, f[2], f[3], f[4])

CodeMat == MScale(<<DocScale, 0>>, PolyMat(TermsPoly(PresetOf(call).add, Ix), NModes))
DocMat  == PolyMat(DocPreset(S, Ix, call), NModes)
Defined == PresetOf(call).guard
DocMatches == (Defined /\ call[1] # "addMagnetization") => CodeMat = DocMat
\* kept apart: the documentation of addMagnetization has a factor 1/2 the code does not have (known finding F13)
DocMatchesMagnetization == (Defined /\ call[1] = "addMagnetization") => CodeMat = DocMat
IsHermitian == Defined => Hermitian(CodeMat)
\* total-spin raising operator  S+ = sum c+_{l a up} c_{l a down} over sites with two spins
SplusPoly == Flatten(SeqOf({l \in {"A", "B"} : S[l].spin = 2}, LAMBDA l :
                 SeqOf(Orb(S, l), LAMBDA a : PTerm(<< <<1, Ix(l, a, SpUp)>>, <<0, Ix(l, a, SpDown)>> >>, 1, 0))))
SU2 == (Defined /\ call[1] \in {"addCoulombP3", "addSS"}) => MComm(CodeMat, PolyMat(SplusPoly, NModes)) = Zero
=============================================================================
