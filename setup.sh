#!/bin/bash
# MANIFEST.setup_cmd: offline. Parses every specification module and pre-builds the library variants used by quick checks.
cd "$(dirname "$0")"
mkdir -p build out evidence
rc=0
for f in spec/*.tla; do
  ( cd spec && tla-sany "$(basename "$f")" > /dev/null 2>&1 ) || { echo "SANY failed: $f"; rc=2; }
done
python3-vt tools/build.py plain pv_driver > /dev/null || rc=2
python3-vt tools/build.py plain pv_mpi > /dev/null || rc=2
python3-vt tools/build.py cplx pv_driver > /dev/null || rc=2     # complex matrix-element build (C03, C04, C07, C10)
python3-vt tools/build.py asan pv_driver > /dev/null || rc=2     # sanitizer build (C17)
python3-vt tools/build.py plain pv_termlist > /dev/null || rc=2  # term container (C01, C02, C14)
exit $rc
