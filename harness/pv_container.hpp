// TwoParticleGFContainer / IndexContainer4 state machine (spec/Container4.tla) on the real container.
#pragma once
#include "pv_model.hpp"

namespace pv {

struct ContainerBox {
    Model& m;
    TwoParticleGFContainer* C = nullptr;
    DensityMatrix* D = nullptr;
    std::map<const TwoParticleGF*, int> ids;
    std::vector<boost::shared_ptr<TwoParticleGF> > keep;   // keeps every element alive so that addresses are never reused
    std::map<std::vector<int>, TwoParticleGF*> direct;
    json triples;

    ContainerBox(Model& mm, const std::string& beta, const json& tr) : m(mm), triples(tr) {
        D = m.dm(beta);
        FieldOperatorContainer* ops = m.ops();
        if (D && ops) C = new TwoParticleGFContainer(*m.IC, *m.S, *m.H, *D, *ops);
    }
    static std::vector<int> qv(const json& q) { return {q[0].get<int>(), q[1].get<int>(), q[2].get<int>(), q[3].get<int>()}; }
    static IndexCombination4 ic(const json& q) { return IndexCombination4(q[0].get<int>(), q[1].get<int>(), q[2].get<int>(), q[3].get<int>()); }
    static json qj(const IndexCombination4& i) { return json::array({int(i.Index1), int(i.Index2), int(i.Index3), int(i.Index4)}); }
    static json idx_of(const TwoParticleGF& g) { return json::array({int(g.getIndex(0)), int(g.getIndex(1)), int(g.getIndex(2)), int(g.getIndex(3))}); }

    void assign_ids() {
        std::vector<const TwoParticleGF*> fresh;
        for (auto& kv : C->ElementsMap) if (!ids.count(kv.second.pElement.get())) { fresh.push_back(kv.second.pElement.get()); keep.push_back(kv.second.pElement); }
        for (auto& kv : C->NonTrivialElements) if (!ids.count(kv.second.get())) { fresh.push_back(kv.second.get()); keep.push_back(kv.second); }
        std::sort(fresh.begin(), fresh.end());
        fresh.erase(std::unique(fresh.begin(), fresh.end()), fresh.end());
        std::sort(fresh.begin(), fresh.end(), [](const TwoParticleGF* a, const TwoParticleGF* b) {
            return idx_of(*a) < idx_of(*b);
        });
        for (auto* p : fresh) { int n = ids.size() + 1; ids[p] = n; }
    }
    static int perm_no(const Permutation4& p) {
        for (int k = 0; k < 24; ++k) if (permutations4[k] == p) return k;
        return -1;
    }
    static const char* st(unsigned s) { return s == 0 ? "C" : (s == 1 ? "P" : "M"); }

    void project(json& rec) {
        assign_ids();
        json em = json::array(), nt = json::array(), el = json::array();
        std::set<const TwoParticleGF*> seen;
        for (auto& kv : C->ElementsMap) {
            em.push_back(json::array({qj(kv.first), ids[kv.second.pElement.get()], perm_no(kv.second.FrequenciesPermutation)}));
            seen.insert(kv.second.pElement.get());
        }
        for (auto& kv : C->NonTrivialElements) { nt.push_back(json::array({qj(kv.first), ids[kv.second.get()]})); seen.insert(kv.second.get()); }
        for (auto* p : seen) {
            TwoParticleGF* g = const_cast<TwoParticleGF*>(p);
            bool parts_ok = true;
            for (auto* pp : g->parts) if (pp->Status != TwoParticleGFPart::Computed) parts_ok = false;
            el.push_back(json::array({ids[p], idx_of(*g), st(g->getStatus()), (int)g->parts.size(), parts_ok}));
        }
        rec["em"] = em; rec["nt"] = nt; rec["el"] = el;
    }

    TwoParticleGF* direct_for(const json& q) {
        auto k = qv(q);
        auto it = direct.find(k);
        if (it != direct.end()) return it->second;
        FieldOperatorContainer* ops = m.ops();
        TwoParticleGF* g = new TwoParticleGF(*m.S, *m.H, ops->getAnnihilationOperator(k[0]), ops->getAnnihilationOperator(k[1]),
                                            ops->getCreationOperator(k[2]), ops->getCreationOperator(k[3]), *D);
        g->prepare(); g->compute();
        direct[k] = g;
        return g;
    }

    json call(const json& act) {
        std::string name = act[0].get<std::string>();
        json rec = {{"e", "Call"}, {"act", act}};
        std::string res = "ok";
        std::string ex = classify_exception([&] {
            if (name == "PrepareAll") {
                std::set<IndexCombination4> s;
                for (const json& q : act[1]) s.insert(ic(q));
                C->prepareAll(s);
            } else if (name == "ComputeAll") {
                std::vector<boost::tuple<ComplexType, ComplexType, ComplexType> > nofreq;
                C->computeAll(false, nofreq, m.world, act[1].get<bool>());
            } else if (name == "Lookup") {
                (*C)(ic(act[1]));
            } else if (name == "PrepareElem") {
                static_cast<TwoParticleGF&>((*C)(ic(act[1]))).prepare();
            } else if (name == "ComputeElem") {
                static_cast<TwoParticleGF&>((*C)(ic(act[1]))).compute();
            } else if (name == "Eval") {
                ElementWithPermFreq<TwoParticleGF>& e = (*C)(ic(act[1]));
                TwoParticleGF& g = static_cast<TwoParticleGF&>(e);
                if (g.getStatus() == TwoParticleGF::Constructed) res = "zero"; else res = "value";
                TwoParticleGF* ref = direct_for(act[1]);
                double maxdiff = 0, scale = 0;
                json vals = json::array();
                for (const json& t : triples) {
                    long n1 = t[0].get<long>(), n2 = t[1].get<long>(), n3 = t[2].get<long>();
                    ComplexType a = e(n1, n2, n3);             // may throw: parts not computed
                    ComplexType b = (*ref)(n1, n2, n3);
                    maxdiff = std::max(maxdiff, std::abs(a - b));
                    scale = std::max(scale, std::abs(b));
                    if (vals.size() < 2) vals.push_back(json::array({t, cj(a), cj(b)}));
                }
                rec["maxdiff"] = dstr(maxdiff); rec["scale"] = dstr(scale); rec["vals"] = vals;
                rec["agrees"] = maxdiff <= 1e-10 * (1 + scale);
            } else throw std::runtime_error("harness: unknown container call " + name);
        });
        if (!ex.empty()) { res = "throw"; rec["ex"] = ex; }
        rec["res"] = res;
        project(rec);
        return rec;
    }
};

// {"kind":"container4", <model fields>, "beta":"..","triples":[[n1,n2,n3]..],"calls":[...],"log":"last"?}
inline void run_container(const json& sc) {
    Model m(sc);
    ContainerBox box(m, Model::beta_str(sc.at("beta")), sc.at("triples"));
    if (!box.C) { emit({{"e", "Fail"}, {"id", sc.value("id", json())}, {"fail", m.fail}}); return; }
    bool last_only = sc.value("log", "") == "last";
    size_t n = sc.at("calls").size(), step = 0;
    for (const json& act : sc.at("calls")) {
        json rec = box.call(act);
        rec["id"] = sc.value("id", json());
        rec["step"] = ++step;
        if (!last_only || step == n) emit(rec);
    }
    if (!last_only) emit({{"e", "End"}, {"id", sc.value("id", json())}});
}

} // namespace pv
