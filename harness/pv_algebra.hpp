// Symbolic operator algebra (C05): evaluates the library's Operator arithmetic on given polynomials and dumps the
// Fock-space matrices through getMatrixElement / actRight, plus the flags commutes / ==.
#pragma once
#include "pv_common.hpp"

namespace pv {

// poly = [[re, im, [[c, idx], ...]], ...] integer coefficients; factors multiplied left to right by the library
inline Operator poly_from_json(const json& poly) {
    Operator R;
    for (const json& t : poly) {
        Operator m;
        bool first = true;
        for (const json& f : t[2]) {
            Operator x = f[0].get<int>() ? OperatorPresets::c_dag(f[1].get<int>()) : OperatorPresets::c(f[1].get<int>());
            if (first) { m = x; first = false; } else m = m * x;
        }
        MelemType z = mk_melem(t[0].get<double>(), t[1].get<double>());
        if (first) { Operator one; one += z; R += one; }
        else R += m * z;
    }
    return R;
}
inline json op_entries(const Operator& O, int M, long den = 1) {
    json e = json::array();
    unsigned long NS = 1ul << M;
    for (unsigned long k = 0; k < NS; ++k) {
        FockState ket(M, k);
        std::map<FockState, MelemType> img = O.actRight(ket);
        for (unsigned long b = 0; b < NS; ++b) {
            FockState bra(M, b);
            MelemType v = O.getMatrixElement(bra, ket);
            // actRight and getMatrixElement must tell the same story
            MelemType w = img.count(bra) ? img[bra] : MelemType(0);
            if (v != w) e.push_back(json::array({(long)b, (long)k, "actRight-mismatch", "x"}));
            else if (v != MelemType(0)) e.push_back(json::array({(long)b, (long)k, exact_num(mre(v), den), exact_num(mim(v), den)}));
        }
    }
    return e;
}
// the vector overload getMatrixElement(bra, ket, states) with unit vectors over a basis list in a given order
// (0 ascending, 1 descending, 2 grouped by particle number): entries are reported by Fock state, so the order must not matter
inline json op_entries_vec(const Operator& O, int M, int order) {
    unsigned long NS = 1ul << M;
    std::vector<unsigned long> idx(NS);
    for (unsigned long k = 0; k < NS; ++k) idx[k] = k;
    if (order == 1) std::reverse(idx.begin(), idx.end());
    if (order == 2) std::stable_sort(idx.begin(), idx.end(), [](unsigned long a, unsigned long b) { return __builtin_popcountl(a) > __builtin_popcountl(b); });
    std::vector<FockState> states;
    for (unsigned long k : idx) states.push_back(FockState(M, k));
    json e = json::array();
    for (unsigned long k = 0; k < NS; ++k) for (unsigned long b = 0; b < NS; ++b) {
        VectorType bra = VectorType::Zero(NS), ket = VectorType::Zero(NS);
        bra(b) = 1; ket(k) = 1;
        MelemType v = O.getMatrixElement(bra, ket, states);
        if (v != MelemType(0)) e.push_back(json::array({(long)idx[b], (long)idx[k], exact_num(mre(v), 1), exact_num(mim(v), 1)}));
    }
    return e;
}
inline json op_monomials(const Operator& O) {
    json out = json::array();
    for (auto it = O.begin(); it != O.end(); ++it) {
        json ops = json::array();
        for (auto& ci : it->first) ops.push_back(json::array({boost::get<0>(ci) == Operator::creation ? 1 : 0, int(boost::get<1>(ci))}));
        out.push_back(json::array({exact_num(mre(it->second), 1), exact_num(mim(it->second), 1), ops}));
    }
    return out;
}

// {"kind":"algebra","id":..,"M":m,"A":poly,"B":poly,"alpha":[re,im]}
inline void run_algebra(const json& sc) {
    int M = sc.at("M").get<int>();
    json r = {{"e", "Alg"}, {"id", sc.value("id", json())}, {"M", M}, {"A", sc["A"]}, {"B", sc["B"]}, {"alpha", sc["alpha"]}};
    std::string ex = classify_exception([&] {
        Operator A = poly_from_json(sc["A"]), B = poly_from_json(sc["B"]);
        MelemType alpha = mk_melem(sc["alpha"][0].get<double>(), sc["alpha"][1].get<double>());
        r["mA"] = op_entries(A, M);
        r["mB"] = op_entries(B, M);
        r["mul"] = op_entries(A * B, M);
        r["add"] = op_entries(A + B, M);
        r["sub"] = op_entries(A - B, M);
        // "alpha_log2": k -- the scalar is alpha * 2^-k (exact in binary; entries are logged times 2^k): a scalar factor is a scalar factor at
        // every magnitude; right and left multiplication and the compound assignment
        const int al2 = sc.value("alpha_log2", 0);
        const long den = 1L << al2;
        alpha = alpha * MelemType(std::ldexp(1.0, -al2));
        r["scale"] = op_entries(A * alpha, M, den);
        r["scale_l"] = op_entries(alpha * A, M, den);
        { Operator P = A; P *= alpha; r["scale_c"] = op_entries(P, M, den); }
        if (al2) r["alpha_log2"] = al2;
        r["comm"] = op_entries(A.getCommutator(B), M);
        r["anti"] = op_entries(A.getAntiCommutator(B), M);
        r["neg"] = op_entries(-A, M);
        r["commutes"] = A.commutes(B);
        r["equal"] = (A == B);
        r["equal_self"] = (A == poly_from_json(sc["A"]));
        r["mulpoly"] = op_monomials(A * B);
        // compound assignments with the SAME object on both sides
        { Operator P = A; P *= P; r["selfmul"] = op_entries(P, M); }
        { Operator P = A; P += P; r["selfadd"] = op_entries(P, M); }
        { Operator P = A; P -= P; r["selfsub"] = op_entries(P, M); }
        r["vec0"] = op_entries_vec(A, M, 0); r["vec1"] = op_entries_vec(A, M, 1); r["vec2"] = op_entries_vec(A * B, M, 2);
        if (sc.count("C")) {
            Operator C = poly_from_json(sc["C"]);
            r["C"] = sc["C"];
            r["assocL"] = op_entries((A * B) * C, M);
            r["assocR"] = op_entries(A * (B * C), M);
        }
    });
    if (!ex.empty()) r["ex"] = ex;
    emit(r);
}

// {"kind":"nsz","id":..,"M":m,"up":[indices]}: specialised N and Sz against their generic polynomial forms
inline void run_nsz(const json& sc) {
    int M = sc.at("M").get<int>();
    json r = {{"e", "NSz"}, {"id", sc.value("id", json())}, {"M", M}, {"up", sc["up"]}};
    if (sc.count("down")) r["down"] = sc["down"];      // the two-list constructor: S_z of a sub-cluster (modes outside both lists are spectators)
    std::string ex = classify_exception([&] {
        OperatorPresets::N Nop(M);
        std::vector<ParticleIndex> up;
        for (auto& x : sc["up"]) up.push_back(x.get<int>());
        std::vector<ParticleIndex> down;
        if (sc.count("down")) for (auto& x : sc["down"]) down.push_back(x.get<int>());
        OperatorPresets::Sz Sop = sc.count("down") ? OperatorPresets::Sz(up, down) : OperatorPresets::Sz(M, up);
        Operator Ngen(Nop), Sgen(Sop);       // sliced copies: the generic polynomial forms
        unsigned long NS = 1ul << M;
        json rows = json::array();
        for (unsigned long k = 0; k < NS; ++k) {
            FockState ket(M, k);
            std::map<FockState, MelemType> a = Nop.actRight(ket), b = Sop.actRight(ket);
            bool diagN = a.size() == 1 && a.begin()->first == ket, diagS = b.size() == 1 && b.begin()->first == ket;
            rows.push_back(json::array({(long)k, exact_num(mre(Nop.getMatrixElement(ket)), 1), exact_num(mre(Ngen.getMatrixElement(ket, ket)), 1),
                                        exact_num(mre(Sop.getMatrixElement(ket)), 2), exact_num(mre(Sgen.getMatrixElement(ket, ket)), 2),
                                        exact_num(mre(Nop.getMatrixElement(ket, ket)), 1), exact_num(mre(Sop.getMatrixElement(ket, ket)), 2),
                                        diagN && diagS, exact_num(mre(a.begin()->second), 1), exact_num(mre(b.begin()->second), 2)}));
        }
        r["rows"] = rows;
        // off-diagonal elements of the specialised operators must vanish
        bool offdiag_zero = true;
        for (unsigned long k = 0; k < NS && offdiag_zero; ++k) for (unsigned long b2 = 0; b2 < NS; ++b2)
            if (b2 != k && (Nop.getMatrixElement(FockState(M, b2), FockState(M, k)) != MelemType(0) || Sop.getMatrixElement(FockState(M, b2), FockState(M, k)) != MelemType(0))) offdiag_zero = false;
        r["offdiag_zero"] = offdiag_zero;
    });
    if (!ex.empty()) r["ex"] = ex;
    emit(r);
}

// {"kind":"bigfock","id":..,"M":m,"rows":[[monomial [[c,idx]..], [occupied modes]], ...]}: action of single monomials on Fock states with many
// modes (more than one word of the underlying bitset), through Operator::actRight(ket) of the product operator
inline void run_bigfock(const json& sc) {
    int M = sc.at("M").get<int>();
    json r = {{"e", "Big"}, {"id", sc.value("id", json())}, {"M", M}};
    json rows = json::array();
    std::string ex = classify_exception([&] {
        for (const json& row : sc.at("rows")) {
            Operator O;
            bool first = true;
            for (const json& f : row[0]) {
                Operator x = f[0].get<int>() ? OperatorPresets::c_dag(f[1].get<int>()) : OperatorPresets::c(f[1].get<int>());
                if (first) { O = x; first = false; } else O = O * x;
            }
            FockState ket(M, 0);
            for (const json& k : row[1]) ket[k.get<int>()] = 1;
            json img_occ = json::array();
            long sign = 0;
            if (!first) {
                // the product is normal-ordered by the library; its action is the sum over the resulting monomials
                std::map<FockState, MelemType> img = O.actRight(ket);
                if (img.size() == 1 && std::abs(std::abs(mre(img.begin()->second)) - 1.0) < 1e-12 && mim(img.begin()->second) == 0) {
                    sign = mre(img.begin()->second) > 0 ? 1 : -1;
                    const FockState& b = img.begin()->first;
                    for (int k = 0; k < M; ++k) if (b[k]) img_occ.push_back(k);
                } else if (img.size() > 1) sign = 99;       // a monomial maps a basis state to at most one basis state
            }
            rows.push_back(json::array({row[0], row[1], sign, img_occ}));
        }
    });
    r["rows"] = rows;
    if (!ex.empty()) r["ex"] = ex;
    emit(r);
}

} // namespace pv
