// Model pipeline: lattice -> indices -> Hamiltonian -> symmetries -> blocks -> eigen-system -> observables,
// driven by a list of queries; every query logs what the specification needs to see.
#pragma once
#include "pv_common.hpp"
#include "pv_lattice.hpp"
#include <Eigen/Dense>

namespace pv {

typedef Eigen::Matrix<ComplexType, Eigen::Dynamic, Eigen::Dynamic> CMat;

struct Model {
    json sc;
    LatticeBox box;
    Lattice* L = nullptr;
    IndexClassification* IC = nullptr;
    IndexHamiltonian* HS = nullptr;
    Symmetrizer* Symm = nullptr;
    StatesClassification* S = nullptr;
    Hamiltonian* H = nullptr;
    FieldOperatorContainer* Ops = nullptr;
    std::map<std::string, DensityMatrix*> DMs;       // by beta string
    std::string fail;                                 // stage that failed + exception class
    int M = 0;
    boost::mpi::communicator world;

    explicit Model(const json& s) : sc(s) {}

    // ------------------------------------------------------------------ stages
    bool stage(const char* name, std::function<void()> f) {
        if (!fail.empty()) return false;
        std::string ex = classify_exception(f);
        if (!ex.empty()) { fail = std::string(name) + ":" + ex; return false; }
        return true;
    }

    static Operator op_from_json(const json& o) {
        // {"poly":[ [num, den, [[c, idx], ...]], ... ]}   c = 1 creation / 0 annihilation (factors left to right)
        // or [[num, den, [modes...]], ...]                 meaning sum num/den * prod n_mode
        Operator R;
        if (o.is_object()) {
            for (const json& t : o.at("poly")) {
                Operator m;
                bool first = true;
                for (const json& f : t[2]) {
                    Operator x = f[0].get<int>() ? OperatorPresets::c_dag(f[1].get<int>()) : OperatorPresets::c(f[1].get<int>());
                    if (first) { m = x; first = false; } else m = m * x;
                }
                if (first) { Operator one; one += MelemType(1.0); m = one; }
                R += m * MelemType(double(t[0].get<long>()) / double(t[1].get<long>()));
            }
        } else {
            for (const json& t : o) {
                Operator m;
                bool first = true;
                for (const json& k : t[2]) {
                    Operator x = OperatorPresets::n(k.get<int>());
                    if (first) { m = x; first = false; } else m = m * x;
                }
                if (first) { Operator one; one += MelemType(1.0); m = one; }
                R += m * MelemType(double(t[0].get<long>()) / double(t[1].get<long>()));
            }
        }
        return R;
    }

    bool build_lattice() {
        if (L) return fail.empty();
        if (sc.count("den")) box.den = sc["den"].get<long>();
        // "unit_log2": k -- every amplitude of the model is given in units of 2^-k (an exact rescaling of H: eigenvectors unchanged, spectrum scaled)
        if (sc.value("unit_log2", 0)) box.den = box.den << sc["unit_log2"].get<int>();
        L = box.lat[1];
        return stage("lattice", [&] {
            for (const json& s : sc.at("sites")) L->addSite(s[0].get<std::string>(), s[1].get<int>(), s[2].get<int>());
            for (const json& act : sc.at("build")) {
                json r = box.call(act);
                if (r["res"] != "ok") throw std::runtime_error("build call rejected: " + act.dump() + " " + r.value("ex", ""));
            }
            // "tiny": terms with amplitude 2^-exp added to the lattice but NOT told to the specification: a perturbation that is numerically
            // non-zero and breaks a symmetry of the model the specification knows (the partition must not be finer than the real H allows)
            if (sc.count("tiny")) for (const json& t : sc["tiny"]) {
                json tt = {{"ops", t.at("ops")}, {"v", 1}};
                Lattice::Term* T = LatticeBox::mk_term(tt, 1);
                T->Value = mk_melem(std::ldexp(1.0, -t.at("exp").get<int>()), 0);
                L->addTerm(T);
                delete T;
            }
        });
    }
    bool build_index() {
        if (IC) return fail.empty();
        if (!build_lattice()) return false;
        return stage("index", [&] {
            IC = new IndexClassification(L->getSiteMap());
            IC->prepare(sc.value("order_spins", false));
            M = IC->getIndexSize();
            HS = new IndexHamiltonian(L, *IC);
            HS->prepare();
        });
    }
    bool build_blocks() {
        if (S) return fail.empty();
        if (!build_index()) return false;
        return stage("symmetry", [&] {
            Symm = new Symmetrizer(*IC, *HS);
            json part = sc.value("partition", json::object());
            std::string mode = part.value("mode", "default");
            if (mode == "default") Symm->compute(false);
            else if (mode == "ignore") Symm->compute(true);
            else {
                std::vector<Operator> ops;
                for (const json& o : part.at("ops")) ops.push_back(op_from_json(o));
                Symm->compute(ops);
            }
            S = new StatesClassification(*IC, *Symm);
            S->compute();
        });
    }
    bool build_h(bool compute = true) {
        if (!build_blocks()) return false;
        if (!H) {
            if (!stage("hamiltonian.prepare", [&] { H = new Hamiltonian(*IC, *HS, *S); H->prepare(world); })) return false;
        }
        if (compute && H->getStatus() < Hamiltonian::Computed)
            return stage("hamiltonian.compute", [&] { H->compute(world); });
        return fail.empty();
    }
    DensityMatrix* dm(const std::string& beta) {
        if (!build_h()) return nullptr;
        auto it = DMs.find(beta);
        if (it != DMs.end()) return it->second;
        DensityMatrix* d = nullptr;
        if (!stage("densitymatrix", [&] { d = new DensityMatrix(*S, *H, std::stod(beta)); d->prepare(); d->compute(); })) return nullptr;
        DMs[beta] = d;
        return d;
    }
    FieldOperatorContainer* ops() {
        if (!build_h()) return nullptr;
        if (Ops) return Ops;
        if (!stage("fieldoperators", [&] { Ops = new FieldOperatorContainer(*IC, *S, *H); Ops->prepareAll(); Ops->computeAll(); })) return nullptr;
        return Ops;
    }

    static std::string beta_str(const json& b) { return b.is_string() ? b.get<std::string>() : dstr(b.get<double>()); }

    // ------------------------------------------------------------------ projections
    json jq_index() {
        json tab = json::array();
        for (int i = 0; i < M; ++i) {
            IndexClassification::IndexInfo info = IC->getInfo(i);
            tab.push_back(json::array({info.SiteLabel, int(info.Orbital), int(info.Spin)}));
        }
        return tab;
    }
    json jq_hpoly() {
        json out = json::array();
        for (auto it = HS->begin(); it != HS->end(); ++it) {
            json ops = json::array();
            for (auto& ci : it->first) ops.push_back(json::array({boost::get<0>(ci) == Operator::creation ? 1 : 0, int(boost::get<1>(ci))}));
            out.push_back(json::array({ops, mj(it->second)}));
        }
        return out;
    }
    json jq_blocks() {
        json r;
        unsigned long NS = 1ul << M;
        json blk = json::array(), inner = json::array(), rt = json::array();
        for (unsigned long s = 0; s < NS; ++s) {
            FockState fs(M, s);
            int b = S->getBlockNumber(fs);
            long in = S->getInnerState(fs);
            blk.push_back(b); inner.push_back(in);
            FockState back = S->getFockState(BlockNumber(b), in);
            rt.push_back((long)back.to_ulong());
        }
        r["nblocks"] = int(S->NumberOfBlocks());
        r["block"] = blk; r["inner"] = inner; r["roundtrip"] = rt;
        json sizes = json::array();
        for (int b = 0; b < S->NumberOfBlocks(); ++b) sizes.push_back((long)S->getBlockSize(b));
        r["sizes"] = sizes;
        r["nsym"] = (int)Symm->getOperations().size();
        return r;
    }
    json jq_hmatrix() {
        json out = json::array();
        for (int b = 0; b < S->NumberOfBlocks(); ++b) {
            const MatrixType& Hm = H->getPart(BlockNumber(b)).getMatrix();
            json states = json::array();
            for (auto& fs : S->getFockStates(BlockNumber(b))) states.push_back((long)fs.to_ulong());
            json ent = json::array();
            for (int r = 0; r < Hm.rows(); ++r)
                for (int c = 0; c < Hm.cols(); ++c)
                    if (Hm(r, c) != MelemType(0)) ent.push_back(json::array({r, c, dstr(mre(Hm(r, c))), dstr(mim(Hm(r, c)))}));
            out.push_back({{"block", b}, {"states", states}, {"rows", (int)Hm.rows()}, {"entries", ent}});
        }
        return out;
    }
    // the Hamiltonian as a matrix on the full Fock space, assembled from the prepared blocks; entries scaled to integers
    json jq_hfock(long scale, Hamiltonian* HH = nullptr) {
        if (!HH) HH = H;
        json ent = json::array();
        for (int b = 0; b < S->NumberOfBlocks(); ++b) {
            const MatrixType& Hm = HH->getPart(BlockNumber(b)).getMatrix();
            const std::vector<FockState>& st = S->getFockStates(BlockNumber(b));
            for (int r = 0; r < Hm.rows(); ++r)
                for (int c = 0; c < Hm.cols(); ++c)
                    if (Hm(r, c) != MelemType(0))
                        ent.push_back(json::array({(long)st[r].to_ulong(), (long)st[c].to_ulong(), exact_num(mre(Hm(r, c)), scale), exact_num(mim(Hm(r, c)), scale)}));
        }
        return ent;
    }
    json jq_eig() {
        json out = json::array();
        for (int b = 0; b < S->NumberOfBlocks(); ++b) {
            const HamiltonianPart& hp = H->getPart(BlockNumber(b));
            json ev = json::array(), vecs = json::array(), states = json::array();
            for (auto& fs : S->getFockStates(BlockNumber(b))) states.push_back((long)fs.to_ulong());
            const RealVectorType& E = hp.getEigenValues();
            for (int k = 0; k < E.size(); ++k) {
                ev.push_back(dstr(E(k)));
                VectorType v = hp.getEigenState(k);
                json vv = json::array();
                for (int r = 0; r < v.size(); ++r) vv.push_back(mj(v(r)));
                vecs.push_back(vv);
            }
            out.push_back({{"block", b}, {"states", states}, {"E", ev}, {"V", vecs}});
        }
        return out;
    }
    json jq_spectrum() {
        json r;
        r["ground"] = dstr(H->getGroundEnergy());
        RealVectorType all = H->getEigenValues();
        json a = json::array();
        for (int k = 0; k < all.size(); ++k) a.push_back(dstr(all(k)));
        r["all"] = a;
        json bystate = json::array();
        unsigned long NS = 1ul << M;
        for (unsigned long s = 0; s < NS; ++s) bystate.push_back(dstr(H->getEigenValue(s)));
        r["by_label"] = bystate;
        return r;
    }

    // full Fock-space matrix of a field operator rebuilt from its eigenbasis parts and the stored eigenvectors
    CMat rotate_back(FieldOperator& F) {
        unsigned long NS = 1ul << M;
        CMat full = CMat::Zero(NS, NS);
        for (FieldOperatorPart* p : F.getParts()) {
            int to = p->getLeftIndex(), from = p->getRightIndex();
            const MatrixType& Uto = H->getPart(BlockNumber(to)).getMatrix();
            const MatrixType& Ufrom = H->getPart(BlockNumber(from)).getMatrix();
            MatrixType dense = MatrixType(p->getRowMajorValue());
            CMat loc = Uto.template cast<ComplexType>() * dense.template cast<ComplexType>() * Ufrom.template cast<ComplexType>().adjoint();
            const std::vector<FockState>& ts = S->getFockStates(BlockNumber(to));
            const std::vector<FockState>& fs = S->getFockStates(BlockNumber(from));
            for (size_t r = 0; r < ts.size(); ++r)
                for (size_t c = 0; c < fs.size(); ++c) full(ts[r].to_ulong(), fs[c].to_ulong()) += loc(r, c);
        }
        return full;
    }
    // the same for a list of parts, each rotated with the blocks IT names (used for the parts returned by the public transpose() accessors);
    // a part whose matrix does not fit the blocks it names yields a sentinel entry
    CMat rotate_back_parts(const std::vector<const FieldOperatorPart*>& ps, bool& fits) {
        unsigned long NS = 1ul << M;
        CMat full = CMat::Zero(NS, NS);
        for (const FieldOperatorPart* p : ps) {
            int to = p->getLeftIndex(), from = p->getRightIndex();
            const MatrixType& Uto = H->getPart(BlockNumber(to)).getMatrix();
            const MatrixType& Ufrom = H->getPart(BlockNumber(from)).getMatrix();
            MatrixType dense = MatrixType(p->elementsRowMajor);
            if (dense.rows() != Uto.cols() || dense.cols() != Ufrom.cols()) { fits = false; continue; }
            CMat loc = Uto.template cast<ComplexType>() * dense.template cast<ComplexType>() * Ufrom.template cast<ComplexType>().adjoint();
            const std::vector<FockState>& ts = S->getFockStates(BlockNumber(to));
            const std::vector<FockState>& fs = S->getFockStates(BlockNumber(from));
            for (size_t r = 0; r < ts.size(); ++r)
                for (size_t c = 0; c < fs.size(); ++c) full(ts[r].to_ulong(), fs[c].to_ulong()) += loc(r, c);
        }
        return full;
    }
    static json mat_entries(const CMat& A, double thr = 1e-12) {
        json e = json::array();
        for (int r = 0; r < A.rows(); ++r)
            for (int c = 0; c < A.cols(); ++c)
                if (std::abs(A(r, c)) > thr) e.push_back(json::array({r, c, dstr(A(r, c).real()), dstr(A(r, c).imag())}));
        return e;
    }
    // entries in units of delta (rounded), entries below delta/2 omitted
    static json mat_entries_q(const CMat& A, double delta) {
        json e = json::array();
        for (int r = 0; r < A.rows(); ++r)
            for (int c = 0; c < A.cols(); ++c) {
                long re = qsat(std::round(A(r, c).real() / delta)), im = qsat(std::round(A(r, c).imag() / delta));
                if (re != 0 || im != 0) e.push_back(json::array({r, c, re, im}));
            }
        return e;
    }
    static json bimap_json(const FieldOperator& F) {
        json b = json::array();
        const FieldOperator::BlocksBimap& bm = F.getBlockMapping();
        for (auto it = bm.left.begin(); it != bm.left.end(); ++it) b.push_back(json::array({int(it->first), int(it->second)}));   // [left(to), right(from)]
        return b;
    }
    static json parts_json(FieldOperator& F) {
        json ps = json::array();
        for (FieldOperatorPart* p : F.getParts()) {
            json ent = json::array();
            const RowMajorMatrixType& m = p->getRowMajorValue();
            const ColMajorMatrixType& mc = p->getColMajorValue();
            for (int k = 0; k < m.outerSize(); ++k)
                for (RowMajorMatrixType::InnerIterator it(m, k); it; ++it)
                    ent.push_back(json::array({(int)it.row(), (int)it.col(), dstr(mre(it.value())), dstr(mim(it.value()))}));
            // the column-major copy must hold the same matrix
            double diff = (MatrixType(m) - MatrixType(mc)).cwiseAbs().sum();
            ps.push_back({{"to", int(p->getLeftIndex())}, {"from", int(p->getRightIndex())}, {"entries", ent}, {"rowcol_diff", dstr(diff)}});
        }
        return ps;
    }

    // ------------------------------------------------------------------ queries
    json query(const json& q) {
        std::string name = q.at("q").get<std::string>();
        json r = {{"e", "Q"}, {"id", sc.value("id", json())}, {"q", name}};
        if (q.count("tag")) r["tag"] = q["tag"];
        std::string ex = classify_exception([&] {
            if (name == "index") { if (build_index()) { r["M"] = M; r["tab"] = jq_index(); } }
            else if (name == "hpoly") { if (build_index()) { r["M"] = M; r["poly"] = jq_hpoly(); } }
            else if (name == "blocks") { if (build_blocks()) { r["M"] = M; json b = jq_blocks(); for (auto it = b.begin(); it != b.end(); ++it) r[it.key()] = it.value(); } }
            else if (name == "hmatrix") { if (build_h(false)) { r["M"] = M; r["blocks"] = jq_hmatrix(); } }
            else if (name == "hfock") { if (build_h(false)) { r["M"] = M; r["tab"] = jq_index(); r["entries"] = jq_hfock(q.value("scale", 1L)); r["scale"] = q.value("scale", 1L);
                                                              r["sites"] = sc["sites"]; r["calls"] = sc["build"]; r["den"] = box.den; } }
            else if (name == "c10") q_c10(q, r);
            else if (name == "c07") q_c07(q, r);
            else if (name == "c03") q_c03(q, r);
            else if (name == "eig") { if (build_h()) { r["M"] = M; r["blocks"] = jq_eig(); } }
            else if (name == "spectrum") { if (build_h()) { r["M"] = M; json b = jq_spectrum(); for (auto it = b.begin(); it != b.end(); ++it) r[it.key()] = it.value(); } }
            else if (name == "fieldops") q_fieldops(q, r);
            else if (name == "dm") q_dm(q, r);
            else if (name == "gf") q_gf(q, r);
            else if (name == "chi") q_chi(q, r);
            else if (name == "sus") q_sus(q, r);
            else if (name == "vertex") q_vertex(q, r);
            else if (name == "truncate") q_truncate(q, r);
            else if (name == "parts") q_parts(q, r);
            else r["error"] = "unknown query";
        });
        if (!ex.empty()) r["ex"] = ex;
        if (!fail.empty()) r["fail"] = fail;
        return r;
    }

    // C10: every c^+_i, c_i (container route with its adjoint shortcut, and computed one by one) and c^+_i c_j rotated back
    // to the Fock basis with the stored eigenvectors, in units of 1e-9
    void q_c10(const json& q, json& r) {
        if (!build_h(true)) return;
        r["M"] = M;
        const double delta = 1e-9;
        FieldOperatorContainer* C = ops();
        if (!C) return;
        json out = json::array();
        for (int i = 0; i < M; ++i) {
            CreationOperator& cx = const_cast<CreationOperator&>(C->getCreationOperator(i));
            AnnihilationOperator& c = const_cast<AnnihilationOperator&>(C->getAnnihilationOperator(i));
            out.push_back(json::array({"container", json::array({json::array({1, i})}), mat_entries_q(rotate_back(cx), delta), int(cx.getStatus())}));
            out.push_back(json::array({"container", json::array({json::array({0, i})}), mat_entries_q(rotate_back(c), delta), int(c.getStatus())}));
            CreationOperator cx1(*IC, *S, *H, i); cx1.prepare(); cx1.compute();
            AnnihilationOperator c1(*IC, *S, *H, i); c1.prepare(); c1.compute();
            out.push_back(json::array({"single", json::array({json::array({1, i})}), mat_entries_q(rotate_back(cx1), delta), int(cx1.getStatus())}));
            out.push_back(json::array({"single", json::array({json::array({0, i})}), mat_entries_q(rotate_back(c1), delta), int(c1.getStatus())}));
            // the stored annihilation parts are the Hermitian conjugates of the stored creation parts (eigenbasis, part by part)
            double worst = 0;
            for (FieldOperatorPart* p : c.getParts()) {
                FieldOperatorPart& pc = cx.getPartFromLeftIndex(BlockNumber(p->getRightIndex()));
                worst = std::max(worst, (MatrixType(p->getRowMajorValue()) - MatrixType(pc.getRowMajorValue()).adjoint()).cwiseAbs().sum());
                worst = std::max(worst, (MatrixType(p->getRowMajorValue()) - MatrixType(p->getColMajorValue())).cwiseAbs().sum());
            }
            out.push_back(json::array({"adjoint", json::array({json::array({0, i})}), json::array(), qsat(std::round(worst / delta))}));
            // the public part-level accessors transpose(): the parts of c_i transposed are parts of c^+_i (between the swapped blocks), and vice versa
            {
                std::vector<const FieldOperatorPart*> tc, tcx;
                for (FieldOperatorPart* p : c.getParts()) tc.push_back(&static_cast<AnnihilationOperatorPart*>(p)->transpose());
                for (FieldOperatorPart* p : cx.getParts()) tcx.push_back(&static_cast<CreationOperatorPart*>(p)->transpose());
                bool fits = true;
                json e1 = mat_entries_q(rotate_back_parts(tc, fits), delta), e2 = mat_entries_q(rotate_back_parts(tcx, fits), delta);
                if (!fits) { e1.push_back(json::array({0, 0, 999999999, 999999999})); e2.push_back(json::array({0, 0, 999999999, 999999999})); }
                out.push_back(json::array({"transposed", json::array({json::array({1, i})}), e1, 0}));
                out.push_back(json::array({"transposed", json::array({json::array({0, i})}), e2, 0}));
            }
        }
        for (int i = 0; i < M; ++i) for (int j = 0; j < M; ++j) {
            QuadraticOperator A(*IC, *S, *H, i, j); A.prepare(); A.compute();
            out.push_back(json::array({"single", json::array({json::array({1, i}), json::array({0, j})}), mat_entries_q(rotate_back(A), delta), int(A.getStatus())}));
        }
        r["ops"] = out;
    }

    // everything Symmetry.tla's definition level talks about: partition, addresses, bimaps of every field operator
    void q_c07(const json& q, json& r) {
        r["sites"] = sc["sites"]; r["calls"] = sc["build"]; r["den"] = box.den;
        r["partition"] = sc.value("partition", json::object());
        if (!build_h(true)) return;
        r["M"] = M; r["tab"] = jq_index();
        json b = jq_blocks(); for (auto it = b.begin(); it != b.end(); ++it) r[it.key()] = it.value();
        json bm = json::array();
        auto pairs = [&](FieldOperator& F) { F.prepare(); return bimap_json(F); };
        for (int i = 0; i < M; ++i) {
            CreationOperator cx(*IC, *S, *H, i); AnnihilationOperator c(*IC, *S, *H, i);
            bm.push_back(json::array({json::array({json::array({1, i})}), pairs(cx)}));
            bm.push_back(json::array({json::array({json::array({0, i})}), pairs(c)}));
        }
        for (int i = 0; i < M; ++i) for (int j = 0; j < M; ++j) {
            QuadraticOperator A(*IC, *S, *H, i, j);
            bm.push_back(json::array({json::array({json::array({1, i}), json::array({0, j})}), pairs(A)}));
        }
        r["bimaps"] = bm;
        // H applied as an operator expression to every Fock state: images outside the state's own block (any non-zero amplitude counts)
        json cross = json::array();
        unsigned long NS = 1ul << M;
        for (unsigned long f = 0; f < NS && cross.size() < 8; ++f) {
            FockState ket(IC->getIndexSize(), f);
            std::map<FockState, MelemType> img = HS->actRight(ket);
            for (auto& kv : img)
                if (kv.second != MelemType(0) && S->getBlockNumber(kv.first) != S->getBlockNumber(ket) && cross.size() < 8)
                    cross.push_back(json::array({(long)kv.first.to_ulong(), (long)f, dstr(std::abs(kv.second))}));
        }
        r["cross"] = cross;
    }

    // C03: exact prepared matrix, then the eigen-system with residuals computed against that prepared matrix
    void q_c03(const json& q, json& r) {
        const int ul = sc.value("unit_log2", 0);
        const double unit = std::ldexp(1.0, -ul);          // everything below is logged relative to the model's energy unit
        r["sites"] = sc["sites"]; r["calls"] = sc["build"];
        if (!build_blocks()) return;
        r["den"] = box.den >> ul; r["unit_log2"] = ul;
        // a Hamiltonian object of its own, so that the prepared matrices are seen before compute() overwrites them
        Hamiltonian* H = nullptr;
        if (!stage("hamiltonian.prepare", [&] { H = new Hamiltonian(*IC, *HS, *S); H->prepare(world); })) return;
        r["M"] = M; r["tab"] = jq_index();
        long scale = q.value("scale", 16L);
        r["scale"] = scale; r["entries"] = jq_hfock(scale << ul, H);
        std::vector<MatrixType> prepared;
        for (int b = 0; b < S->NumberOfBlocks(); ++b) prepared.push_back(H->getPart(BlockNumber(b)).getMatrix());
        if (!stage("hamiltonian.compute", [&] { H->compute(world); })) return;
        json b0 = jq_blocks(); r["block"] = b0["block"]; r["inner"] = b0["inner"]; r["sizes"] = b0["sizes"];
        const double delta = 1e-10, qd = 1e-6 * unit;
        json blocks = json::array();
        double hnorm = unit;
        for (auto& Hm : prepared) if (Hm.size()) hnorm = std::max(hnorm, Hm.cwiseAbs().maxCoeff());
        double gmin = 1e300;
        for (int b = 0; b < S->NumberOfBlocks(); ++b) {
            const HamiltonianPart& hp = H->getPart(BlockNumber(b));
            const MatrixType& V = hp.getMatrix();
            const RealVectorType& E = hp.getEigenValues();
            MatrixType Ed = E.template cast<MelemType>().asDiagonal();
            double resid = (prepared[b] * V - V * Ed).cwiseAbs().maxCoeff() / hnorm;
            double ortho = (V.adjoint() * V - MatrixType::Identity(V.rows(), V.cols())).cwiseAbs().maxCoeff();
            json Es = json::array(), Eq = json::array();
            for (int k = 0; k < E.size(); ++k) { Es.push_back(dstr(E(k))); Eq.push_back(qsat(std::floor(E(k) / qd))); gmin = std::min(gmin, E(k)); }
            // getEigenState(k) must be column k of the stored matrix
            double colmis = 0;
            for (int k = 0; k < E.size(); ++k) colmis = std::max(colmis, (hp.getEigenState(k) - V.col(k)).cwiseAbs().maxCoeff());
            blocks.push_back({{"E", Es}, {"Eq", Eq}, {"residq", qsat(std::floor(resid / delta))}, {"orthoq", qsat(std::floor(ortho / delta))},
                              {"rows", (int)V.rows()}, {"cols", (int)V.cols()}, {"n", (int)E.size()}, {"colmis", qsat(std::floor(colmis / delta))}});
        }
        r["eig"] = blocks;
        r["ground"] = dstr(H->getGroundEnergy());
        r["groundq"] = qsat(std::floor(H->getGroundEnergy() / qd));
        RealVectorType all = H->getEigenValues();
        json a = json::array();
        for (int k = 0; k < all.size(); ++k) a.push_back(dstr(all(k)));
        r["all"] = a;
        json bl = json::array();
        unsigned long NS = 1ul << M;
        for (unsigned long s = 0; s < NS; ++s) bl.push_back(dstr(H->getEigenValue(s)));
        r["by_label"] = bl;
    }

    void q_fieldops(const json& q, json& r) {
        if (!build_h()) return;
        r["M"] = M;
        bool container = q.value("container", true);
        json out = json::array();
        std::vector<int> idx;
        if (q.count("indices")) for (auto& x : q["indices"]) idx.push_back(x.get<int>());
        else for (int i = 0; i < M; ++i) idx.push_back(i);
        FieldOperatorContainer* C = container ? ops() : nullptr;
        if (container && !C) return;
        for (int i : idx) {
            json o = {{"i", i}};
            if (container) {
                CreationOperator& cx = const_cast<CreationOperator&>(C->getCreationOperator(i));
                AnnihilationOperator& c = const_cast<AnnihilationOperator&>(C->getAnnihilationOperator(i));
                o["cx_bimap"] = bimap_json(cx); o["c_bimap"] = bimap_json(c);
                o["cx_full"] = mat_entries(rotate_back(cx)); o["c_full"] = mat_entries(rotate_back(c));
                if (q.value("parts", false)) { o["cx_parts"] = parts_json(cx); o["c_parts"] = parts_json(c); }
                o["c_status"] = int(c.getStatus()); o["cx_status"] = int(cx.getStatus());
            } else {
                CreationOperator cx(*IC, *S, *H, i); cx.prepare(); cx.compute();
                AnnihilationOperator c(*IC, *S, *H, i); c.prepare(); c.compute();
                o["cx_bimap"] = bimap_json(cx); o["c_bimap"] = bimap_json(c);
                o["cx_full"] = mat_entries(rotate_back(cx)); o["c_full"] = mat_entries(rotate_back(c));
                if (q.value("parts", false)) { o["cx_parts"] = parts_json(cx); o["c_parts"] = parts_json(c); }
            }
            out.push_back(o);
        }
        r["ops"] = out;
        if (q.count("quadratic")) {
            json qo = json::array();
            for (const json& ij : q["quadratic"]) {
                QuadraticOperator A(*IC, *S, *H, ij[0].get<int>(), ij[1].get<int>());
                A.prepare(); A.compute();
                json o = {{"i", ij[0]}, {"j", ij[1]}, {"bimap", bimap_json(A)}, {"full", mat_entries(rotate_back(A))}};
                qo.push_back(o);
            }
            r["quadratic"] = qo;
        }
    }

    void q_dm(const json& q, json& r) {
        std::string beta = beta_str(q.at("beta"));
        DensityMatrix* D = dm(beta);
        if (!D) return;
        r["M"] = M; r["beta"] = beta;
        unsigned long NS = 1ul << M;
        json w = json::array();
        for (unsigned long s = 0; s < NS; ++s) w.push_back(dstr(D->getWeight(s)));
        r["w"] = w;
        r["E"] = jq_spectrum()["by_label"];
        r["avgE"] = dstr(D->getAverageEnergy());
        r["occ"] = dstr(D->getAverageOccupancy());
        json oi = json::array(), dd = json::array();
        for (int i = 0; i < M; ++i) oi.push_back(dstr(D->getAverageOccupancy(i)));
        for (int i = 0; i < M; ++i) for (int j = 0; j < M; ++j) dd.push_back(json::array({i, j, dstr(D->getAverageDoubleOccupancy(i, j))}));
        r["occ_i"] = oi; r["docc"] = dd;
        json ret = json::array();
        for (int b = 0; b < S->NumberOfBlocks(); ++b) ret.push_back(D->isRetained(BlockNumber(b)));
        r["retained"] = ret;
        if (q.value("traces", false)) {
            // independent reference: rho in the Fock basis from the stored eigenvectors and the weights, traced with operators
            // whose action on Fock states is written out here (sign = parity of the occupied modes below the one acted on)
            CMat rho = CMat::Zero(NS, NS);
            for (int b = 0; b < S->NumberOfBlocks(); ++b) {
                const MatrixType& U = H->getPart(BlockNumber(b)).getMatrix();
                const std::vector<FockState>& fs = S->getFockStates(BlockNumber(b));
                const DensityMatrixPart& dp = D->getPart(BlockNumber(b));
                for (int k = 0; k < U.cols(); ++k) {
                    double wk = dp.getWeight(k);
                    for (size_t a = 0; a < fs.size(); ++a) for (size_t c2 = 0; c2 < fs.size(); ++c2)
                        rho(fs[a].to_ulong(), fs[c2].to_ulong()) += wk * ComplexType(U(a, k)) * std::conj(ComplexType(U(c2, k)));
                }
            }
            auto below = [](unsigned long f, int i) { int n = 0; for (int k = 0; k < i; ++k) n += (f >> k) & 1; return n; };
            json to = json::array(), td = json::array(), ta = json::array();
            for (int i = 0; i < M; ++i) {
                ComplexType t = 0;
                for (unsigned long f = 0; f < NS; ++f) if ((f >> i) & 1) t += rho(f, f);
                to.push_back(cj(t));
            }
            for (int i = 0; i < M; ++i) for (int j = 0; j < M; ++j) {
                ComplexType t = 0;
                for (unsigned long f = 0; f < NS; ++f) if (((f >> i) & 1) && ((f >> j) & 1)) t += rho(f, f);
                td.push_back(json::array({i, j, cj(t)}));
            }
            for (int i = 0; i < M; ++i) for (int j = 0; j < M; ++j) {
                // Tr(rho c^+_i c_j) = sum_f <f'| rho |f> ... with c^+_i c_j |f> = sgn |f'>
                ComplexType t = 0;
                for (unsigned long f = 0; f < NS; ++f) {
                    if (!((f >> j) & 1)) continue;
                    int sg = below(f, j) & 1;
                    unsigned long g = f & ~(1ul << j);
                    if ((g >> i) & 1) continue;
                    sg ^= below(g, i) & 1;
                    unsigned long f2 = g | (1ul << i);
                    t += (sg ? -1.0 : 1.0) * rho(f, f2);
                }
                ta.push_back(json::array({i, j, cj(t)}));
            }
            r["tr_occ_i"] = to; r["tr_docc"] = td; r["tr_avg"] = ta;
            // Tr(rho H) with H applied as an operator expression to every Fock state (independent of the diagonalisation)
            ComplexType te = 0;
            for (unsigned long f = 0; f < NS; ++f) {
                std::map<FockState, MelemType> img = HS->actRight(FockState(IC->getIndexSize(), f));
                for (auto& kv : img) te += rho(f, kv.first.to_ulong()) * ComplexType(kv.second);
            }
            r["tr_E"] = cj(te);
        }
        if (q.value("averages", true)) {
            json ea = json::array();
            for (int i = 0; i < M; ++i) for (int j = 0; j < M; ++j) {
                QuadraticOperator A(*IC, *S, *H, i, j); A.prepare(); A.compute();
                EnsembleAverage EA(*S, *H, A, *D); EA.prepare();
                ea.push_back(json::array({i, j, cj(EA.getResult())}));
            }
            r["avg"] = ea;
        }
    }

    void q_truncate(const json& q, json& r) {
        std::string beta = beta_str(q.at("beta"));
        DensityMatrix* D = dm(beta);
        if (!D) return;
        D->truncateBlocks(std::stod(beta_str(q.at("eps"))), false);
        json ret = json::array(), mx = json::array();
        for (int b = 0; b < S->NumberOfBlocks(); ++b) {
            ret.push_back(D->isRetained(BlockNumber(b)));
            double m = 0;
            for (size_t k = 0; k < S->getBlockSize(BlockNumber(b)); ++k) m = std::max(m, D->getPart(BlockNumber(b)).getWeight(k));
            mx.push_back(dstr(m));
        }
        r["retained"] = ret; r["maxw"] = mx; r["beta"] = beta; r["eps"] = q["eps"];
    }

    // which world stripes (block tuples) the observables are assembled from, for the current retain flags of the density matrix
    void q_parts(const json& q, json& r) {
        std::string beta = beta_str(q.at("beta"));
        DensityMatrix* D = dm(beta);
        FieldOperatorContainer* C = ops();
        if (!D || !C) return;
        r["M"] = M; r["beta"] = beta;
        json g = json::array(), x = json::array(), su = json::array(), ea = json::array();
        for (const json& p : q.value("pairs", json::array())) {
            GreensFunction G(*S, *H, C->getAnnihilationOperator(p[0].get<int>()), C->getCreationOperator(p[1].get<int>()), *D);
            G.prepare();
            json ps = json::array();
            for (GreensFunctionPart* gp : G.parts) ps.push_back(json::array({int(gp->HpartOuter.getBlockNumber()), int(gp->HpartInner.getBlockNumber())}));
            // every block pair <L|c_i|R><R|c^+_j|L> the two operators offer, whether selected or not
            json cand = json::array();
            const FieldOperator::BlocksBimap& cb = C->getAnnihilationOperator(p[0].get<int>()).getBlockMapping();
            const FieldOperator::BlocksBimap& xb = C->getCreationOperator(p[1].get<int>()).getBlockMapping();
            for (auto it = cb.left.begin(); it != cb.left.end(); ++it)
                for (auto jt = xb.left.begin(); jt != xb.left.end(); ++jt)
                    if (int(it->first) == int(jt->second) && int(it->second) == int(jt->first)) cand.push_back(json::array({int(it->first), int(it->second)}));
            g.push_back({{"ij", p}, {"parts", ps}, {"cand", cand}, {"vanishing", G.isVanishing()}});
        }
        for (const json& qd : q.value("quads", json::array())) {
            TwoParticleGF X(*S, *H, C->getAnnihilationOperator(qd[0].get<int>()), C->getAnnihilationOperator(qd[1].get<int>()),
                            C->getCreationOperator(qd[2].get<int>()), C->getCreationOperator(qd[3].get<int>()), *D);
            X.prepare();
            json ps = json::array();
            for (TwoParticleGFPart* pp : X.parts)
                ps.push_back(json::array({int(pp->Hpart1.getBlockNumber()), int(pp->Hpart2.getBlockNumber()), int(pp->Hpart3.getBlockNumber()), int(pp->Hpart4.getBlockNumber()),
                                          int(pp->Permutation.perm[0]), int(pp->Permutation.perm[1]), int(pp->Permutation.perm[2])}));
            x.push_back({{"q", qd}, {"parts", ps}});
        }
        for (const json& qd : q.value("sus", json::array())) {
            QuadraticOperator A(*IC, *S, *H, qd[0].get<int>(), qd[1].get<int>()); A.prepare(); A.compute();
            QuadraticOperator B(*IC, *S, *H, qd[2].get<int>(), qd[3].get<int>()); B.prepare(); B.compute();
            Susceptibility X(*S, *H, A, B, *D); X.prepare();
            json ps = json::array();
            for (SusceptibilityPart* sp : X.parts) ps.push_back(json::array({int(sp->HpartOuter.getBlockNumber()), int(sp->HpartInner.getBlockNumber())}));
            su.push_back({{"q", qd}, {"parts", ps}});
        }
        r["gf"] = g; r["chi"] = x; r["sus"] = su;
        json ret = json::array();
        for (int b = 0; b < S->NumberOfBlocks(); ++b) ret.push_back(D->isRetained(BlockNumber(b)));
        r["retained"] = ret;
    }

    void q_gf(const json& q, json& r) {
        std::string beta = beta_str(q.at("beta"));
        DensityMatrix* D = dm(beta);
        FieldOperatorContainer* C = ops();
        if (!D || !C) return;
        r["M"] = M; r["beta"] = beta;
        bool via_container = q.value("via", "direct") == "container";
        r["via"] = via_container ? "container" : "direct";
        GFContainer* G = nullptr;
        if (via_container) {
            G = new GFContainer(*IC, *S, *H, *D, *C);
            std::set<IndexCombination2> ix;
            for (const json& p : q.at("pairs")) ix.insert(IndexCombination2(p[0].get<int>(), p[1].get<int>()));
            if (q.value("fill_all", false)) G->prepareAll(); else G->prepareAll(ix);
            G->computeAll();
        }
        json out = json::array();
        for (const json& p : q.at("pairs")) {
            int i = p[0].get<int>(), j = p[1].get<int>();
            GreensFunction* g;
            if (via_container) g = &(*G)(i, j);
            else { g = new GreensFunction(*S, *H, C->getAnnihilationOperator(i), C->getCreationOperator(j), *D); g->prepare(); g->compute(); }
            json o = {{"i", i}, {"j", j}, {"vanishing", g->isVanishing()}, {"idx", json::array({int(g->getIndex(0)), int(g->getIndex(1))})}};
            json vn = json::array(), vz = json::array(), vt = json::array();
            if (q.count("ns")) for (const json& n : q["ns"]) vn.push_back(json::array({n, cj((*g)(n.get<long>()))}));
            if (q.count("zs")) for (const json& z : q["zs"]) vz.push_back(json::array({z, cj((*g)(ComplexType(std::stod(beta_str(z[0])), std::stod(beta_str(z[1])))))}));
            if (q.count("taus")) for (const json& t : q["taus"]) vt.push_back(json::array({t, cj(g->of_tau(std::stod(beta_str(t))))}));
            o["n"] = vn; o["z"] = vz; o["tau"] = vt;
            if (q.value("terms", false)) {
                json parts = json::array();
                for (GreensFunctionPart* gp : g->parts) {
                    json ts = json::array();
                    for (auto& t : gp->Terms.data) ts.push_back(json::array({dstr(t.Pole), dstr(t.Residue.real()), dstr(t.Residue.imag())}));
                    parts.push_back({{"inner", int(gp->HpartInner.getBlockNumber())}, {"outer", int(gp->HpartOuter.getBlockNumber())}, {"terms", ts}});
                }
                o["parts"] = parts;
            }
            out.push_back(o);
        }
        r["gf"] = out;
    }

    typedef boost::tuple<ComplexType, ComplexType, ComplexType> freq_tuple;
    void q_chi(const json& q, json& r) {
        std::string beta = beta_str(q.at("beta"));
        double b = std::stod(beta);
        DensityMatrix* D = dm(beta);
        FieldOperatorContainer* C = ops();
        if (!D || !C) return;
        r["M"] = M; r["beta"] = beta;
        std::vector<freq_tuple> freqs;
        ComplexType sp = ComplexType(0, M_PI / b);
        for (const json& t : q.at("triples"))
            freqs.push_back(boost::make_tuple(sp * double(2 * t[0].get<long>() + 1), sp * double(2 * t[1].get<long>() + 1), sp * double(2 * t[2].get<long>() + 1)));
        json out = json::array();
        // "container": the same components read through a TwoParticleGFContainer that stores the canonical representatives
        // (i<=j, k<=l) of the requested quadruples: whether a request is a stored component or an alias (swapped pair(s), sign,
        // permuted frequencies) depends on the order of the indices -- i.e. on site labels and ordering mode
        std::unique_ptr<TwoParticleGFContainer> X4;
        if (q.value("container", false)) {
            std::set<IndexCombination4> init;
            for (const json& qd : q.at("quads")) {
                int i = qd[0].get<int>(), j = qd[1].get<int>(), k = qd[2].get<int>(), l = qd[3].get<int>();
                init.insert(IndexCombination4(std::min(i, j), std::max(i, j), std::min(k, l), std::max(k, l)));
            }
            X4.reset(new TwoParticleGFContainer(*IC, *S, *H, *D, *C));
            X4->prepareAll(init);
            X4->computeAll(false, std::vector<freq_tuple>(), world);
        }
        for (const json& qd : q.at("quads")) {
            int i = qd[0].get<int>(), j = qd[1].get<int>(), k = qd[2].get<int>(), l = qd[3].get<int>();
            json o = {{"q", qd}};
            if (X4) {
                json vc = json::array();
                for (const json& t : q.at("triples")) vc.push_back(cj((*X4)(i, j, k, l)(t[0].get<long>(), t[1].get<long>(), t[2].get<long>())));
                o["container"] = vc;
            }
            auto mk = [&]() {
                TwoParticleGF* x = new TwoParticleGF(*S, *H, C->getAnnihilationOperator(i), C->getAnnihilationOperator(j), C->getCreationOperator(k), C->getCreationOperator(l), *D);
                x->prepare();
                return x;
            };
            // path 1: on-demand evaluation from terms
            TwoParticleGF* x1 = mk();
            std::vector<ComplexType> t0 = x1->compute(false);
            o["vanishing"] = x1->isVanishing(); o["nparts"] = (int)x1->parts.size(); o["len_nofreq"] = (int)t0.size();
            json v1 = json::array();
            for (const json& t : q.at("triples")) v1.push_back(cj((*x1)(t[0].get<long>(), t[1].get<long>(), t[2].get<long>())));
            o["ondemand"] = v1;
            if (q.value("tables", true)) {
                // path 2: table, terms kept
                TwoParticleGF* x2 = mk();
                std::vector<ComplexType> t2 = x2->compute(false, freqs, world);
                json v2 = json::array(); for (auto& z : t2) v2.push_back(cj(z));
                o["table_keep"] = v2;
                json v2b = json::array();
                for (const json& t : q.at("triples")) v2b.push_back(cj((*x2)(t[0].get<long>(), t[1].get<long>(), t[2].get<long>())));
                o["table_keep_ondemand"] = v2b;
                // path 3: table, terms purged
                TwoParticleGF* x3 = mk();
                std::vector<ComplexType> t3 = x3->compute(true, freqs, world);
                json v3 = json::array(); for (auto& z : t3) v3.push_back(cj(z));
                o["table_clear"] = v3;
                delete x2; delete x3;
            }
            delete x1;
            out.push_back(o);
        }
        r["chi"] = out;
    }

    void q_sus(const json& q, json& r) {
        std::string beta = beta_str(q.at("beta"));
        DensityMatrix* D = dm(beta);
        if (!D) return;
        r["M"] = M; r["beta"] = beta;
        json out = json::array();
        for (const json& qd : q.at("quads")) {
            int a = qd[0].get<int>(), b = qd[1].get<int>(), c = qd[2].get<int>(), d = qd[3].get<int>();
            QuadraticOperator A(*IC, *S, *H, a, b); A.prepare(); A.compute();
            QuadraticOperator B(*IC, *S, *H, c, d); B.prepare(); B.compute();
            json o = {{"q", qd}};
            auto eval = [&](Susceptibility& X, const char* key) {
                json vn = json::array(), vt = json::array();
                if (q.count("ns")) for (const json& n : q["ns"]) vn.push_back(json::array({n, cj(X(n.get<long>()))}));
                if (q.count("taus")) for (const json& t : q["taus"]) vt.push_back(json::array({t, cj(X.of_tau(std::stod(beta_str(t))))}));
                o[key] = {{"n", vn}, {"tau", vt}, {"vanishing", X.isVanishing()}};
            };
            Susceptibility X0(*S, *H, A, B, *D); X0.prepare(); X0.compute(); eval(X0, "plain");
            Susceptibility X1(*S, *H, A, B, *D); X1.prepare(); X1.compute(); X1.subtractDisconnected(); eval(X1, "sub_auto");
            EnsembleAverage EA(*S, *H, A, *D), EB(*S, *H, B, *D);
            Susceptibility X2(*S, *H, A, B, *D); X2.prepare(); X2.compute(); X2.subtractDisconnected(EA, EB); eval(X2, "sub_ea");
            o["aveA"] = cj(EA.getResult()); o["aveB"] = cj(EB.getResult());
            Susceptibility X3(*S, *H, A, B, *D); X3.prepare(); X3.compute(); X3.subtractDisconnected(EA.getResult(), EB.getResult()); eval(X3, "sub_val");
            // the averages were already prepared by the caller (and the same objects are handed over twice in a row)
            EnsembleAverage EA2(*S, *H, A, *D), EB2(*S, *H, B, *D); EA2.prepare(); EB2.prepare();
            Susceptibility X4(*S, *H, A, B, *D); X4.prepare(); X4.compute(); X4.subtractDisconnected(EA2, EB2); X4.subtractDisconnected(EA2, EB2); eval(X4, "sub_ea_prepared");
            out.push_back(o);
        }
        r["sus"] = out;
    }

    void q_vertex(const json& q, json& r) {
        std::string beta = beta_str(q.at("beta"));
        DensityMatrix* D = dm(beta);
        FieldOperatorContainer* C = ops();
        if (!D || !C) return;
        r["M"] = M; r["beta"] = beta;
        json out = json::array();
        for (const json& qd : q.at("quads")) {
            int i = qd[0].get<int>(), j = qd[1].get<int>(), k = qd[2].get<int>(), l = qd[3].get<int>();
            TwoParticleGF X(*S, *H, C->getAnnihilationOperator(i), C->getAnnihilationOperator(j), C->getCreationOperator(k), C->getCreationOperator(l), *D);
            X.prepare(); X.compute();
            auto G = [&](int a, int b) { GreensFunction* g = new GreensFunction(*S, *H, C->getAnnihilationOperator(a), C->getCreationOperator(b), *D); g->prepare(); g->compute(); return g; };
            GreensFunction *G13 = G(i, k), *G24 = G(j, l), *G14 = G(i, l), *G23 = G(j, k);
            Vertex4 V(X, *G13, *G24, *G14, *G23);
            json o = {{"q", qd}};
            json wins = json::array();
            for (const json& Nj : q.at("windows")) {
                long N = Nj.get<long>();
                V.compute(N);
                long B = q.value("box", 2 * N + 3);
                long total = 0, bitdiff = 0;
                json firstdiff = json();
                json vals = json::array();
                for (long n1 = -B; n1 <= B; ++n1) for (long n2 = -B; n2 <= B; ++n2) for (long n3 = -B; n3 <= B; ++n3) {
                    ComplexType a = V(n1, n2, n3), bb = V.value(n1, n2, n3);
                    ++total;
                    if (!(a.real() == bb.real() && a.imag() == bb.imag())) { if (!bitdiff) firstdiff = json::array({n1, n2, n3, cj(a), cj(bb)}); ++bitdiff; }
                }
                wins.push_back({{"N", N}, {"box", B}, {"total", total}, {"bitdiff", bitdiff}, {"first", firstdiff}});
            }
            o["windows"] = wins;
            // value() against chi and G as returned by the library (the documented combination is assembled by the comparator)
            json vv = json::array();
            for (const json& t : q.at("triples")) {
                long n1 = t[0].get<long>(), n2 = t[1].get<long>(), n3 = t[2].get<long>();
                vv.push_back({{"t", t}, {"value", cj(V.value(n1, n2, n3))}, {"chi", cj(X(n1, n2, n3))},
                              {"g13", cj((*G13)(n1))}, {"g24", cj((*G24)(n2))}, {"g14", cj((*G14)(n1))}, {"g23", cj((*G23)(n2))}});
            }
            o["values"] = vv;
            out.push_back(o);
        }
        r["vertex"] = out;
    }
};

// {"kind":"model", ... ,"queries":[...]}
inline void run_model(const json& sc) {
    Model m(sc);
    for (const json& q : sc.at("queries")) emit(m.query(q));
}

} // namespace pv
