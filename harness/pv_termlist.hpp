// TermList<TermType>::add_term (spec/TermList.tla) on the real template with the library's own term types.
// Poles are integers times `unit`, coefficients are integers; tolerances are passed in (chosen so that no comparison lands on a threshold).
#pragma once
#include "pv_common.hpp"
#include <pomerol/TermList.h>
// The term types' constructors and operator+= are inline functions of the library's .cpp files (not exported by libpomerol.so):
// this translation unit compiles them from the repository's current sources, so it is the real code that is exercised.
#include <pomerol/GreensFunctionPart.cpp>
#include <pomerol/TwoParticleGFPart.cpp>
#include <pomerol/SusceptibilityPart.cpp>

namespace pv {

// {"kind":"termlist","id":..,"type":"GF"|"NR"|"R","unit":0.125,"tol":0.55,"ctol":2.5,"adds":[{"ps":[..],"f":bool,"c":[..]},...],"log":"last"?}
template <class TL, class Mk, class Rd>
inline void termlist_run(const json& sc, TL& L, Mk make, Rd read) {
    json id = sc.value("id", json());
    bool last_only = sc.value("log", "") == "last";
    size_t n = sc.at("adds").size(), k = 0;
    emit({{"e", "TBegin"}, {"id", id}, {"type", sc.at("type")}});
    for (const json& a : sc.at("adds")) {
        size_t before = L.size();
        L.add_term(make(a));
        ++k;
        if (last_only && k != n) continue;
        json terms = json::array();
        bool exact = true;
        for (auto it = L.data.begin(); it != L.data.end(); ++it) terms.push_back(read(*it, exact));
        emit({{"e", "TAdd"}, {"id", id}, {"k", (long)k}, {"t", a}, {"size0", (long)before}, {"terms", terms}, {"exact", exact}, {"ordered", L.check_terms()}});
    }
}

inline void run_termlist(const json& sc) {
    std::string type = sc.at("type").get<std::string>();
    double unit = sc.value("unit", 0.125), tol = sc.at("tol").get<double>(), ctol = sc.at("ctol").get<double>();
    auto rat = [unit](double pole, long w, bool& exact) { double x = pole * w / unit; double r = std::round(x); if (std::fabs(x - r) > 1e-6) exact = false; return (long)r; };
    auto ci = [](ComplexType c, bool& exact) { double r = std::round(c.real()); if (std::fabs(c.real() - r) > 1e-9 || std::fabs(c.imag()) > 1e-9) exact = false; return (long)r; };
    if (type == "GF") {
        typedef GreensFunctionPart::Term T;
        TermList<T> L((T::Compare(tol)), T::IsNegligible(ctol));
        termlist_run(sc, L, [&](const json& a) { return T(ComplexType(a["c"][0].get<long>(), 0), a["ps"][0].get<long>() * unit); },
                     [&](const T& t, bool& exact) { return json{{"ps", json::array({rat(t.Pole, 1, exact)})}, {"w", 1}, {"f", false}, {"c", json::array({ci(t.Residue, exact)})}}; });
    } else if (type == "SU") {
        typedef SusceptibilityPart::Term T;
        TermList<T> L((T::Compare(tol)), T::IsNegligible(ctol));
        termlist_run(sc, L, [&](const json& a) { return T(ComplexType(a["c"][0].get<long>(), 0), a["ps"][0].get<long>() * unit); },
                     [&](const T& t, bool& exact) { return json{{"ps", json::array({rat(t.Pole, 1, exact)})}, {"w", 1}, {"f", false}, {"c", json::array({ci(t.Residue, exact)})}}; });
    } else if (type == "NR") {
        typedef TwoParticleGFPart::NonResonantTerm T;
        TermList<T> L((T::Compare(tol)), T::IsNegligible(ctol));
        termlist_run(sc, L, [&](const json& a) { return T(ComplexType(a["c"][0].get<long>(), 0), a["ps"][0].get<long>() * unit, a["ps"][1].get<long>() * unit, a["ps"][2].get<long>() * unit, a["f"].get<bool>()); },
                     [&](const T& t, bool& exact) { return json{{"ps", json::array({rat(t.Poles[0], t.Weight, exact), rat(t.Poles[1], t.Weight, exact), rat(t.Poles[2], t.Weight, exact)})},
                                                                {"w", (long)t.Weight}, {"f", (bool)t.isz4}, {"c", json::array({ci(t.Coeff, exact)})}}; });
    } else {
        typedef TwoParticleGFPart::ResonantTerm T;
        TermList<T> L((T::Compare(tol)), T::IsNegligible(ctol));
        termlist_run(sc, L, [&](const json& a) { return T(ComplexType(a["c"][0].get<long>(), 0), ComplexType(a["c"][1].get<long>(), 0), a["ps"][0].get<long>() * unit, a["ps"][1].get<long>() * unit, a["ps"][2].get<long>() * unit, a["f"].get<bool>()); },
                     [&](const T& t, bool& exact) { return json{{"ps", json::array({rat(t.Poles[0], t.Weight, exact), rat(t.Poles[1], t.Weight, exact), rat(t.Poles[2], t.Weight, exact)})},
                                                                {"w", (long)t.Weight}, {"f", (bool)t.isz1z2}, {"c", json::array({ci(t.ResCoeff, exact), ci(t.NonResCoeff, exact)})}}; });
    }
}

} // namespace pv
