// pv_driver: sequential command interpreter around the public API of libpomerol.
// stdin: one JSON scenario per line; stdout: ndjson events (see DESIGN.md appendix B).
#include "pv_common.hpp"
#include "pv_lattice.hpp"
#include "pv_index.hpp"
#include "pv_store.hpp"
#include "pv_model.hpp"
#include "pv_container.hpp"
#include "pv_algebra.hpp"
#include "pv_workflow.hpp"
#include "pv_container2.hpp"
#include <boost/mpi.hpp>
#include <fstream>

static json g_current;
static void on_terminate() {
    json j = {{"e", "Terminate"}, {"id", g_current.value("id", json())}};
    pv::emit(j);
    _exit(0);
}

int main(int argc, char** argv) {
    boost::mpi::environment env(argc, argv);
    std::set_terminate(on_terminate);
    pv::QuietCout quiet;
    // several ranks (mpiexec): all ranks read the same scenarios from the file PV_SCEN and run them in lockstep (the library's
    // collective steps match up); rank r writes its events to PV_OUT.r
    boost::mpi::communicator world;
    std::ifstream scen_file;
    if (const char* sf = getenv("PV_SCEN")) scen_file.open(sf);
    std::istream& in = scen_file.is_open() ? static_cast<std::istream&>(scen_file) : std::cin;
    if (const char* of = getenv("PV_OUT")) {
        std::string fn = std::string(of) + "." + std::to_string(world.rank());
        if (FILE* f = fopen(fn.c_str(), "w")) pv::out_file() = f;
    }
    std::string line;
    while (std::getline(in, line)) {
        if (line.empty()) continue;
        json sc = json::parse(line);
        g_current = sc;
        // watchdog: a scenario that makes no progress (e.g. a corrupted heap dead-locking in malloc) is killed by SIGALRM
        // and reported by the caller as a crash in THIS scenario, instead of blocking the whole batch until its time-out
        { const char* w = getenv("PV_SCEN_TIMEOUT"); alarm(w ? atoi(w) : 600); }
        quiet.reset();
        std::string kind = sc.value("kind", "");
        if (sc.value("log", "") != "last") pv::emit({{"e", "Begin"}, {"id", sc.value("id", json())}});
        if (kind == "lattice") pv::run_lattice(sc);
        else if (kind == "index") pv::run_index(sc);
        else if (kind == "store") pv::run_store(sc);
        else if (kind == "model") pv::run_model(sc);
        else if (kind == "container4") pv::run_container(sc);
        else if (kind == "algebra") pv::run_algebra(sc);
        else if (kind == "nsz") pv::run_nsz(sc);
        else if (kind == "bigfock") pv::run_bigfock(sc);
        else if (kind == "workflow") pv::run_workflow(sc);
        else if (kind == "container2") pv::run_container2(sc);
        else pv::emit({{"e", "Error"}, {"id", sc.value("id", json())}, {"what", "unknown kind"}});
        alarm(0);
        pv::emit({{"e", "Done"}, {"id", sc.value("id", json())}});
    }
    return 0;
}
