// MatsubaraContainer4<Probe>: the real storage template instantiated over a source whose value encodes its arguments.
#pragma once
#include <algorithm>
#include "pv_common.hpp"
#include <pomerol/MatsubaraContainers.h>

namespace pv {

struct Probe {
    mutable std::vector<std::array<long, 3>> calls;
    // value encodes the triple exactly (|n| < 2^20): re = n1 + 2^21 * n2, im = n3
    ComplexType value(long n1, long n2, long n3) const {
        calls.push_back({n1, n2, n3});
        return ComplexType(double(n1) + 2097152.0 * double(n2), double(n3));
    }
    static void decode(ComplexType v, long& n1, long& n2, long& n3) {
        n3 = std::lround(v.imag());
        double re = v.real();
        n2 = std::lround(re / 2097152.0);
        n1 = std::lround(re - 2097152.0 * double(n2));
    }
};

// {"kind":"store","id":..,"N":n | "Ns":[n...],"box":b}  -> for every window size in turn, ON THE SAME OBJECT: a Fill event (sequence of
// source calls) + one Lookup event per n1 (rows of results).  A history of window sizes that shrinks and grows shows stale slots.
inline void run_store(const json& sc) {
    std::vector<long> Ns;
    if (sc.count("Ns")) for (auto& x : sc["Ns"]) Ns.push_back(x.get<long>()); else Ns.push_back(sc.at("N").get<long>());
    long maxN = *std::max_element(Ns.begin(), Ns.end());
    long B = sc.value("box", 2 * maxN + 3);
    Probe src;
    MatsubaraContainer4<Probe> store;
    for (long N : Ns) {
        src.calls.clear();
        store.fill(&src, N);
        json calls = json::array();
        for (auto& c : src.calls) calls.push_back(json::array({c[0], c[1], c[2]}));
        emit({{"e", "Fill"}, {"id", sc.value("id", json())}, {"N", N}, {"calls", calls}, {"reported", store.getNumberOfMatsubaras()}});
        for (long n1 = -B; n1 <= B; ++n1) {
            json rows = json::array();
            for (long n2 = -B; n2 <= B; ++n2)
                for (long n3 = -B; n3 <= B; ++n3) {
                    src.calls.clear();
                    ComplexType v = store(n1, n2, n3);
                    long r1, r2, r3;
                    Probe::decode(v, r1, r2, r3);
                    rows.push_back(json::array({n2, n3, r1, r2, r3, int(src.calls.size())}));
                }
            emit({{"e", "Lookup"}, {"id", sc.value("id", json())}, {"N", N}, {"n1", n1}, {"rows", rows}});
        }
    }
}

} // namespace pv
