// GFContainer / IndexContainer2 state machine (spec/Container2.tla) on the real container.
#pragma once
#include "pv_model.hpp"

namespace pv {

struct Container2Box {
    Model& m;
    GFContainer* C = nullptr;
    DensityMatrix* D = nullptr;
    std::map<const GreensFunction*, int> ids;
    std::vector<boost::shared_ptr<GreensFunction> > keep;   // keeps every element alive so that addresses are never reused
    std::map<std::pair<int, int>, GreensFunction*> direct;
    json freqs;

    Container2Box(Model& mm, const std::string& beta, const json& fr) : m(mm), freqs(fr) {
        D = m.dm(beta);
        FieldOperatorContainer* ops = m.ops();
        if (D && ops) C = new GFContainer(*m.IC, *m.S, *m.H, *D, *ops);
    }
    static IndexCombination2 ic(const json& q) { return IndexCombination2(q[0].get<int>(), q[1].get<int>()); }
    static json idx_of(const GreensFunction& g) { return json::array({int(g.getIndex(0)), int(g.getIndex(1))}); }
    static const char* st(unsigned s) { return s == 0 ? "C" : (s == 1 ? "P" : "M"); }

    void assign_ids() {
        std::vector<const GreensFunction*> fresh;
        for (auto& kv : C->ElementsMap) if (!ids.count(kv.second.get())) { fresh.push_back(kv.second.get()); keep.push_back(kv.second); }
        std::sort(fresh.begin(), fresh.end(), [](const GreensFunction* a, const GreensFunction* b) { return idx_of(*a) < idx_of(*b); });
        for (auto* p : fresh) { int n = ids.size() + 1; ids[p] = n; }
    }
    void project(json& rec) {
        assign_ids();
        json em = json::array(), el = json::array();
        for (auto& kv : C->ElementsMap) {
            em.push_back(json::array({json::array({int(kv.first.Index1), int(kv.first.Index2)}), ids[kv.second.get()]}));
            GreensFunction* g = kv.second.get();
            el.push_back(json::array({ids[g], idx_of(*g), st(g->getStatus())}));
        }
        rec["em"] = em; rec["el"] = el;
    }
    GreensFunction* direct_for(const json& q) {
        std::pair<int, int> k(q[0].get<int>(), q[1].get<int>());
        auto it = direct.find(k);
        if (it != direct.end()) return it->second;
        FieldOperatorContainer* ops = m.ops();
        GreensFunction* g = new GreensFunction(*m.S, *m.H, ops->getAnnihilationOperator(k.first), ops->getCreationOperator(k.second), *D);
        g->prepare(); g->compute();
        direct[k] = g;
        return g;
    }
    json call(const json& act) {
        std::string name = act[0].get<std::string>();
        json rec = {{"e", "Call"}, {"act", act}};
        std::string res = "ok";
        std::string ex = classify_exception([&] {
            if (name == "PrepareAll") {
                std::set<IndexCombination2> s;
                for (const json& q : act[1]) s.insert(ic(q));
                C->prepareAll(s);
            } else if (name == "ComputeAll") C->computeAll();
            else if (name == "Lookup") (*C)(ic(act[1]));
            else if (name == "PrepareElem") (*C)(ic(act[1])).prepare();
            else if (name == "ComputeElem") (*C)(ic(act[1])).compute();
            else if (name == "Eval") {
                GreensFunction& g = (*C)(ic(act[1]));
                res = g.getStatus() == GreensFunction::Computed ? "value" : "zero";
                GreensFunction* ref = direct_for(act[1]);
                double maxdiff = 0, scale = 0, maxabs = 0;
                for (const json& n : freqs) {
                    ComplexType a = g(n.get<long>()), b = (*ref)(n.get<long>());
                    maxdiff = std::max(maxdiff, std::abs(a - b)); scale = std::max(scale, std::abs(b)); maxabs = std::max(maxabs, std::abs(a));
                }
                for (double tau : {0.1, 0.7}) {
                    ComplexType a = g.of_tau(tau * g.beta), b = ref->of_tau(tau * ref->beta);
                    maxdiff = std::max(maxdiff, std::abs(a - b)); scale = std::max(scale, std::abs(b)); maxabs = std::max(maxabs, std::abs(a));
                }
                rec["maxdiff"] = dstr(maxdiff); rec["scale"] = dstr(scale);
                rec["agrees"] = maxdiff == 0.0;          // same deterministic computation on the same operators: bit for bit
                rec["iszero"] = maxabs == 0.0;
                rec["nonzero_ref"] = scale > 0;
            } else throw std::runtime_error("harness: unknown container call " + name);
        });
        if (!ex.empty()) { res = "throw"; rec["ex"] = ex; }
        rec["res"] = res;
        project(rec);
        return rec;
    }
};

// {"kind":"container2", <model fields>, "beta":"..","freqs":[n..],"calls":[...],"log":"last"?}
inline void run_container2(const json& sc) {
    Model m(sc);
    Container2Box box(m, Model::beta_str(sc.at("beta")), sc.at("freqs"));
    if (!box.C) { emit({{"e", "Fail"}, {"id", sc.value("id", json())}, {"fail", m.fail}}); return; }
    bool last_only = sc.value("log", "") == "last";
    size_t n = sc.at("calls").size(), step = 0;
    emit({{"e", "CBegin"}, {"id", sc.value("id", json())}});
    for (const json& act : sc.at("calls")) {
        json rec = box.call(act);
        rec["id"] = sc.value("id", json());
        rec["step"] = ++step;
        rec["M"] = m.M;
        if (!last_only || step == n) emit(rec);
    }
}

} // namespace pv
