// Multi-rank pomerol workflow (C06): every rank runs the documented sequence with the world communicator (or a
// sub-communicator), then dumps what it holds: eigen-data, G, chi tables returned by computeAll, chi from terms.
#pragma once

static json dump_eig(pv::Model& m) {
    json out = json::array();
    for (int b = 0; b < m.S->NumberOfBlocks(); ++b) {
        const HamiltonianPart& hp = m.H->getPart(BlockNumber(b));
        json ev = json::array(), mat = json::array();
        const RealVectorType& E = hp.getEigenValues();
        for (int k = 0; k < E.size(); ++k) ev.push_back(pv::dstr(E(k)));
        const MatrixType& U = hp.getMatrix();
        for (int r = 0; r < U.rows(); ++r) for (int c = 0; c < U.cols(); ++c) mat.push_back(pv::dstr(pv::mre(U(r, c))));
        out.push_back({{"E", ev}, {"U", mat}, {"status", int(const_cast<HamiltonianPart&>(hp).getStatus())}});
    }
    return out;
}

void run_workflow(const json& sc, boost::mpi::communicator& world) {
    boost::mpi::communicator comm = world;
    bool member = true;
    if (sc.count("subcomm")) {          // ranks listed form the communicator handed to the library; the others idle
        std::set<int> mem; for (auto& x : sc["subcomm"]) mem.insert(x.get<int>());
        member = mem.count(world.rank()) > 0;
        comm = world.split(member ? 1 : 0);
    }
    wlog({{"e", "WorkflowBegin"}, {"member", member}});
    if (!member) { wlog({{"e", "WorkflowEnd"}}); return; }
    pv::Model m(sc);
    m.world = comm;
    std::string beta = pv::Model::beta_str(sc.at("beta"));
    std::string ex = pv::classify_exception([&] {
        wlog({{"e", "Enter"}, {"what", "H"}});
        if (!m.build_h()) throw std::runtime_error("model failed: " + m.fail);
        wlog({{"e", "Leave"}, {"what", "H"}});
        wlog({{"e", "Data"}, {"what", "eig"}, {"blocks", dump_eig(m)}, {"ground", pv::dstr(m.H->getGroundEnergy())}});
        DensityMatrix* D = m.dm(beta);
        FieldOperatorContainer* ops = m.ops();
        if (!D || !ops) throw std::runtime_error("model failed: " + m.fail);
        // single-particle Green's functions (local computation on every rank)
        json gf = json::array();
        for (int i = 0; i < m.M; ++i) for (int j = 0; j < m.M; ++j) {
            GreensFunction g(*m.S, *m.H, ops->getAnnihilationOperator(i), ops->getCreationOperator(j), *D);
            g.prepare(); g.compute();
            json v = json::array();
            for (long n : {-2L, 0L, 3L}) v.push_back(pv::cj(g(n)));
            gf.push_back(json::array({i, j, v}));
        }
        wlog({{"e", "Data"}, {"what", "gf"}, {"gf", gf}});
        // two-particle container
        TwoParticleGFContainer C(*m.IC, *m.S, *m.H, *D, *ops);
        std::set<IndexCombination4> ix;
        for (const json& q : sc.at("quads")) ix.insert(IndexCombination4(q[0].get<int>(), q[1].get<int>(), q[2].get<int>(), q[3].get<int>()));
        C.prepareAll(ix);
        std::vector<boost::tuple<ComplexType, ComplexType, ComplexType> > freqs;
        ComplexType sp(0, M_PI / std::stod(beta));
        for (const json& t : sc.at("triples"))
            freqs.push_back(boost::make_tuple(sp * double(2 * t[0].get<long>() + 1), sp * double(2 * t[1].get<long>() + 1), sp * double(2 * t[2].get<long>() + 1)));
        bool clear = sc.value("clear", false), split = sc.value("split", true);
        json comps = json::array();
        int k = 0;
        if (split) {        // computeAll_split works through NonTrivialElements in key order
            for (auto& kv : C.NonTrivialElements) comps.push_back(json::array({k++, pv::ContainerBox::qj(kv.first), (int)kv.second->parts.size()}));
        } else {            // computeAll_nosplit works through ElementsMap in key order; an element is computed when first met
            std::set<const TwoParticleGF*> seen;
            for (auto& kv : C.ElementsMap) {
                const TwoParticleGF* g = kv.second.pElement.get();
                if (seen.insert(g).second) comps.push_back(json::array({k++, pv::ContainerBox::qj(kv.first), (int)g->parts.size()}));
            }
        }
        wlog({{"e", "Enter"}, {"what", "computeAll"}, {"split", split}, {"clear", clear}, {"components", comps}});
        std::map<IndexCombination4, std::vector<ComplexType> > out = C.computeAll(clear, freqs, comm, split);
        wlog({{"e", "Leave"}, {"what", "computeAll"}});
        json tables = json::array();
        for (auto& kv : out) {
            json v = json::array();
            for (auto& z : kv.second) v.push_back(pv::cj(z));
            tables.push_back(json::array({pv::ContainerBox::qj(kv.first), v}));
        }
        wlog({{"e", "Data"}, {"what", "tables"}, {"tables", tables}});
        // chi from terms for every listed element
        json terms = json::array();
        for (auto& kv : C.ElementsMap) {
            json v = json::array();
            std::string e2 = pv::classify_exception([&] {
                for (const json& t : sc.at("triples")) v.push_back(pv::cj(kv.second(t[0].get<long>(), t[1].get<long>(), t[2].get<long>())));
            });
            TwoParticleGF& g = static_cast<TwoParticleGF&>(kv.second);
            terms.push_back({{"q", pv::ContainerBox::qj(kv.first)}, {"v", v}, {"ex", e2}, {"nparts", (int)g.parts.size()}, {"status", int(g.getStatus())}});
        }
        wlog({{"e", "Data"}, {"what", "terms"}, {"terms", terms}});
    });
    if (!ex.empty()) wlog({{"e", "Exception"}, {"what", ex}});
    wlog({{"e", "WorkflowEnd"}});
}
