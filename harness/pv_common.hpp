// Common pieces of the pomerol verification harness (DESIGN.md 4.1).
// Compiled with -fno-access-control: the harness reads private members of pomerol objects to
// project the abstract state the TLA+ specification talks about; it never writes to them.
#pragma once
#include <nlohmann/json.hpp>
#include <pomerol.h>
#include <pomerol/Vertex4.h>
#include <cstdio>
#include <csignal>
#include <unistd.h>
#include <sstream>
#include <cmath>

using json = nlohmann::json;
using namespace Pomerol;

namespace pv {

inline std::string dstr(double x) { char b[40]; snprintf(b, sizeof b, "%.17g", x); return b; }
inline json cj(ComplexType z) { return json::array({dstr(z.real()), dstr(z.imag())}); }
#ifdef POMEROL_COMPLEX_MATRIX_ELEMENTS
inline json mj(MelemType z) { return cj(z); }
inline MelemType mk_melem(double re, double im) { return MelemType(re, im); }
inline double mre(MelemType z) { return z.real(); }
inline double mim(MelemType z) { return z.imag(); }
#else
inline json mj(MelemType z) { return json::array({dstr(z), "0"}); }
inline MelemType mk_melem(double re, double im) { (void)im; return re; }
inline double mre(MelemType z) { return z; }
inline double mim(MelemType) { return 0; }
#endif

// exact integer if x*den is an integer within 1e-9, otherwise a string (forces a mismatch downstream)
inline json exact_num(double x, long den) {
    double y = x * den, r = std::round(y);
    if (std::fabs(y - r) < 1e-9 && std::fabs(r) < 2e9) return (long)r;
    return dstr(x);
}

inline FILE*& out_file() { static FILE* f = stdout; return f; }      // PV_OUT=<prefix>: every rank writes <prefix>.<rank>
// quantised quantities go into TLC, whose integers are 32-bit and whose JSON reader wraps silently: saturate (NaN saturates high)
inline long qsat(double x) {
    const double LIM = 1.0e9;
    if (!(x == x)) return (long)LIM;
    if (x > LIM) return (long)LIM;
    if (x < -LIM) return -(long)LIM;
    return (long)x;
}
inline void emit(const json& j) {
    std::string s = j.dump();
    s.push_back('\n');
    fwrite(s.data(), 1, s.size(), out_file());
    fflush(out_file());
}

// pomerol prints progress to std::cout; keep stdout for ndjson only
struct QuietCout {
    std::streambuf* old; std::ostringstream sink;
    QuietCout() { old = std::cout.rdbuf(sink.rdbuf()); }
    ~QuietCout() { std::cout.rdbuf(old); }
    void reset() { sink.str(""); }
};

template <class F> std::string classify_exception(F&& f) {
    try { f(); return ""; }
    catch (Lattice::exWrongLabel&) { return "Lattice::exWrongLabel"; }
    catch (Lattice::Term::Presets::exWrongIndices&) { return "Presets::exWrongIndices"; }
    catch (IndexClassification::exWrongIndex&) { return "IndexClassification::exWrongIndex"; }
    catch (StatesClassification::exWrongState&) { return "StatesClassification::exWrongState"; }
    catch (ComputableObject::exStatusMismatch&) { return "exStatusMismatch"; }
    catch (Operator::exWrongLabel&) { return "Operator::exWrongLabel"; }
    catch (std::logic_error& e) { return std::string("logic_error:") + e.what(); }
    catch (std::exception& e) { return std::string("exception:") + e.what(); }
    catch (...) { return "unknown"; }
}

} // namespace pv
