// pv_mpi: multi-rank driver. Run as  mpiexec -np P pv_mpi <scenario.json> <logdir>
// The executable defines the MPI entry points itself and forwards to PMPI_*, so every MPI call made inside
// libpomerol.so and libboost_mpi.so is observed (and perturbed by a seeded delay) without touching the repository.
// Each rank appends one JSON line per observed call, AFTER the call returned, to <logdir>/rank<k>.ndjson with a
// per-rank sequence number; no wall-clock ordering across ranks is ever used.
#include <memory>
#include "pv_common.hpp"
#include "pv_model.hpp"
#include "pv_container.hpp"
#include <mpi.h>
#include <fstream>
#include <random>

namespace {
int g_rank = -1, g_size = 0;
FILE* g_log = nullptr;
long g_seq = 0;
bool g_on = false;              // logging / perturbation active
std::mt19937 g_rng;
int g_maxus = 0;
struct ReqInfo { int src, tag; void* buf; int count; };
std::map<MPI_Request, ReqInfo> g_reqs;
std::map<MPI_Comm, std::string> g_comm_names;

void wlog(const json& j0) {
    if (!g_log) return;
    json j = j0;
    j["rank"] = g_rank; j["seq"] = ++g_seq;
    std::string s = j.dump(); s.push_back('\n');
    fwrite(s.data(), 1, s.size(), g_log); fflush(g_log);
}
void perturb() {
    if (!g_on || g_maxus <= 0) return;
    unsigned r = g_rng();
    if (r % 3 == 0) usleep((r >> 8) % g_maxus);
}
json comm_members(MPI_Comm c) {
    json m = json::array();
    MPI_Group g, w; PMPI_Comm_group(c, &g); PMPI_Comm_group(MPI_COMM_WORLD, &w);
    int n; PMPI_Group_size(g, &n);
    std::vector<int> a(n), b(n);
    for (int i = 0; i < n; ++i) a[i] = i;
    PMPI_Group_translate_ranks(g, n, a.data(), w, b.data());
    for (int i = 0; i < n; ++i) m.push_back(b[i]);
    PMPI_Group_free(&g); PMPI_Group_free(&w);
    return m;
}
int world_rank_of(MPI_Comm c, int r) {
    if (r < 0) return r;
    MPI_Group g, w; PMPI_Comm_group(c, &g); PMPI_Comm_group(MPI_COMM_WORLD, &w);
    int out; PMPI_Group_translate_ranks(g, 1, &r, w, &out);
    PMPI_Group_free(&g); PMPI_Group_free(&w);
    return out;
}
}  // namespace

extern "C" {
int MPI_Send(const void* buf, int count, MPI_Datatype dt, int dest, int tag, MPI_Comm comm) {
    perturb();
    int rc = PMPI_Send(buf, count, dt, dest, tag, comm);
    if (g_on) wlog({{"e", "Send"}, {"dst", world_rank_of(comm, dest)}, {"tag", tag}, {"val", (count == 1 && dt == MPI_INT) ? *(const int*)buf : -1}, {"comm", comm_members(comm)}});
    return rc;
}
int MPI_Recv(void* buf, int count, MPI_Datatype dt, int source, int tag, MPI_Comm comm, MPI_Status* status) {
    perturb();
    int rc = PMPI_Recv(buf, count, dt, source, tag, comm, status);
    if (g_on) wlog({{"e", "Recv"}, {"src", world_rank_of(comm, source)}, {"tag", tag}, {"comm", comm_members(comm)}});
    return rc;
}
int MPI_Mrecv(void* buf, int count, MPI_Datatype dt, MPI_Message* msg, MPI_Status* status) {
    MPI_Status mine;
    MPI_Status* st = (status == MPI_STATUS_IGNORE) ? &mine : status;
    int rc = PMPI_Mrecv(buf, count, dt, msg, st);
    if (g_on) wlog({{"e", "Recv"}, {"src", st->MPI_SOURCE}, {"tag", st->MPI_TAG}, {"comm", json::array()}});
    return rc;
}
int MPI_Irecv(void* buf, int count, MPI_Datatype dt, int source, int tag, MPI_Comm comm, MPI_Request* req) {
    perturb();
    int rc = PMPI_Irecv(buf, count, dt, source, tag, comm, req);
    if (g_on) { g_reqs[*req] = ReqInfo{world_rank_of(comm, source), tag, buf, (count == 1 && dt == MPI_INT) ? 1 : 0};
                wlog({{"e", "Irecv"}, {"src", world_rank_of(comm, source)}, {"tag", tag}}); }
    return rc;
}
int MPI_Test(MPI_Request* req, int* flag, MPI_Status* status) {
    perturb();
    MPI_Request h = *req;
    MPI_Status mine;
    MPI_Status* st = (status == MPI_STATUS_IGNORE) ? &mine : status;
    int rc = PMPI_Test(req, flag, st);
    if (g_on && *flag && h != MPI_REQUEST_NULL) {
        auto it = g_reqs.find(h);
        int cancelled = 0; PMPI_Test_cancelled(st, &cancelled);
        if (it != g_reqs.end()) {
            if (!cancelled) wlog({{"e", "TestOk"}, {"src", st->MPI_SOURCE}, {"tag", st->MPI_TAG}, {"val", it->second.count ? *(int*)it->second.buf : -1}, {"posted_src", it->second.src}, {"posted_tag", it->second.tag}});
            g_reqs.erase(it);
        }
    }
    return rc;
}
int MPI_Cancel(MPI_Request* req) {
    int rc = PMPI_Cancel(req);
    if (g_on) wlog({{"e", "Cancel"}});
    return rc;
}
int MPI_Barrier(MPI_Comm comm) {
    perturb();
    int rc = PMPI_Barrier(comm);
    if (g_on) wlog({{"e", "Barrier"}, {"comm", comm_members(comm)}});
    return rc;
}
int MPI_Bcast(void* buf, int count, MPI_Datatype dt, int root, MPI_Comm comm) {
    perturb();
    int rc = PMPI_Bcast(buf, count, dt, root, comm);
    int sz; PMPI_Type_size(dt, &sz);
    if (g_on) wlog({{"e", "Bcast"}, {"root", world_rank_of(comm, root)}, {"bytes", (long)count * sz}, {"comm", comm_members(comm)}});
    return rc;
}
int MPI_Reduce(const void* s, void* r, int count, MPI_Datatype dt, MPI_Op op, int root, MPI_Comm comm) {
    perturb();
    int rc = PMPI_Reduce(s, r, count, dt, op, root, comm);
    if (g_on) wlog({{"e", "Reduce"}, {"root", world_rank_of(comm, root)}, {"count", count}, {"comm", comm_members(comm)}});
    return rc;
}
int MPI_Allreduce(const void* s, void* r, int count, MPI_Datatype dt, MPI_Op op, MPI_Comm comm) {
    perturb();
    int rc = PMPI_Allreduce(s, r, count, dt, op, comm);
    if (g_on) wlog({{"e", "Allreduce"}, {"count", count}, {"comm", comm_members(comm)}});
    return rc;
}
int MPI_Comm_split(MPI_Comm comm, int color, int key, MPI_Comm* newcomm) {
    perturb();
    int rc = PMPI_Comm_split(comm, color, key, newcomm);
    if (g_on) wlog({{"e", "Split"}, {"color", color}, {"comm", comm_members(comm)}, {"newcomm", comm_members(*newcomm)}});
    return rc;
}
}  // extern "C"

// ------------------------------------------------------------------------------------------------
struct CountingJob {
    int id = -1, complexity = 1, usec = 0;
    void run() {
        wlog({{"e", "Run"}, {"job", id}});
        if (usec > 0) usleep(usec);
    }
};

static void on_alarm(int) {
    if (g_log) { fputs("{\"e\":\"Watchdog\"}\n", g_log); fflush(g_log); }
    _exit(3);
}
static void on_terminate() {
    std::string what = "terminate";
    try { auto p = std::current_exception(); if (p) std::rethrow_exception(p); }
    catch (std::exception& e) { what = e.what(); } catch (...) {}
    wlog({{"e", "Terminate"}, {"what", what}});
    _exit(4);
}

// {"mode":"dispatch","J":..,"R":..,"complexity":[[...per round...]],"usec":[[...]],"seed":..,"maxus":..}
static void run_dispatch(const json& sc, boost::mpi::communicator& world0) {
    // odd seeds: the dispatcher is handed a communicator of its own (same ranks, different context), as the library itself does for
    // the groups of computeAll_split; anything the dispatcher addresses to MPI_COMM_WORLD is then never received
    boost::mpi::communicator world = (sc.value("seed", 1) % 2) ? world0.split(0) : world0;
    int R = sc.at("R").get<int>(), J = sc.at("J").get<int>();
    for (int r = 0; r < R; ++r) {
        pMPI::mpi_skel<CountingJob> skel;
        skel.parts.resize(J);
        for (int j = 0; j < J; ++j) {
            skel.parts[j].id = j;
            skel.parts[j].complexity = sc["complexity"][r][j].get<int>();
            skel.parts[j].usec = sc["usec"][r][j].get<int>();
        }
        wlog({{"e", "RoundBegin"}, {"round", r + 1}});
        std::map<pMPI::JobId, pMPI::WorkerId> m = skel.run(world, false);
        json jm = json::array();
        for (auto& kv : m) jm.push_back(json::array({kv.first, kv.second}));
        wlog({{"e", "RoundEnd"}, {"round", r + 1}, {"map", jm}});
    }
}

// {"mode":"dispatch_nomaster", ...as dispatch..., "joblist":bool}: rank 0 is a pure master (MPIMaster(..., include_boss = false), the loop of
// test/mpi_dispatcher_test_nomaster.cpp), the other ranks are workers; joblist selects the constructor that takes the vector of job ids
static void run_dispatch_nomaster(const json& sc, boost::mpi::communicator& world0) {
    boost::mpi::communicator world = (sc.value("seed", 1) % 2) ? world0.split(0) : world0;
    int R = sc.at("R").get<int>(), J = sc.at("J").get<int>();
    bool joblist = sc.value("joblist", false);
    const int ROOT = 0;
    for (int r = 0; r < R; ++r) {
        std::vector<CountingJob> parts(J);
        std::vector<pMPI::JobId> order(J);
        // "ids": the job ids handed to the list constructor (any distinct ids, e.g. a sparse selection); default 0..J-1
        std::vector<int> ids(J);
        std::map<int, int> pos;
        for (int j = 0; j < J; ++j) { ids[j] = (joblist && sc.count("ids")) ? sc["ids"][j].get<int>() : j; pos[ids[j]] = j; }
        for (int j = 0; j < J; ++j) { parts[j].id = ids[j]; parts[j].complexity = sc["complexity"][r][j].get<int>(); parts[j].usec = sc["usec"][r][j].get<int>(); order[j] = j; }
        std::sort(order.begin(), order.end(), [&](int a, int b) { return parts[a].complexity > parts[b].complexity; });
        for (int j = 0; j < J; ++j) order[j] = ids[order[j]];
        wlog({{"e", "RoundBegin"}, {"round", r + 1}});
        world.barrier();
        json jm = json::array();
        if (world.rank() == ROOT) {
            std::unique_ptr<pMPI::MPIMaster> master(joblist ? new pMPI::MPIMaster(world, order, false) : new pMPI::MPIMaster(world, (size_t)J, false));
            for (; !master->is_finished();) { master->order(); master->check_workers(); }
            for (auto& kv : master->DispatchMap) jm.push_back(json::array({kv.first, kv.second}));
        } else {
            pMPI::MPIWorker worker(world, ROOT);
            for (; !worker.is_finished();) {
                worker.receive_order();
                if (worker.is_working()) {
                    auto it = pos.find(worker.current_job());
                    if (it != pos.end()) parts[it->second].run();
                    else { CountingJob stray; stray.id = worker.current_job(); stray.complexity = 0; stray.usec = 0; stray.run(); }   // not a job of this round: recorded, the checks decide
                    worker.report_job_done();
                }
            }
        }
        world.barrier();
        wlog({{"e", "RoundEnd"}, {"round", r + 1}, {"map", jm}});
    }
}

void run_workflow(const json& sc, boost::mpi::communicator& world);   // pv_mpi_workflow.hpp

#include "pv_mpi_workflow.hpp"

int main(int argc, char** argv) {
    boost::mpi::environment env(argc, argv);
    boost::mpi::communicator world;
    g_rank = world.rank(); g_size = world.size();
    std::ifstream f(argv[1]);
    json sc; f >> sc;
    std::string dir = argv[2];
    g_log = fopen((dir + "/rank" + std::to_string(g_rank) + ".ndjson").c_str(), "w");
    g_rng.seed(sc.value("seed", 1) * 7919u + g_rank * 104729u);
    g_maxus = sc.value("maxus", 0);
    std::set_terminate(on_terminate);
    signal(SIGALRM, on_alarm);
    alarm(sc.value("watchdog", 50));
    pv::QuietCout quiet;
    wlog({{"e", "Start"}, {"P", g_size}});
    g_on = true;
    std::string mode = sc.value("mode", "dispatch");
    if (mode == "dispatch") run_dispatch(sc, world);
    else if (mode == "dispatch_nomaster") run_dispatch_nomaster(sc, world);
    else run_workflow(sc, world);
    g_on = false;
    wlog({{"e", "Exit"}});
    fclose(g_log); g_log = nullptr;
    return 0;
}
