// Lattice state machine: executes the call vocabulary of spec/Lattice.tla on real Lattice objects
// and projects the abstract state (site map, stored terms) after every call.
#pragma once
#include "pv_common.hpp"

namespace pv {

struct LatticeBox {
    Lattice* lat[3] = {nullptr, nullptr, nullptr};   // ids 1, 2
    long den = 4;                                    // amplitude denominator
    LatticeBox() { lat[1] = new Lattice(); }

    static Lattice::Term* mk_term(const json& t, long den) {
        const json& ops = t.at("ops");
        unsigned N = ops.size();
        Lattice::Term* T = new Lattice::Term(N);
        for (unsigned i = 0; i < N; ++i) {
            T->OperatorSequence[i] = ops[i][0].get<int>() != 0;
            T->SiteLabels[i] = ops[i][1].get<std::string>();
            T->Orbitals[i] = (unsigned short)ops[i][2].get<int>();
            T->Spins[i] = (unsigned short)ops[i][3].get<int>();
        }
        double re = double(t.at("v").get<long>()) / den;
        double im = t.count("vi") ? double(t.at("vi").get<long>()) / den : 0.0;
        T->Value = mk_melem(re, im);
        return T;
    }

    json term_json(const Lattice::Term& T) const {
        json ops = json::array();
        for (unsigned i = 0; i < T.getOrder(); ++i)
            ops.push_back(json::array({int(T.OperatorSequence[i]), T.SiteLabels[i], int(T.Orbitals[i]), int(T.Spins[i])}));
        json r = {{"ops", ops}, {"v", exact_num(mre(T.Value), den)}};
        if (mim(T.Value) != 0) r["vi"] = exact_num(mim(T.Value), den);
        return r;
    }

    json project_sites(int k) const {
        json s = json::object();
        if (!lat[k]) return s;
        for (auto& kv : lat[k]->getSiteMap())
            s[kv.first] = {{"orb", int(kv.second->OrbitalSize)}, {"spin", int(kv.second->SpinSize)}};
        return s;
    }
    json project_terms(int k) const {
        json t = json::array();
        if (!lat[k]) return t;
        const Lattice::TermStorage& ts = lat[k]->getTermStorage();
        // through the public interface: by order, 1..max (orders above max are probed too: must be empty)
        unsigned mx = ts.getMaxTermOrder();
        for (unsigned n = 1; n <= mx + 2; ++n) {
            const Lattice::TermList& tl = ts.getTerms(n);
            for (auto it = tl.begin(); it != tl.end(); ++it) t.push_back(term_json(**it));
        }
        return t;
    }

    // executes one call; returns the log record
    json call(const json& act) {
        std::string name = act[0].get<std::string>();
        json rec = {{"act", act}};
        json val = json::array();
        std::string ex;
        if (name == "Copy") {
            ex = classify_exception([&] { lat[2] = new Lattice(*lat[1]); });
        } else {
            int k = act[1].get<int>();
            Lattice* L = lat[k];
            if (!L) { rec["res"] = "nolattice"; return rec; }
            if (name == "AddSite") {
                ex = classify_exception([&] { L->addSite(act[2].get<std::string>(), act[3].get<int>(), act[4].get<int>()); });
            } else if (name == "AddTerm") {
                ex = classify_exception([&] { Lattice::Term* T = mk_term(act[2], den); L->addTerm(T); delete T; });
            } else if (name == "Factory") {
                const json& f = act[2];
                std::string fn = f[0].get<std::string>();
                double v = double(act[3].get<long>()) / den;
                ex = classify_exception([&] {
                    Lattice::Term* T = nullptr;
                    typedef Lattice::Term::Presets P;
                    if (fn == "NupNdown") T = P::NupNdown(f[1].get<std::string>(), f[2].get<std::string>(), v, f[3].get<int>(), f[4].get<int>(), f[5].get<int>(), f[6].get<int>());
                    else if (fn == "Spinflip") T = P::Spinflip(f[1].get<std::string>(), v, f[2].get<int>(), f[3].get<int>(), f[4].get<int>(), f[5].get<int>());
                    else if (fn == "PairHopping") T = P::PairHopping(f[1].get<std::string>(), v, f[2].get<int>(), f[3].get<int>(), f[4].get<int>(), f[5].get<int>());
                    else if (fn == "SplusSminus") T = P::SplusSminus(f[1].get<std::string>(), f[2].get<std::string>(), v, f[3].get<int>());
                    else if (fn == "SminusSplus") T = P::SminusSplus(f[1].get<std::string>(), f[2].get<std::string>(), v, f[3].get<int>());
                    else if (fn == "Level") T = P::Level(f[1].get<std::string>(), v, f[2].get<int>(), f[3].get<int>());
                    else if (fn == "Hopping") T = P::Hopping(f[1].get<std::string>(), f[2].get<std::string>(), v, f[3].get<int>(), f[4].get<int>(), f[5].get<int>(), f[6].get<int>());
                    else throw std::runtime_error("harness: unknown factory " + fn);
                    L->addTerm(T);
                    delete T;
                });
            } else if (name == "Preset") {
                const json& f = act[2];
                std::string fn = f[0].get<std::string>();
                auto S = [&](int i) { return f[i].get<std::string>(); };
                auto V = [&](int i) { return mk_melem(double(f[i].get<long>()) / den, 0); };
                auto I = [&](int i) { return (unsigned short)f[i].get<int>(); };
                ex = classify_exception([&] {
                    if (fn == "addCoulombS") LatticePresets::addCoulombS(L, S(1), V(2), V(3));
                    else if (fn == "addCoulombP") LatticePresets::addCoulombP(L, S(1), V(2), V(3), V(4), V(5));
                    else if (fn == "addCoulombP3") LatticePresets::addCoulombP(L, S(1), V(2), V(3), V(4));
                    else if (fn == "addLevel") LatticePresets::addLevel(L, S(1), V(2));
                    else if (fn == "addMagnetization") LatticePresets::addMagnetization(L, S(1), V(2));
                    else if (fn == "addSzSz") LatticePresets::addSzSz(L, S(1), S(2), V(3));
                    else if (fn == "addSS") LatticePresets::addSS(L, S(1), S(2), V(3));
                    else if (fn == "addHopping8") LatticePresets::addHopping(L, S(1), S(2), V(3), I(4), I(5), I(6), I(7));
                    else if (fn == "addHopping8c") LatticePresets::addHopping(L, S(1), S(2), mk_melem(double(f[3].get<long>()) / den, double(f[4].get<long>()) / den), I(5), I(6), I(7), I(8));
                    else if (fn == "addHopping7") LatticePresets::addHopping(L, S(1), S(2), V(3), I(4), I(5), I(6));
                    else if (fn == "addHopping6") LatticePresets::addHopping(L, S(1), S(2), V(3), I(4), I(5));
                    else if (fn == "addHopping4") LatticePresets::addHopping(L, S(1), S(2), V(3));
                    else throw std::runtime_error("harness: unknown preset " + fn);
                });
            } else if (name == "GetSite") {
                ex = classify_exception([&] {
                    const Lattice::Site& s = L->getSite(act[2].get<std::string>());
                    val = json::array({s.Label, int(s.OrbitalSize), int(s.SpinSize)});
                });
            } else if (name == "GetTerms") {
                ex = classify_exception([&] {
                    const Lattice::TermList& tl = L->getTermStorage().getTerms(act[2].get<unsigned>());
                    for (auto it = tl.begin(); it != tl.end(); ++it) val.push_back(term_json(**it));
                });
            } else if (name == "GetMaxOrder") {
                ex = classify_exception([&] { val = json::array({int(L->getTermStorage().getMaxTermOrder())}); });
            } else {
                rec["res"] = "unknown-call";
                return rec;
            }
        }
        rec["res"] = ex.empty() ? "ok" : "reject";
        if (!ex.empty()) rec["ex"] = ex;
        rec["val"] = val;
        rec["sites"] = json::array({project_sites(1), project_sites(2)});
        rec["terms"] = json::array({project_terms(1), project_terms(2)});
        json live = json::array({1});
        if (lat[2]) live.push_back(2);
        rec["live"] = live;
        return rec;
    }
};

// {"kind":"lattice","id":...,"calls":[act,...],"den":4}
inline void run_lattice(const json& sc) {
    LatticeBox box;
    if (sc.count("den")) box.den = sc["den"].get<long>();
    int step = 0;
    bool last_only = sc.value("log", "") == "last";
    size_t n = sc.at("calls").size();
    for (const json& act : sc.at("calls")) {
        json rec = box.call(act);
        rec["id"] = sc.value("id", json());
        rec["step"] = ++step;
        rec["e"] = "Call";
        if (!last_only || (size_t)step == n) emit(rec);
    }
    if (!last_only) emit({{"id", sc.value("id", json())}, {"e", "End"}, {"steps", step}});
}

} // namespace pv
