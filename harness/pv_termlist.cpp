// pv_termlist: TermList<TermType>::add_term histories (spec/TermList.tla). stdin: one JSON scenario per line; stdout: ndjson events.
#include "pv_termlist.hpp"
#include <boost/mpi.hpp>
int main(int argc, char** argv) {
    boost::mpi::environment env(argc, argv);
    std::string line;
    while (std::getline(std::cin, line)) {
        if (line.empty()) continue;
        json sc = json::parse(line);
        pv::run_termlist(sc);
        pv::emit({{"e", "Done"}, {"id", sc.value("id", json())}});
    }
    return 0;
}
