// Workflow histories (spec/Workflow.tla): one instance of every computable object of a model, a list of public calls
// applied in the given order; after every call: outcome, statuses of all objects, which objects' data changed,
// and -- for getters and for the table returned by TwoParticleGF::compute -- whether the data equals that of the
// same objects built in the canonical linear order.
#pragma once
#include "pv_common.hpp"
#include "pv_model.hpp"

namespace pv {

struct WfObjects {
    Model* m = nullptr;
    Lattice* L = nullptr;
    IndexClassification* IC = nullptr;
    IndexHamiltonian* HS = nullptr;
    Symmetrizer* SYM = nullptr;
    bool ic_done = false, hs_done = false;
    StatesClassification* S = nullptr;
    Hamiltonian* H = nullptr;
    HamiltonianPart* HP = nullptr;         // a part used on its own (block 0)
    DensityMatrix* DM = nullptr;
    CreationOperator* CX = nullptr;
    AnnihilationOperator* C = nullptr;
    QuadraticOperator* QA = nullptr;
    FieldOperatorContainer* OPS = nullptr;
    GreensFunction* GF = nullptr;
    TwoParticleGF* X = nullptr;
    Susceptibility* SU = nullptr;
    EnsembleAverage* EA = nullptr;
    Vertex4* V = nullptr;
    std::vector<boost::tuple<ComplexType, ComplexType, ComplexType>> freqs;
    double beta = 1.0;
    boost::mpi::communicator world;

    int ci = 0, cj2 = 0;
    void init(Model* mm, double b, int i, int j) {
        m = mm; beta = b; L = m->L; ci = i; cj2 = j;
        const double pi = 3.14159265358979323846;
        for (int a = -1; a <= 1; ++a) for (int c = -1; c <= 0; ++c)
            freqs.push_back(boost::make_tuple(ComplexType(0, pi * (2 * a + 1) / beta), ComplexType(0, pi * (2 * c + 1) / beta), ComplexType(0, pi * (2 * a + 1) / beta)));
    }
    // constructs object o if it does not exist yet (HP reads the block size in its constructor: it is always constructed by its first prepare())
    void make(const std::string& o) {
        if (o == "IC" && !IC) IC = new IndexClassification(L->getSiteMap());
        else if (o == "HS" && !HS) HS = new IndexHamiltonian(L, *IC);
        else if (o == "SYM" && !SYM) SYM = new Symmetrizer(*IC, *HS);
        else if (o == "S" && !S) S = new StatesClassification(*IC, *SYM);
        else if (o == "H" && !H) H = new Hamiltonian(*IC, *HS, *S);
        else if (o == "DM" && !DM) DM = new DensityMatrix(*S, *H, beta);
        else if (o == "CX" && !CX) CX = new CreationOperator(*IC, *S, *H, cj2);
        else if (o == "C" && !C) C = new AnnihilationOperator(*IC, *S, *H, ci);
        else if (o == "QA" && !QA) QA = new QuadraticOperator(*IC, *S, *H, ci, cj2);
        else if (o == "OPS" && !OPS) OPS = new FieldOperatorContainer(*IC, *S, *H);
        else if (o == "GF" && !GF) GF = new GreensFunction(*S, *H, *C, *CX, *DM);
        else if (o == "X" && !X) X = new TwoParticleGF(*S, *H, *C, *C, *CX, *CX, *DM);
        else if (o == "SU" && !SU) SU = new Susceptibility(*S, *H, *QA, *QA, *DM);
        else if (o == "EA" && !EA) EA = new EnsembleAverage(*S, *H, *QA, *DM);
        else if (o == "V" && !V) V = new Vertex4(*X, *GF, *GF, *GF, *GF);
    }
    // the histories under test: EVERY object is constructed up front, before IndexClassification::prepare() has run
    void construct(Model* mm, double b, int i, int j) {
        init(mm, b, i, j);
        for (auto& o : names()) make(o);
    }

    static const std::vector<std::string>& names() {
        static std::vector<std::string> n = {"IC", "HS", "SYM", "S", "H", "HP", "DM", "CX", "C", "QA", "OPS", "GF", "X", "SU", "EA", "V"};
        return n;
    }

    int fop_status(FieldOperator* f) { return (int)f->getStatus(); }
    int status(const std::string& o) {
        if (o == "IC") return ic_done ? 2 : 0;           // no status of their own: finished once prepare() has run
        if (o == "HS") return hs_done ? 2 : 0;
        if (o == "SYM") return SYM->getStatus();
        if (o == "S") return S->getStatus();
        if (o == "H") return H->getStatus();
        if (o == "HP") return HP ? (int)HP->getStatus() : 0;
        if (o == "DM") return DM->getStatus();
        if (o == "CX") return CX->getStatus();
        if (o == "C") return C->getStatus();
        if (o == "QA") return QA->getStatus();
        if (o == "GF") return GF->getStatus();
        if (o == "X") return X->getStatus();
        if (o == "SU") return SU->getStatus();
        if (o == "EA") return EA->getStatus();
        if (o == "V") return V->getStatus();
        if (o == "OPS") {
            if (OPS->mapCreationOperators.empty()) return 0;
            int s = 2;
            for (auto& kv : OPS->mapCreationOperators) s = std::min(s, (int)kv.second->getStatus());
            for (auto& kv : OPS->mapAnnihilationOperators) s = std::min(s, (int)kv.second->getStatus());
            return s;
        }
        return -1;
    }

    static void add(std::string& d, double x) { d += dstr(x); d.push_back(','); }
    static void add(std::string& d, ComplexType z) { add(d, z.real()); add(d, z.imag()); }
    void fop_digest(std::string& d, FieldOperator* f) {
        d += "st" + std::to_string((int)f->getStatus()) + ";";
        for (auto it = f->LeftRightBlocks.left.begin(); it != f->LeftRightBlocks.left.end(); ++it)
            d += std::to_string((int)it->first) + ">" + std::to_string((int)it->second) + ";";
        for (FieldOperatorPart* p : f->parts) {
            d += "p" + std::to_string(p->elementsRowMajor.rows()) + "x" + std::to_string(p->elementsRowMajor.cols()) + ":";
            for (int k = 0; k < p->elementsRowMajor.outerSize(); ++k)
                for (RowMajorMatrixType::InnerIterator it(p->elementsRowMajor, k); it; ++it) { d += std::to_string(it.row()) + "," + std::to_string(it.col()) + "="; add(d, ComplexType(it.value())); }
            d += "c:";
            for (int k = 0; k < p->elementsColMajor.outerSize(); ++k)
                for (ColMajorMatrixType::InnerIterator it(p->elementsColMajor, k); it; ++it) { d += std::to_string(it.row()) + "," + std::to_string(it.col()) + "="; add(d, ComplexType(it.value())); }
        }
    }
    // never touches anything that is undefined for an unfinished object
    std::string digest(const std::string& o) {
        std::string d = "st" + std::to_string(status(o)) + ";";
        if (o == "IC") {
            d += "n" + std::to_string((int)IC->getIndexSize()) + ":";
            if (ic_done) for (ParticleIndex k = 0; k < IC->getIndexSize(); ++k) { auto info = IC->getInfo(k); d += info.SiteLabel + "," + std::to_string((int)info.Orbital) + "," + std::to_string((int)info.Spin) + ";"; }
        } else if (o == "HS") {
            for (auto it = HS->begin(); it != HS->end(); ++it) {
                for (auto& ci : it->first) d += std::string(boost::get<0>(ci) == Operator::creation ? "+" : "-") + std::to_string((int)boost::get<1>(ci));
                d += "="; add(d, ComplexType(it->second));
            }
        } else if (o == "SYM") {
            d += "ops" + std::to_string(SYM->getOperations().size());
        } else if (o == "S") {
            for (auto b : S->StateBlockIndex) d += std::to_string((int)b) + ",";
            for (auto& v : S->StatesContainer) { d += "|"; for (auto& f : v) d += std::to_string(f.to_ulong()) + ","; }
        } else if (o == "H") {
            for (auto& p : H->parts) {
                if (!p) { d += "null;"; continue; }
                d += "P" + std::to_string((int)p->getStatus()) + ":";
                for (int r = 0; r < p->H.rows(); ++r) for (int c2 = 0; c2 < p->H.cols(); ++c2) add(d, ComplexType(p->H(r, c2)));
                d += "E:";
                for (int k = 0; k < p->Eigenvalues.size(); ++k) add(d, p->Eigenvalues(k));
            }
            if (H->getStatus() == 2) add(d, H->getGroundEnergy());
        } else if (o == "HP" && HP) {
            for (int r = 0; r < HP->H.rows(); ++r) for (int c2 = 0; c2 < HP->H.cols(); ++c2) add(d, ComplexType(HP->H(r, c2)));
            d += "E:";
            for (int k = 0; k < HP->Eigenvalues.size(); ++k) add(d, HP->Eigenvalues(k));
        } else if (o == "DM") {
            for (auto* p : DM->parts) {
                if (!p) { d += "null;"; continue; }
                d += "P" + std::to_string(p->weights.size()) + (p->retained ? "r:" : "t:");
                if (DM->getStatus() == 2) for (int k = 0; k < p->weights.size(); ++k) add(d, p->weights(k));
            }
        } else if (o == "CX") fop_digest(d, CX);
        else if (o == "C") fop_digest(d, C);
        else if (o == "QA") fop_digest(d, QA);
        else if (o == "OPS") {
            for (auto& kv : OPS->mapCreationOperators) { d += "X" + std::to_string(kv.first) + ":"; fop_digest(d, kv.second); }
            for (auto& kv : OPS->mapAnnihilationOperators) { d += "A" + std::to_string(kv.first) + ":"; fop_digest(d, kv.second); }
        } else if (o == "GF") {
            d += "n" + std::to_string(GF->parts.size()) + (GF->Vanishing ? "v" : "nv") + ":";
            for (long n = -2; n <= 2; ++n) add(d, (*GF)(n));
            add(d, GF->of_tau(0.3 * beta));
        } else if (o == "X") {
            d += "n" + std::to_string(X->parts.size()) + (X->Vanishing ? "v" : "nv") + ":";
            // the parts refuse to be evaluated before compute() (std::logic_error), so only a finished object is evaluated
            if (X->getStatus() == 2) for (long a = -1; a <= 1; ++a) for (long b = -1; b <= 1; ++b) for (long c2 = -1; c2 <= 0; ++c2) add(d, (*X)(a, b, c2));
        } else if (o == "SU") {
            d += "n" + std::to_string(SU->parts.size()) + (SU->Vanishing ? "v" : "nv") + ":";
            for (long n = -1; n <= 2; ++n) add(d, (*SU)(n));
            add(d, SU->of_tau(0.3 * beta));
        } else if (o == "EA") {
            add(d, EA->getResult());
        } else if (o == "V") {
            if (V->getStatus() == 2)
                for (long a = -2; a <= 1; ++a) for (long b = -2; b <= 1; ++b) for (long c2 = -2; c2 <= 1; ++c2) { add(d, (*V)(a, b, c2)); add(d, V->value(a, b, c2)); }
        }
        return d;
    }

    // one public call; returns outcome and what was handed back
    struct Res { std::string out, ex, ret; std::vector<ComplexType> table; };
    Res call(const std::string& o, const std::string& op) {
        Res r; r.ret = "none";
        std::string ex = classify_exception([&] {
            if (op == "prepare") {
                if (o == "H") H->prepare(world);
                else if (o == "HP") { if (!HP) HP = new HamiltonianPart(*IC, *HS, *S, BlockNumber(0)); HP->prepare(); }
                else if (o == "DM") DM->prepare();
                else if (o == "CX") CX->prepare();
                else if (o == "C") C->prepare();
                else if (o == "QA") QA->prepare();
                else if (o == "OPS") OPS->prepareAll();
                else if (o == "GF") GF->prepare();
                else if (o == "X") X->prepare();
                else if (o == "SU") SU->prepare();
                else if (o == "EA") EA->prepare();
                else throw std::runtime_error("no such call");
            } else if (op == "compute") {
                if (o == "IC") { IC->prepare(m->sc.value("order_spins", false)); ic_done = true; }
                else if (o == "HS") { HS->prepare(); hs_done = true; }
                else if (o == "SYM") SYM->compute(false);
                else if (o == "S") S->compute();
                else if (o == "H") H->compute(world);
                else if (o == "HP") { if (!HP) throw std::runtime_error("HP not constructed"); HP->compute(); }
                else if (o == "DM") DM->compute();
                else if (o == "CX") CX->compute();
                else if (o == "C") C->compute();
                else if (o == "QA") QA->compute();
                else if (o == "OPS") OPS->computeAll();
                else if (o == "GF") GF->compute();
                else if (o == "X") { r.table = X->compute(false, freqs, world); r.ret = r.table.empty() ? "empty" : "table"; }
                else if (o == "SU") SU->compute();
                else if (o == "V") V->compute(1);
                else throw std::runtime_error("no such call");
            } else if (op == "get") {
                volatile double sink = 0;
                if (o == "IC") sink = (int)IC->getIndex(IC->getInfo(0));
                else if (o == "HS") sink = std::distance(HS->begin(), HS->end());
                else if (o == "SYM") sink = SYM->getOperations().size();
                else if (o == "S") sink = (int)S->getBlockNumber(FockState(IC->getIndexSize(), 0));
                else if (o == "H") sink = H->getEigenValue(0);
                else if (o == "HP") { if (!HP) throw std::runtime_error("HP not constructed"); sink = HP->getEigenValue(0); }
                else if (o == "DM") sink = DM->getWeight(0);
                else if (o == "CX") sink = CX->getBlockMapping().size();
                else if (o == "C") sink = C->getBlockMapping().size();
                else if (o == "QA") sink = QA->getBlockMapping().size();
                else if (o == "OPS") sink = OPS->getCreationOperator(0).getBlockMapping().size();
                else if (o == "GF") sink = (*GF)(0).imag();
                else if (o == "X") sink = (*X)(0, 0, 0).real();
                else if (o == "SU") sink = (*SU)(0).real();
                else if (o == "EA") sink = EA->getResult().real();
                else if (o == "V") sink = (*V)(0, 0, 0).real();
                else throw std::runtime_error("no such call");
                (void)sink;
                r.ret = "value";
            } else if (op == "copy") {
                // copy constructor: the copy must carry the same data, and destroying it must leave the original intact
                std::string d0 = digest(o), dc;
                if (o == "GF") { GreensFunction* cp = new GreensFunction(*GF); std::swap(GF, cp); dc = digest(o); std::swap(GF, cp); delete cp; }
                else if (o == "SU") { Susceptibility* cp = new Susceptibility(*SU); std::swap(SU, cp); dc = digest(o); std::swap(SU, cp); delete cp; }
                else if (o == "EA") { EnsembleAverage* cp = new EnsembleAverage(*EA); std::swap(EA, cp); dc = digest(o); std::swap(EA, cp); delete cp; }
                else throw std::runtime_error("no such call");
                r.ret = (dc == d0 && digest(o) == d0) ? "value" : "different";
            } else throw std::runtime_error("no such op");
        });
        r.out = ex.empty() ? "ok" : (ex == "exStatusMismatch" ? "throw" : "throw:" + ex);
        r.ex = ex;
        if (!ex.empty()) r.ret = "none";
        return r;
    }

    // the reference: the documented linear order, each object constructed just before its first call (as in the tutorial)
    std::vector<ComplexType> canonical_table;
    void canonical() {
        const char* seq[][2] = {{"IC", "compute"}, {"HS", "compute"}, {"SYM", "compute"}, {"S", "compute"}, {"H", "prepare"}, {"H", "compute"}, {"HP", "prepare"}, {"HP", "compute"}, {"DM", "prepare"}, {"DM", "compute"},
                                {"CX", "prepare"}, {"CX", "compute"}, {"C", "prepare"}, {"C", "compute"}, {"QA", "prepare"}, {"QA", "compute"},
                                {"OPS", "prepare"}, {"OPS", "compute"}, {"GF", "prepare"}, {"GF", "compute"}, {"X", "prepare"}, {"X", "compute"},
                                {"SU", "prepare"}, {"SU", "compute"}, {"EA", "prepare"}, {"V", "compute"}};
        for (auto& s : seq) {
            make(s[0]);
            Res r = call(s[0], s[1]);
            if (r.out != "ok") throw std::runtime_error(std::string("canonical order failed at ") + s[0] + "." + s[1] + ": " + r.ex);
            if (std::string(s[0]) == "X" && std::string(s[1]) == "compute") canonical_table = r.table;
        }
    }
};

// {"kind":"workflow","id":..,"sites":..,"build":..,"beta":"1.0","ij":[0,0],"calls":[["S","compute"],...]}
inline void run_workflow(const json& sc) {
    json id = sc.value("id", json());
    Model m(sc);
    if (!m.build_lattice()) { emit({{"e", "WFail"}, {"id", id}, {"fail", m.fail}}); return; }
    double beta = std::stod(Model::beta_str(sc.value("beta", json("1.0"))));
    int i = sc.value("ij", json::array({0, 0}))[0].get<int>(), j = sc.value("ij", json::array({0, 0}))[1].get<int>();
    // canonical linear order on objects of their own
    WfObjects can; can.init(&m, beta, i, j);
    std::map<std::string, std::string> cdig;
    std::vector<ComplexType> ctable;
    std::string cex = classify_exception([&] {
        can.canonical();
        ctable = can.canonical_table;
        for (auto& o : WfObjects::names()) cdig[o] = can.digest(o);
    });
    if (!cex.empty()) { emit({{"e", "WFail"}, {"id", id}, {"fail", "canonical:" + cex}}); return; }
    // The objects under test live on a lattice of their own that is built in two phases: all objects are constructed when only the FIRST
    // site exists (IndexClassification is handed the site map by reference), then the remaining sites and all terms are added.
    LatticeBox box2;
    if (sc.count("den")) box2.den = sc["den"].get<long>();
    WfObjects w;
    std::string lex = classify_exception([&] {
        const json& sites = sc.at("sites");
        Lattice* L2 = box2.lat[1];
        L2->addSite(sites[0][0].get<std::string>(), sites[0][1].get<int>(), sites[0][2].get<int>());
        w.init(&m, beta, i, j);
        w.L = L2;
        for (auto& o : WfObjects::names()) w.make(o);
        // the lattice is a value: scratch copies of it are made and destroyed while it is being built and afterwards (stuttering steps of
        // Workflow.tla -- nothing the objects under test see may change, and the original must stay usable)
        { Lattice early(*L2); }
        for (size_t k = 1; k < sites.size(); ++k) L2->addSite(sites[k][0].get<std::string>(), sites[k][1].get<int>(), sites[k][2].get<int>());
        for (const json& act : sc.at("build")) {
            json r = box2.call(act);
            if (r["res"] != "ok") throw std::runtime_error("build call rejected: " + act.dump());
        }
        { Lattice scratch(*L2); Lattice again(scratch); }
    });
    if (!lex.empty()) { emit({{"e", "WFail"}, {"id", id}, {"fail", "lattice:" + lex}}); return; }
    emit({{"e", "WReset"}, {"id", id}});
    std::map<std::string, std::string> before;
    for (auto& o : WfObjects::names()) before[o] = w.digest(o);
    int k = 0;
    for (const json& cl : sc.at("calls")) {
        std::string o = cl[0].get<std::string>(), op = cl[1].get<std::string>();
        json st0 = json::object();
        for (auto& n : WfObjects::names()) st0[n] = w.status(n);
        WfObjects::Res r = w.call(o, op);
        json st = json::object(), changed = json::array();
        for (auto& n : WfObjects::names()) {
            st[n] = w.status(n);
            std::string d = w.digest(n);
            if (d != before[n]) changed.push_back(n);
            before[n] = d;
        }
        std::string ret = r.ret;
        if (r.out == "ok" && op == "get" && before[o] != cdig[o]) ret = "different";
        if (r.out == "ok" && ret == "table") {
            bool same = r.table.size() == ctable.size();
            for (size_t q = 0; same && q < ctable.size(); ++q) same = (r.table[q] == ctable[q]);
            if (!same) ret = "different";
        }
        bool last_only = sc.value("log", "") == "last";
        if (!last_only || k + 1 == (int)sc.at("calls").size())
            emit({{"e", "WCall"}, {"id", id}, {"k", k}, {"obj", o}, {"op", op}, {"out", r.out}, {"ex", r.ex}, {"ret", ret}, {"st0", st0}, {"st", st},
                  {"changed", changed}, {"jump", last_only}});
        ++k;
    }
    // "complete": after the history, every object is brought to its final status by the remaining calls of the linear order; then ALL objects
    // must hold the canonical data (an object prepared early may be holding references to data that a later call replaced)
    if (sc.value("complete", false)) {
        const char* seq[][2] = {{"IC", "compute"}, {"HS", "compute"}, {"SYM", "compute"}, {"S", "compute"}, {"H", "prepare"}, {"H", "compute"}, {"HP", "prepare"}, {"HP", "compute"},
                                {"DM", "prepare"}, {"DM", "compute"}, {"CX", "prepare"}, {"CX", "compute"}, {"C", "prepare"}, {"C", "compute"}, {"QA", "prepare"}, {"QA", "compute"},
                                {"OPS", "prepare"}, {"OPS", "compute"}, {"GF", "prepare"}, {"GF", "compute"}, {"X", "prepare"}, {"X", "compute"},
                                {"SU", "prepare"}, {"SU", "compute"}, {"EA", "prepare"}, {"V", "compute"}};
        std::string cex2;
        for (auto& s2 : seq) {
            std::string o = s2[0], op = s2[1];
            int stt = w.status(o), fin = (o == "EA") ? 1 : 2;
            bool need = (op == "prepare") ? (stt < 1) : (stt < fin);
            if ((o == "IC" || o == "HS") && stt == 2) need = false;
            if (!need) continue;
            WfObjects::Res r = w.call(o, op);
            if (r.out != "ok") { cex2 = o + "." + op + ":" + r.ex; break; }
        }
        if (!cex2.empty()) { emit({{"e", "WEnd"}, {"id", id}, {"differs", json::array({"completion failed: " + cex2})}}); return; }
    }
    // the finished objects hold the canonical data whatever the history was
    json fin = json::array();
    for (auto& n : WfObjects::names()) {
        bool finished = w.status(n) == (n == "EA" ? 1 : 2);
        if (finished && w.digest(n) != cdig[n]) fin.push_back(n);
    }
    emit({{"e", "WEnd"}, {"id", id}, {"differs", fin}});
}

} // namespace pv
