// Index bookkeeping: builds an IndexClassification for a lattice and logs the tables of spec/Indexing.tla.
#pragma once
#include "pv_common.hpp"

namespace pv {

// {"kind":"index","id":..,"sites":[[label,orb,spin],...] (insertion order),"mode":bool}
inline void run_index(const json& sc) {
    Lattice L;
    for (const json& s : sc.at("sites")) L.addSite(s[0].get<std::string>(), s[1].get<int>(), s[2].get<int>());
    bool mode = sc.value("mode", false);
    json rec = {{"e", "Index"}, {"id", sc.value("id", json())}, {"mode", mode}};
    std::map<std::string, int> rank;
    json sites = json::array();
    int r = 0;
    for (auto& kv : L.getSiteMap()) {
        rank[kv.first] = ++r;
        sites.push_back({{"label", kv.first}, {"orb", int(kv.second->OrbitalSize)}, {"spin", int(kv.second->SpinSize)}});
    }
    rec["lat"] = sites;
    IndexClassification IC(L.getSiteMap());
    std::string ex = classify_exception([&] { IC.prepare(mode); });
    if (!ex.empty()) { rec["ex"] = ex; emit(rec); return; }
    int n = IC.getIndexSize();
    rec["n"] = n;
    json tab = json::array();
    std::string ex2 = classify_exception([&] {
        for (int i = 0; i < n; ++i) {
            IndexClassification::IndexInfo info = IC.getInfo(i);
            tab.push_back(json::array({rank.count(info.SiteLabel) ? rank[info.SiteLabel] : 0, int(info.Orbital), int(info.Spin)}));
        }
    });
    if (!ex2.empty()) rec["ex"] = ex2;
    rec["tab"] = tab;
    json fwd = json::array();
    for (auto& kv : L.getSiteMap())
        for (int o = 0; o < 4; ++o)
            for (int z = 0; z < 4; ++z)
                fwd.push_back(json::array({rank[kv.first], o, z, int(IC.getIndex(kv.first, o, z))}));
    rec["fwd"] = fwd;
    rec["unknown"] = int(IC.getIndex("no-such-site", 0, 0));
    std::string ex3 = classify_exception([&] { IC.getInfo(n); });
    rec["oob"] = ex3.empty() ? "noex" : "ex";
    rec["check"] = json::array({IC.checkIndex(n ? n - 1 : 0), IC.checkIndex(n)});
    emit(rec);
}

} // namespace pv
