#!/bin/bash
# Confirms an independently written breaking change in its scratch worktree and files it under /verif/seeded/<name>/.
#   confirm_seeded.sh <worktree> <name> "<check ids run against it>" "<rc per check>"
# Steps: (1) with the change: library builds, the repository's 20 tests pass, the demonstration fails;
#        (2) without it (reverse patch): the demonstration passes;  (3) the change is re-applied.
wt=$1; name=$2; checks=$3; rcs=$4
export OMPI_ALLOW_RUN_AS_ROOT=1 OMPI_ALLOW_RUN_AS_ROOT_CONFIRM=1 OMPI_MCA_rmaps_base_oversubscribe=1
cd "$wt" || exit 2
demo=$(python3 -c "import json,re;c=json.load(open('_mutant/meta.json'))['demo_cmd'];c=re.split(r' \| grep| +# ',c)[0];print(c)")
cmake --build _build -j 6 > /dev/null 2>&1 || { echo "$name: build with change failed"; exit 1; }
tests=$(ctest --test-dir _build -j4 --timeout 600 2>&1 | grep "tests passed" )
( eval "$demo" ) > _mutant/with.log 2>&1; rc_with=$?; grep -q "FAIL" _mutant/with.log && rc_with=1
git apply -R _mutant/patch.diff || { echo "$name: cannot reverse patch"; exit 1; }
cmake --build _build -j 6 > /dev/null 2>&1
( eval "$demo" ) > _mutant/without.log 2>&1; rc_without=$?; grep -q "FAIL" _mutant/without.log && rc_without=1
git apply _mutant/patch.diff; cmake --build _build -j 6 > /dev/null 2>&1
echo "$name: tests[$tests] demo_with=$rc_with demo_without=$rc_without"
if [[ "$tests" == *"100% tests passed"* && $rc_with -ne 0 && $rc_without -eq 0 ]]; then
  d=/verif/seeded/$name; mkdir -p $d
  cp _mutant/patch.diff $d/; cp _mutant/demo.* $d/ 2>/dev/null; 
  python3 - "$d" "$checks" "$rcs" "$tests" "$rc_with" "$rc_without" <<'PY'
import json,sys
d,checks,rcs,tests,rw,rwo=sys.argv[1:7]
m=json.load(open('_mutant/meta.json'))
m['confirmed']={'tests_with_change':tests.strip(),'demo_exit_with_change':int(rw),'demo_exit_without_change':int(rwo),'where':'scratch worktree of /repo HEAD, removed afterwards'}
m['checks_run']=dict(zip(checks.split(),[int(x) for x in rcs.split()]))
m['breaks']=m.get('property')
json.dump(m,open(d+'/meta.json','w'),indent=1)
PY
  echo "$name: filed under $d"
else
  echo "$name: NOT confirmed"
fi
