#!/bin/bash
# runs the quick (or $1) tier of every claimed check; prints one line per check
cd "$(dirname "$0")/.."
tier=${1:-quick}
for id in $(python3 -c "import json;print(' '.join(c['property_id'] for c in json.load(open('MANIFEST.json'))['checks']))"); do
  s=$(date +%s)
  out=$(./check $id --tier $tier 2>&1); rc=$?
  echo "$id rc=$rc $(( $(date +%s) - s ))s :: $(echo "$out" | grep -E "^$id:|VIOLATION|KNOWN-FINDING" | head -3 | tr '\n' ' ')"
done
