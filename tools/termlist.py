"""TermList<TermType>::add_term as a state machine (spec/TermList.tla): TLC checks coefficient conservation, no equivalent pair, weight
bookkeeping and pole closeness on every history of MaxAdds additions from a catalogue with chains of nearly equal poles; every complete
history is replayed on the real template over the library's own term types (harness pv_termlist compiles their inline definitions from
the repository's sources) and validated by TermListTrace.tla.  Kinds: GF (GreensFunctionPart::Term) -> C01, SU (SusceptibilityPart::Term,
same specification kind "GF") -> C14, NR and R (TwoParticleGFPart::NonResonantTerm / ResonantTerm) -> C02."""
import json, random, sys
import pv

SPEC_KIND = {"GF": "GF", "SU": "GF", "NR": "NR", "R": "R"}
UNIT, TOL, CTOL = 0.125, 0.55, 2.5          # poles are integers x UNIT; TOL = 4.4 units = 22/5, CTOL = 5/2  (spec/TermList*.cfg)


def run(c, types, thorough):
    exe = pv.harness("plain", "pv_termlist")
    for ty in types:
        k = SPEC_KIND[ty]
        depth = (4 if k == "GF" else 3)
        cfg, emit = "TermList%s" % k, "TermList%sEmit" % k
        if thorough and k != "GF":
            for name in (cfg, emit):
                open(pv.SPEC + "/%s4.cfg" % name, "w").write(open(pv.SPEC + "/%s.cfg" % name).read().replace("MaxAdds = 3", "MaxAdds = 4"))
            cfg, emit, depth = cfg + "4", emit + "4", 4
        r = pv.run_tlc("TermListMC", cfg, workers=8, timeout=3000, heap="8g")
        c.add_tlc(r, "TermListMC/" + k)
        if r.violated:
            pv.log("INFRA: TermList.tla (%s) violates its definition level: %s" % (k, r.violated))
            sys.exit(2)
        em = pv.run_tlc("TermListMC", emit, workers=1, timeout=3000, heap="8g")
        pv.tlc_or_die(em, "TermListMC/Emit")
        seen, hists = set(), []
        for p in em.pv:
            key = json.dumps(p["hist"], sort_keys=True)
            if key not in seen:
                seen.add(key)
                hists.append(p["hist"])
        if not thorough and len(hists) > 12000:
            rng = random.Random(c.seed)
            # keep every history that contains a chain of nearly equal poles, sample the rest
            def chain(h):
                ps = [tuple(t["ps"]) for t in h]
                return len(set(ps)) >= 3
            keep = [h for h in hists if chain(h)]
            rest = [h for h in hists if not chain(h)]
            rng.shuffle(keep)
            rng.shuffle(rest)
            hists = keep[:9000] + rest[:3000]
        scen = [{"kind": "termlist", "id": "%s:%d" % (ty, i), "type": ty, "unit": UNIT, "tol": TOL, "ctol": CTOL,
                 "adds": [{"ps": list(t["ps"]), "f": bool(t["f"]), "c": list(t["c"])} for t in h]} for i, h in enumerate(hists)]
        recs, crashed = pv.run_driver_resilient(exe, scen, timeout=3000, scen_timeout=60)
        sc_of = {s["id"]: s for s in scen}
        for s in scen:
            if s["id"] in crashed:
                c.violation("TermList<%s>: crashed on the history %s" % (ty, json.dumps(s["adds"])), s, cls="termlist:crash")
        ev = [x for x in recs if x.get("e") in ("TBegin", "TAdd") and x.get("id") not in crashed]
        pos, guard = 0, 0
        while pos < len(ev) and guard < 30:
            guard += 1
            v = pv.validate_trace("TermListTrace", "TermListTrace" + k, ev[pos:], "%s/termlist-%s-%d" % (c.pid, ty, guard % 3), timeout=3000, heap="8g")
            if v.res.violated and v.res.violated != "TraceAccepted":
                # a definition-level invariant fails on a state recorded from the real code
                m = v.res.stdout
                c.violation("TermList<%s>: a recorded state violates %s (TermList.tla)" % (ty, v.res.violated), {"type": ty, "invariant": v.res.violated}, cls="termlist:invariant")
                break
            pv.tlc_or_die(v.res, "TermListTrace")
            c.states += v.res.distinct
            c.transitions += v.res.generated
            if guard == 1:
                c.tlc_cmds.append(v.res.cmd)
            if v.accepted:
                break
            bad = ev[pos + v.matched]
            s = sc_of.get(bad["id"], {})
            c.violation("TermList<%s>: after add_term of %s (history %s) the list holds %s -- not an outcome TermList.tla allows (a term was lost, not merged, or merged wrongly)" % (
                ty, json.dumps(bad.get("t")), json.dumps(s.get("adds", [])[: bad.get("k", 1)]), json.dumps(bad.get("terms"))[:400]), s, cls="termlist")
            nxt = pos + v.matched + 1
            while nxt < len(ev) and ev[nxt]["e"] != "TBegin":
                nxt += 1
            pos = nxt
        c.traces += len(scen)
        c.evaluations += len(ev)
        c.nontriv("TermList<%s>: %d complete add_term histories of length %d replayed" % (ty, len(scen), depth))
        c.extra.setdefault("termlist", {})[ty] = {"histories": len(scen), "depth": depth, "events": len(ev)}
