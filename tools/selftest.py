#!/usr/bin/env python3
"""Binding demonstration (DESIGN.md section 10): applies one source mutation at a time to /repo's working tree, runs the quick check of the
property it should break (which rebuilds from the working tree), expects exit 1, and restores the tree (git checkout) straight afterwards.
Also accepts patch files:  selftest.py --patch <file.diff> <ID> [<ID> ...]
Results are written to /verif/selftest/results.json (and summarised in DESIGN.md)."""
import json, os, subprocess, sys, time

VERIF = os.path.dirname(os.path.dirname(os.path.abspath(__file__)))
REPO = "/repo"

# (name, property, file, old, new)
MUTANTS = [
    ("gf-weight-sign", "C01", "src/pomerol/GreensFunctionPart.cpp", "(DMpartOuter.getWeight(index1) + DMpartInner.getWeight(C_index2))", "(DMpartOuter.getWeight(index1) - DMpartInner.getWeight(C_index2))"),
    # ("gf-merge-walk": `<=` -> `<` in the merge walk is an EQUIVALENT mutant: on equal keys only one iterator advances and the other follows in the next round)
    ("gf-merge-skip", "C01", "src/pomerol/GreensFunction.cpp", "if(Cleft == CXright && Cright == CXleft){", "if(Cleft == CXright && Cright == CXleft && (Cleft != 2 || CNontrivialBlocks.size() < 4)){"),
    ("gfcontainer-swap", "C01", "src/pomerol/GFContainer.cpp", "Operators.getAnnihilationOperator(Indices.Index1),\n                                   Operators.getCreationOperator(Indices.Index2),DM);", "Operators.getAnnihilationOperator(Indices.Index2),\n                                   Operators.getCreationOperator(Indices.Index1),DM);"),
    ("chi-z2-sign", "C02", "src/pomerol/TwoParticleGFPart.cpp", "ComplexType CoeffZ2 = -Coeff*(Wj + Wk);", "ComplexType CoeffZ2 = Coeff*(Wj + Wk);"),
    ("chi-res23", "C02", "src/pomerol/TwoParticleGFPart.cpp", "ComplexType CoeffZ2Z3Res = -Coeff*beta*Wj;", "ComplexType CoeffZ2Z3Res = Coeff*beta*Wj;"),
    ("chi-z3-sign", "C02", "src/pomerol/TwoParticleGFPart.cpp", "ComplexType Frequencies[3] = {  z1, z2, -z3 };", "ComplexType Frequencies[3] = {  z1, z2, z3 };"),
    ("chi-table-assign", "C02", "src/pomerol/TwoParticleGF.cpp", "(*data_)[w] += (*p)(", "(*data_)[w] = (*p)("),
    ("chi-vanishing-table", "C02", "src/pomerol/TwoParticleGF.cpp", "    m_data.resize(freqs.size(), 0.0); // one value per requested frequency, also for an identically vanishing component\n    if (!Vanishing) {", "    if (!Vanishing) {\n    m_data.resize(freqs.size(), 0.0);"),
    ("h-1x1", "C03", "src/pomerol/HamiltonianPart.cpp", "\t    Eigenvalues << H(0,0);\n        #endif", "\t    Eigenvalues << 0*H(0,0);\n        #endif"),
    ("ground-max", "C03", "src/pomerol/Hamiltonian.cpp", "GroundEnergy=LEV.minCoeff();", "GroundEnergy=LEV.maxCoeff();"),
    ("szsz-coeff", "C04", "src/pomerol/LatticePresets.cpp", "NupNdown(Label1, Label2, -ExchJ/4., i, i, up, down));", "NupNdown(Label1, Label2, -ExchJ/2., i, i, up, down));"),
    ("coulombp-half", "C04", "src/pomerol/LatticePresets.cpp", "NupNdown(Label, (U_p-J)/2., i, j, z1, z1)", "NupNdown(Label, (U_p-J), i, j, z1, z1)"),
    ("hopping4-no-hc", "C04", "src/pomerol/LatticePresets.cpp", "    L->addTerm(Lattice::Term::Presets::Hopping(Label2, Label1, t, Orbital2, Orbital1, Spin2, Spin1));\n    #endif", "    if (Orbital1 != Orbital2) L->addTerm(Lattice::Term::Presets::Hopping(Label2, Label1, t, Orbital2, Orbital1, Spin2, Spin1));\n    #endif"),
    ("ih-restart", "C04", "src/pomerol/IndexHamiltonian.cpp", "if (i==0) tmp=t1;", "if (tmp.isEmpty()) tmp=t1;"),
    ("normalize-no-vanish", "C05", "include/pomerol/Operator.h", "if(prev_index == cur_index) return;   // The monomial is effectively zero", "if(prev_index == cur_index && n > 1) return;   // The monomial is effectively zero"),
    ("op-eq-length", "C05", "src/pomerol/Operator.cpp", "lhs.first.size() == rhs.first.size() && std::equal(", "lhs.first.size() <= rhs.first.size() && std::equal("),
    ("skel-world-barrier", "C06", "include/mpi_dispatcher/mpi_skel.hpp", "    comm.barrier();\n    // Now spread the information, who did what.", "    MPI_Barrier(MPI_COMM_WORLD);\n    // Now spread the information, who did what."),
    ("split-root-highest", "C06", "src/pomerol/TwoParticleGFContainer.cpp", "if (!color_roots.count(color)) color_roots[color]=p;", "color_roots[color]=p;"),
    ("split-status", "C06", "src/pomerol/TwoParticleGFContainer.cpp", "                if (!clearTerms) chi.parts[p]->Status = TwoParticleGFPart::Computed; // the terms have just been received\n", ""),
    ("h-bcast-root", "C06", "src/pomerol/Hamiltonian.cpp", "boost::mpi::broadcast(comm, parts[p]->Eigenvalues.data(), parts[p]->H.rows(), job_map[p]);", "boost::mpi::broadcast(comm, parts[p]->Eigenvalues.data(), parts[p]->H.rows(), (job_map[p]+(p==1))%comm.size());"),
    ("sym-sz-throws", "C07", "src/pomerol/Symmetrizer.cpp", "if (2*SpinUpIndices.size() == IndexSize)", "if (true)"),
    # ("mapsto-last": result.begin() -> result.rbegin() is an EQUIVALENT mutant: c, c^+ and c^+c map a Fock state to at most one Fock state, the map has one entry)
    ("mapsto-first-only", "C07", "src/pomerol/FieldOperator.cpp", "state_it!=states.end() && !found; state_it++) {\n        result = O->actRight(*state_it);", "state_it!=states.end() && !found && state_it==states.begin(); state_it++) {\n        result = O->actRight(*state_it);"),
    ("inner-state-block0", "C07", "src/pomerol/StatesClassification.cpp", "    BlockNumber block = this->getBlockNumber(state);\n    for (InnerQuantumState n=0;", "    BlockNumber block = (state.count()==2) ? BlockNumber(0) : this->getBlockNumber(state);\n    for (InnerQuantumState n=0;"),
    # ("quadratic-bimap": `AleftInt <= BrightInt` -> `<` in Susceptibility::prepare is an EQUIVALENT mutant: both maps are bijections walked in
    #  ascending order, on equal keys either iterator may advance first and the other follows in the next round)
    ("dm-no-ground", "C09", "src/pomerol/DensityMatrixPart.cpp", "exp(-beta*(hpart.getEigenValue(s)-GroundEnergy))", "exp(-beta*(hpart.getEigenValue(s)))"),
    ("dm-occ-index", "C09", "src/pomerol/DensityMatrixPart.cpp", "S.getFockState(hpart.getBlockNumber(),fi).test(i)*", "S.getFockState(hpart.getBlockNumber(),fi).test(i>2?0:i)*"),
    ("ea-offdiag-block", "C09", "src/pomerol/EnsembleAverage.cpp", "result_part += Amatrix.coeff(index1, index1) * DMpart.getWeight(index1);", "result_part += Amatrix.coeff(index1, index1) * DMpart.getWeight(Amatrix.outerSize()-1-index1);"),
    ("fop-sign", "C10", "src/pomerol/FieldOperatorPart.cpp", "RightMat(k,m) = RealType(sign) * HFrom.getMatrixElement(k,m);", "RightMat(k,m) = RealType(sign*sign) * HFrom.getMatrixElement(k,m);"),
    ("fop-container-sign", "C10", "src/pomerol/FieldOperatorContainer.cpp", "                c.getPartFromRightIndex(cdag_map_it->second).Status = ComputableObject::Computed;", "                if (int(cdag_map_it->first)==2) { c.getPartFromRightIndex(cdag_map_it->second).elementsRowMajor *= -1.0; c.getPartFromRightIndex(cdag_map_it->second).elementsColMajor *= -1.0; }\n                c.getPartFromRightIndex(cdag_map_it->second).Status = ComputableObject::Computed;"),
    ("cplx-leftmat-conj", "C10", "src/pomerol/FieldOperatorPart.cpp", "LeftMat(n,k) = std::conj(HTo.getMatrixElement(l,n));", "LeftMat(n,k) = HTo.getMatrixElement(l,n);"),
    ("cplx-container-transpose", "C10", "src/pomerol/FieldOperatorContainer.cpp", "cdag.getPartFromRightIndex(cdag_map_it->first).getColMajorValue().adjoint();", "cdag.getPartFromRightIndex(cdag_map_it->first).getColMajorValue().transpose();"),
    ("cplx-hopping-conj", "C04", "src/pomerol/LatticePresets.cpp", "Hopping(Label2, Label1, conj(t), Orbital2, Orbital1, Spin2, Spin1)); // Hermite conjugate", "Hopping(Label2, Label1, t, Orbital2, Orbital1, Spin2, Spin1)); // Hermite conjugate"),
    ("cplx-h-real-1x1", "C03", "src/pomerol/HamiltonianPart.cpp", "\t    Eigenvalues << std::real(H(0,0));", "\t    Eigenvalues << std::abs(H(0,0));"),
    ("cplx-gf-conj", "C12", "src/pomerol/GreensFunctionPart.cpp", "ComplexType Residue = Cinner.value() * CXinner.value() *", "ComplexType Residue = std::conj(Cinner.value()) * CXinner.value() *"),
    ("gf-tau-branch", "C11", "src/pomerol/GreensFunctionPart.cpp", "return Pole > 0 ? -Residue*exp(-tau*Pole)/(1 + exp(-beta*Pole)) :", "return Pole < 0 ? -Residue*exp(-tau*Pole)/(1 + exp(-beta*Pole)) :"),
    ("vertex-sign", "C12", "src/pomerol/Vertex4.cpp", "Value -= beta*  G14(MatsubaraNumber1)*G23(MatsubaraNumber2);", "Value += beta*  G14(MatsubaraNumber1)*G23(MatsubaraNumber2);"),
    ("resonance-tol", "C12", "include/pomerol/TwoParticleGFPart.h", "return (abs(Diff) < KroneckerSymbolTolerance ? ResCoeff : (NonResCoeff/Diff) )\n                /((z1-Poles[0])*(z3-Poles[2]));\n    } else {", "return (abs(Diff) < 0*KroneckerSymbolTolerance ? ResCoeff : (NonResCoeff/Diff) )\n                /((z1-Poles[0])*(z3-Poles[2]));\n    } else {"),
    ("perm-table", "C13", "include/pomerol/IndexContainer4.h", "ElementWithPermFreq<ElementType>(pElement,permutations4[6])));", "ElementWithPermFreq<ElementType>(pElement,permutations4[7])));"),
    ("fill-stale-nt", "C13", "include/pomerol/IndexContainer4.h", "    NonTrivialElements.clear();\n", ""),
    ("sus-zero-pole", "C14", "src/pomerol/SusceptibilityPart.cpp", "ZeroPoleWeight += Ainner.value() * Binner.value() * DMpartOuter.getWeight(index1);", "ZeroPoleWeight += Ainner.value() * Binner.value() * DMpartInner.getWeight(A_index2) * DMpartOuter.getWeight(index1);"),
    ("sus-subtract-all-n", "C14", "include/pomerol/Susceptibility.h", "if( abs(z) < 1e-15 )  Value -= ave_A * ave_B * beta;  // only for n=0", "Value -= ave_A * ave_B * beta;  // only for n=0"),
    # ("store-offset": shifting FermionicIndexOffset by one PRESERVES the property: fill and lookup use the same offset and the lookup is
    #  bounds-checked with a fall-back to the source, so every triple still returns the direct value -- only the cached window moves. C15
    #  rightly stays quiet; kept here as a documented non-violation)
    ("store-no-fallback", "C15", "include/pomerol/MatsubaraContainers.h", "if(NuIndexM >= 0 && NuIndexM < Values[BosonicIndexV].rows() &&\n           NupIndexM >= 0 && NupIndexM < Values[BosonicIndexV].cols())", "if(NuIndexM >= 0 && NuIndexM <= Values[BosonicIndexV].rows() &&\n           NupIndexM >= 0 && NupIndexM < Values[BosonicIndexV].cols())"),
    ("store-swap", "C15", "include/pomerol/MatsubaraContainers.h", "return Values[BosonicIndexV](NuIndexM,NupIndexM);", "return Values[BosonicIndexV](NupIndexM,NuIndexM);"),
    ("disp-finish-early", "C16", "src/mpi_dispatcher/mpi_dispatcher.cpp", "if (JobStack.empty() && WorkerStack.size() >= Nprocs) {", "if (JobStack.empty() && WorkerStack.size() > 0) {"),
    ("disp-map-late", "C16", "src/mpi_dispatcher/mpi_dispatcher.cpp", "    DispatchMap[job]=worker;\n", "    DispatchMap[job]=(job==2 && Nprocs>2)?worker_pool[0]:worker;\n"),
    ("chase-unguarded", "C17", "src/pomerol/GreensFunctionPart.cpp", "for(;CXinner && QuantumState(CXinner.index())<C_index2; ++CXinner);", "for(;QuantumState(CXinner.index())<C_index2; ++CXinner);"),
    ("index-break", "C18", "src/pomerol/IndexClassification.cpp", "if (z>=(*(it1->second)).SpinSize) continue;", "if (z>=(*(it1->second)).SpinSize) break;"),
    ("index-shift", "C18", "src/pomerol/IndexClassification.cpp", "if (it!=InfoToIndices.end()) return (*it).second;", "if (it!=InfoToIndices.end()) return ((*it).second==3 && IndexSize>5) ? 4 : (*it).second;"),
    ("trunc-and", "C19", "src/pomerol/GreensFunction.cpp", "if ( DM.isRetained(Cleft) || DM.isRetained(Cright) )", "if ( DM.isRetained(Cleft) && DM.isRetained(Cright) )"),
    ("trunc-zpart", "C19", "src/pomerol/DensityMatrixPart.cpp", "        if ( weights(s) > Tolerance ){", "        if ( weights(s) > 10*Tolerance ){"),
    # idempotence guards of the life-cycle (spec/Workflow.tla): only repeated calls show these
    ("gf-prepare-noguard", "C01", "src/pomerol/GreensFunction.cpp", "    if(Status>=Prepared) return;\n", "\n"),
    ("chi-prepare-noguard", "C02", "src/pomerol/TwoParticleGF.cpp", "    if(Status>=Prepared) return;\n", "\n"),
    ("dm-prepare-noguard", "C09", "src/pomerol/DensityMatrix.cpp", "    if (Status >= Prepared) return;\n", "\n"),
    ("ea-prepare-noguard", "C09", "src/pomerol/EnsembleAverage.cpp", "    if(Status>=Prepared) return;\n", "\n"),
    ("cx-prepare-noguard", "C10", "src/pomerol/FieldOperator.cpp", "void CreationOperator::prepare(void)\n{\n    if (Status >= Prepared) return;\n", "void CreationOperator::prepare(void)\n{\n"),
    ("sus-no-autoprepare", "C14", "src/pomerol/Susceptibility.cpp", "    if(Status<Prepared) prepare();\n", "\n"),
    ("h-prepare-noguard", "C03", "src/pomerol/Hamiltonian.cpp", "    if (Status >= Prepared) return;\n", "\n"),
    # the term container (spec/TermList.tla)
    ("termlist-insert-direct", "C02", "include/pomerol/TermList.h", "                add_term(sum);", "                data.insert(sum);"),
    ("termlist-negligible-divisor", "C02", "include/pomerol/TermList.h", "if(!is_negligible(sum, data.size() + 1))", "if(!is_negligible(sum, 1))"),
    ("gfterm-negligible-real", "C01", "include/pomerol/GreensFunctionPart.h", "return std::abs(t.Residue) < Tolerance / ToleranceDivisor;", "return std::real(t.Residue) < Tolerance / ToleranceDivisor;"),
    ("resterm-negligible-or", "C02", "include/pomerol/TwoParticleGFPart.h", "return std::abs(t.ResCoeff) < Tolerance / ToleranceDivisor &&\n                       std::abs(t.NonResCoeff) < Tolerance / ToleranceDivisor;", "return std::abs(t.ResCoeff) < Tolerance / ToleranceDivisor ||\n                       std::abs(t.NonResCoeff) < Tolerance / ToleranceDivisor;"),
    ("nrterm-merge-weight", "C02", "src/pomerol/TwoParticleGFPart.cpp", "    Weight=combinedWeight;\n    Coeff += AnotherTerm.Coeff;", "    Coeff += AnotherTerm.Coeff;"),
    ("susterm-merge-drop", "C14", "src/pomerol/SusceptibilityPart.cpp", "    Residue += AnotherTerm.Residue;\n    return *this;", "    Residue = AnotherTerm.Residue;\n    return *this;"),
    ("gf-copy-shallow", "C17", "src/pomerol/GreensFunction.cpp", "        parts.push_back(new GreensFunctionPart(**iter));", "        parts.push_back(*iter);"),
    ("lattice-orbital-check", "C20", "src/pomerol/Lattice.cpp", "if (T->Orbitals[i]>=Sites[T->SiteLabels[i]]->OrbitalSize)", "if (T->Orbitals[i]>Sites[T->SiteLabels[i]]->OrbitalSize)"),
    ("lattice-zero-filter", "C20", "src/pomerol/Lattice.cpp", "if ( std::abs(T->Value) ) Terms->addTerm(T);", "Terms->addTerm(T);"),
    ("getsite-inverted", "C20", "src/pomerol/Lattice.cpp", "if (it1==Sites.end()) throw (exWrongLabel());", "if (it1!=Sites.end()) throw (exWrongLabel());"),
]


def sh(cmd, **kw):
    return subprocess.run(cmd, shell=True, stdout=subprocess.PIPE, stderr=subprocess.STDOUT, text=True, **kw)


SCRATCH = "/tmp/pvself"


def run_check(pid, repo, timeout=2400):
    t0 = time.time()
    env = dict(os.environ, VERIF_REPO=repo)
    p = sh("timeout %d ./check %s --tier quick" % (timeout, pid), cwd=VERIF, env=env)
    viol = [l for l in p.stdout.splitlines() if l.startswith("VIOLATION") or l.startswith("violation")]
    return p.returncode, time.time() - t0, viol[:2], p.stdout[-600:]


def tree_hash_of(repo):
    r = sh("VERIF_REPO=%s python3-vt -c \"import sys; sys.path.insert(0,'%s/tools'); import build; print(build.tree_hash())\"" % (repo, VERIF))
    h = r.stdout.strip().splitlines()[-1] if r.stdout.strip() else ""
    return h if len(h) == 16 else None


def one(m):
    """one mutant in a scratch worktree of /repo's HEAD (outside /repo and /verif), removed afterwards together with its build"""
    (name, pid, fn, old, new) = m
    wt = os.path.join(SCRATCH, name)
    sh("git -C %s worktree remove --force %s" % (REPO, wt))
    sh("git -C %s worktree add --detach %s HEAD" % (REPO, wt))
    try:
        path = os.path.join(wt, fn)
        src = open(path).read()
        if src.count(old) < 1:
            return name, {"property": pid, "status": "pattern-not-found"}
        open(path, "w").write(src.replace(old, new, 1))
        rc, wall, viol, tail = run_check(pid, wt)
        status = "caught" if rc == 1 else ("build-or-infra" if rc == 2 else "MISSED" if rc == 0 else "rc=%s" % rc)
        res = {"property": pid, "file": fn, "status": status, "wall_s": round(wall), "first_violation": viol[0][:300] if viol else None}
        if rc not in (0, 1):
            res["tail"] = tail[-300:]
        h = tree_hash_of(wt)
        if h:
            sh("rm -rf %s/build/%s" % (VERIF, h))
        return name, res
    finally:
        sh("git -C %s worktree remove --force %s" % (REPO, wt))


def main():
    args = sys.argv[1:]
    os.makedirs(os.path.join(VERIF, "selftest"), exist_ok=True)
    os.makedirs(SCRATCH, exist_ok=True)
    resfile = os.path.join(VERIF, "selftest", "results.json")
    results = json.load(open(resfile)) if os.path.exists(resfile) else {}
    jobs = 1
    if args and args[0] == "-j":
        jobs = int(args[1])
        args = args[2:]
    redo = "--redo" in args
    only = set(a for a in args if not a.startswith("--"))
    todo = [m for m in MUTANTS if (not only or m[0] in only or m[1] in only) and (redo or only or results.get(m[0], {}).get("status") not in ("caught",))]
    from concurrent.futures import ThreadPoolExecutor
    with ThreadPoolExecutor(max_workers=jobs) as ex:
        for name, res in ex.map(one, todo):
            results[name] = res
            print("%-26s %s: %s (%ss) %s" % (name, res["property"], res["status"], res.get("wall_s"), (res.get("first_violation") or res.get("tail") or "")[:150].replace("\n", " | ")))
            sys.stdout.flush()
            json.dump(results, open(resfile, "w"), indent=1)


if __name__ == "__main__":
    main()
