"""Recording observables of a model under a variant (partition, labelling, ordering mode) as ObsTrace events."""
import json, math


def cplx(p):
    return complex(float(p[0]), float(p[1]))


def queries(M, beta, quads, sus_quads, triples, container=False):
    pairs = [[i, j] for i in range(M) for j in range(M)]
    return [{"q": "spectrum"}, {"q": "dm", "beta": beta},
            {"q": "gf", "beta": beta, "pairs": pairs, "ns": [-2, 0, 1, 7], "zs": [["0.4", "1.3"]], "taus": [repr(float(beta) / 3)]},
            dict({"q": "chi", "beta": beta, "quads": quads, "triples": triples, "tables": False}, **({"container": True} if container else {})),
            {"q": "sus", "beta": beta, "quads": sus_quads, "ns": [-1, 0, 1]}]


def collect(recs, perm=None):
    """recs: the Q records of one scenario. perm: library index -> canonical index (to undo a relabelling). Returns dict name -> list of floats, or raises KeyError"""
    P = (lambda i: i) if perm is None else (lambda i: perm[i])
    out = {}
    for r in recs:
        q = r["q"]
        if "fail" in r or "ex" in r:
            raise RuntimeError("%s failed: %s" % (q, r.get("fail") or r.get("ex")))
        if q == "spectrum":
            out["spectrum"] = sorted(float(x) for x in r["all"])
            out["ground"] = [float(r["ground"])]
        elif q == "dm":
            out["weights"] = sorted(float(x) for x in r["w"])
            out["avgE"] = [float(r["avgE"])]
            out["occ"] = [float(r["occ"])]
            occ = [0.0] * len(r["occ_i"])
            for i, x in enumerate(r["occ_i"]):
                occ[P(i)] = float(x)
            out["occ_i"] = occ
            for (i, j, v) in r["avg"]:
                z = cplx(v)
                out["avg|%d,%d" % (P(i), P(j))] = [z.real, z.imag]
            for (i, j, v) in r["docc"]:
                out["docc|%d,%d" % (P(i), P(j))] = [float(v)]
        elif q == "gf":
            for o in r["gf"]:
                vals = []
                for grp in ("n", "z", "tau"):
                    for (_, v) in o[grp]:
                        z = cplx(v)
                        vals += [z.real, z.imag]
                out["gf|%d,%d" % (P(o["i"]), P(o["j"]))] = vals
        elif q == "chi":
            for o in r["chi"]:
                vals = []
                for v in o["ondemand"]:
                    z = cplx(v)
                    vals += [z.real, z.imag]
                out["chi|%s" % ",".join(str(P(x)) for x in o["q"])] = vals
                if "container" in o:      # the same component read through a TwoParticleGFContainer (stored element or alias)
                    vals = []
                    for v in o["container"]:
                        z = cplx(v)
                        vals += [z.real, z.imag]
                    out["chi|%s@container" % ",".join(str(P(x)) for x in o["q"])] = vals
        elif q == "sus":
            for o in r["sus"]:
                vals = []
                for (_, v) in o["plain"]["n"]:
                    z = cplx(v)
                    vals += [z.real, z.imag]
                out["sus|%s" % ",".join(str(P(x)) for x in o["q"])] = vals
    for name, vals in out.items():
        if any(not math.isfinite(v) for v in vals):
            raise RuntimeError("observable %s is not finite: %s" % (name, vals[:6]))
    return out


# quantum per observable family, fixed in advance (it must not depend on the observed data, or two observations of the same quantity
# could be quantised differently): 1e-8 x scale for spectrum, weights and static averages; 1e-6 x scale for G, chi and the
# susceptibility, whose Lehmann terms with residues below 1e-8 the library is documented to drop -- which terms fall below that
# threshold depends on the eigenvector basis inside degenerate levels and hence on the partition.
QUANTA = {"spectrum": 1e-6, "ground": 1e-6, "avgE": 1e-6, "weights": 1e-8, "occ": 1e-7, "occ_i": 1e-8, "avg": 1e-8, "docc": 1e-8,
          "gf": 1e-6, "sus": 1e-6, "chi": 1e-5}


def events(model_id, variant, obs):
    ev = []
    for name in sorted(obs):
        vals = obs[name]
        q = QUANTA[name.split("|")[0]]
        if name.endswith("@container"):      # the same observable (same key) seen through another access path
            name, variant_ = name[:-len("@container")], variant + "/container"
        else:
            variant_ = variant
        if any(abs(v) >= 2.0e9 * q for v in vals):      # would not fit TLC's 32-bit integers: skipped, visibly
            ev.append({"e": "Obs", "key": "%s|%s|UNQUANTISABLE" % (model_id, name), "var": variant, "vals": [0]})
            continue
        ev.append({"e": "Obs", "key": "%s|%s" % (model_id, name), "var": variant_, "vals": [max(-2000000000, min(2000000000, int(math.floor(v / q)))) for v in vals]})      # TLC integers are 32-bit: saturate, never wrap
    return ev
