"""Recording observables of a model under a variant (partition, labelling, ordering mode) as ObsTrace events."""
import json, math


def cplx(p):
    return complex(float(p[0]), float(p[1]))


def queries(M, beta, quads, sus_quads, triples):
    pairs = [[i, j] for i in range(M) for j in range(M)]
    return [{"q": "spectrum"}, {"q": "dm", "beta": beta},
            {"q": "gf", "beta": beta, "pairs": pairs, "ns": [-2, 0, 1, 7], "zs": [["0.4", "1.3"]], "taus": [repr(float(beta) / 3)]},
            {"q": "chi", "beta": beta, "quads": quads, "triples": triples, "tables": False},
            {"q": "sus", "beta": beta, "quads": sus_quads, "ns": [-1, 0, 1]}]


def collect(recs, perm=None):
    """recs: the Q records of one scenario. perm: library index -> canonical index (to undo a relabelling). Returns dict name -> list of floats, or raises KeyError"""
    P = (lambda i: i) if perm is None else (lambda i: perm[i])
    out = {}
    for r in recs:
        q = r["q"]
        if "fail" in r or "ex" in r:
            raise RuntimeError("%s failed: %s" % (q, r.get("fail") or r.get("ex")))
        if q == "spectrum":
            out["spectrum"] = sorted(float(x) for x in r["all"])
            out["ground"] = [float(r["ground"])]
        elif q == "dm":
            out["weights"] = sorted(float(x) for x in r["w"])
            out["avgE"] = [float(r["avgE"])]
            out["occ"] = [float(r["occ"])]
            occ = [0.0] * len(r["occ_i"])
            for i, x in enumerate(r["occ_i"]):
                occ[P(i)] = float(x)
            out["occ_i"] = occ
            for (i, j, v) in r["avg"]:
                z = cplx(v)
                out["avg|%d,%d" % (P(i), P(j))] = [z.real, z.imag]
            for (i, j, v) in r["docc"]:
                out["docc|%d,%d" % (P(i), P(j))] = [float(v)]
        elif q == "gf":
            for o in r["gf"]:
                vals = []
                for grp in ("n", "z", "tau"):
                    for (_, v) in o[grp]:
                        z = cplx(v)
                        vals += [z.real, z.imag]
                out["gf|%d,%d" % (P(o["i"]), P(o["j"]))] = vals
        elif q == "chi":
            for o in r["chi"]:
                vals = []
                for v in o["ondemand"]:
                    z = cplx(v)
                    vals += [z.real, z.imag]
                out["chi|%s" % ",".join(str(P(x)) for x in o["q"])] = vals
        elif q == "sus":
            for o in r["sus"]:
                vals = []
                for (_, v) in o["plain"]["n"]:
                    z = cplx(v)
                    vals += [z.real, z.imag]
                out["sus|%s" % ",".join(str(P(x)) for x in o["q"])] = vals
    return out


def events(model_id, variant, obs, delta=1e-8):
    """Quantum: 1e-8 (relative to the observable's scale) for spectrum, weights and static averages; 1e-6 for G, chi and the
    susceptibility, whose Lehmann terms with residues below 1e-8 the library is documented to drop -- which terms fall below that
    threshold depends on the eigenvector basis inside degenerate levels and hence on the partition."""
    ev = []
    for name in sorted(obs):
        vals = obs[name]
        delta = 1e-6 if name.split("|")[0] in ("gf", "chi", "sus") else 1e-8
        scale = 10.0 ** max(0, math.ceil(math.log10(max([abs(v) for v in vals] + [1.0]))))
        ev.append({"e": "Obs", "key": "%s|%s" % (model_id, name), "var": variant, "vals": [int(math.floor(v / (delta * scale))) for v in vals]})
    return ev
