#!/usr/bin/env python3
"""Rewrites section 12 of DESIGN.md (between the two marker lines) from selftest/results.json and seeded/*/meta.json."""
import json, os, glob, re, sys

VERIF = os.path.dirname(os.path.dirname(os.path.abspath(__file__)))
sys.path.insert(0, os.path.join(VERIF, "tools"))
import selftest

BEGIN = "<!-- tables:begin (tools/mktables.py) -->"
END = "<!-- tables:end -->"

NON_VIOLATIONS = [
    ("gf-merge-walk", "C01", "`<=` → `<` in the merge walk of `GreensFunction::prepare`", "equivalent: on equal keys either iterator may advance first"),
    ("mapsto-last", "C07", "`result.begin()` → `result.rbegin()` in `FieldOperator::mapsTo`", "equivalent: c, c⁺, c⁺c map a Fock state to at most one Fock state"),
    ("quadratic-bimap", "C08", "`<=` → `<` in the merge walk of `Susceptibility::prepare`", "equivalent: both block maps are bijections walked in ascending order"),
    ("store-offset", "C15", "`FermionicIndexOffset` shifted by one for Ω ≥ 0", "property holds: fill and lookup share the offset and the lookup is bounds-checked with fall-back, only the cached window moves; C15 stays quiet, as it must"),
]


def esc(s):
    return (s or "").replace("|", "\\|").replace("\n", " ")


def main():
    res = json.load(open(os.path.join(VERIF, "selftest", "results.json")))
    out = [BEGIN, "", "### 12.1 Mutation catalogue (`tools/selftest.py`, quick tier)", "",
           "Each mutation is applied to a scratch worktree of `/repo`'s HEAD (never to `/repo`), the quick check of the property is run with",
           "`VERIF_REPO=<worktree>` (so it rebuilds from that tree), exit 1 is expected; worktree and build are removed afterwards.", "",
           "| mutant | property | file | result | wall | first violation reported |", "|---|---|---|---|---|---|"]
    n_c = 0
    names = [m[0] for m in selftest.MUTANTS]
    for name in names:
        r = res.get(name)
        if not r:
            out.append("| %s | %s | | not run yet | | |" % (name, [m[1] for m in selftest.MUTANTS if m[0] == name][0]))
            continue
        if r["status"] == "caught":
            n_c += 1
        fv = re.sub(r"^violation: ", "", r.get("first_violation") or r.get("tail") or "")
        out.append("| %s | %s | `%s` | %s | %s s | %s |" % (name, r["property"], os.path.basename(r.get("file", "")), r["status"], r.get("wall_s"), esc(fv[:160])))
    out += ["", "%d of %d catalogue mutants are caught by the quick check of their property." % (n_c, len(names)), "",
            "Mutants that turned out **not** to violate a property (kept out of the catalogue, listed for the record):", "",
            "| mutant | property | change | why no alarm is correct |", "|---|---|---|---|"]
    for (n, p, ch, why) in NON_VIOLATIONS:
        out.append("| %s | %s | %s | %s |" % (n, p, ch, why))
    out += ["", "### 12.2 Independently written breaking changes (`seeded/`)", "",
            "Written by sub-agents that saw only the property text and a scratch worktree; each compiles, passes the 20 tests, and comes with a",
            "demonstration that fails with it and passes without it (re-confirmed by `tools/confirm_seeded.sh`).", "",
            "| id | breaks | change (summary) | needs | checks run → exit |", "|---|---|---|---|---|"]
    for d in sorted(glob.glob(os.path.join(VERIF, "seeded", "*"))):
        mp = os.path.join(d, "meta.json")
        if not os.path.exists(mp):
            continue
        m = json.load(open(mp))
        cr = "; ".join("%s → %s" % (k, v) for k, v in m.get("checks_run", {}).items())
        out.append("| %s | %s | %s | %s | %s |" % (os.path.basename(d), m.get("breaks") or m.get("property"), esc(m.get("summary", ""))[:330], esc(m.get("needs", ""))[:200], esc(cr)))
    out += ["", END]
    p = os.path.join(VERIF, "DESIGN.md")
    s = open(p).read()
    if BEGIN in s:
        s = s[:s.index(BEGIN)] + "\n".join(out) + s[s.index(END) + len(END):]
    else:
        i = s.index("### 12.1 Mutation catalogue")
        s = s[:i] + "\n".join(out) + "\n"
    open(p, "w").write(s)
    print("section 12: %d/%d mutants caught, %d seeded" % (n_c, len(names), len(glob.glob(os.path.join(VERIF, "seeded", "*")))))


if __name__ == "__main__":
    main()
