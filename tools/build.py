#!/usr/bin/env python3
"""Build cache: /repo working tree -> /verif/build/<hash>/<variant>/{lib,include,bin}.

Variants (DESIGN.md 4.3):
  plain  RelWithDebInfo, -DPOMEROL_VERIF, real matrix elements
  asan   -O1 -fsanitize=address,undefined, -DPOMEROL_VERIF
  cplx   plain + POMEROL_COMPLEX_MATRIX_ELEMENTS=ON
  off    guard off, with the repository's own tests (baseline_off_cmd only)

The hash covers every file that can influence the library (src, include, cmake,
CMakeLists.txt, *.in) plus the harness sources, so a check always rebuilds from the
current working tree of the repository and never reuses a stale binary.
Exit status 2 = the tree does not build (infrastructure failure, never a violation).
"""
import hashlib, os, shutil, subprocess, sys, time, fcntl

VERIF = os.path.dirname(os.path.dirname(os.path.abspath(__file__)))
REPO = os.environ.get("VERIF_REPO", "/repo")
BUILD_ROOT = os.path.join(VERIF, "build")
HARNESS = os.path.join(VERIF, "harness")

MPI_INC = ["/usr/lib/x86_64-linux-gnu/openmpi/include", "/usr/lib/x86_64-linux-gnu/openmpi/include/openmpi"]

VARIANTS = {
    "plain": dict(cmake=["-DCMAKE_BUILD_TYPE=RelWithDebInfo", "-DTesting=OFF",
                         "-DCMAKE_CXX_FLAGS=-Wno-error -w -DPOMEROL_VERIF"],
                  cxx=["-O1", "-g", "-DNDEBUG", "-DPOMEROL_VERIF"]),
    "asan": dict(cmake=["-DCMAKE_BUILD_TYPE=None", "-DTesting=OFF",
                        "-DCMAKE_CXX_FLAGS=-Wno-error -w -O1 -g -DNDEBUG -DPOMEROL_VERIF -fsanitize=address,undefined -fno-sanitize-recover=undefined -fno-omit-frame-pointer",
                        "-DCMAKE_SHARED_LINKER_FLAGS=-fsanitize=address,undefined"],
                 cxx=["-O1", "-g", "-DNDEBUG", "-DPOMEROL_VERIF", "-fsanitize=address,undefined",
                      "-fno-sanitize-recover=undefined", "-fno-omit-frame-pointer"]),
    "cplx": dict(cmake=["-DCMAKE_BUILD_TYPE=RelWithDebInfo", "-DTesting=OFF", "-DPOMEROL_COMPLEX_MATRIX_ELEMENTS=ON",
                        "-DCMAKE_CXX_FLAGS=-Wno-error -w -DPOMEROL_VERIF"],
                 cxx=["-O1", "-g", "-DNDEBUG", "-DPOMEROL_VERIF"]),
    "off": dict(cmake=["-DCMAKE_BUILD_TYPE=RelWithDebInfo", "-DTesting=ON", "-DCMAKE_CXX_FLAGS=-Wno-error -w"],
                cxx=["-O1", "-g", "-DNDEBUG"]),
}


def _files(root, subdirs, top):
    out = []
    for sd in subdirs:
        for dp, dn, fn in os.walk(os.path.join(root, sd)):
            dn.sort()
            for f in sorted(fn):
                out.append(os.path.join(dp, f))
    for f in top:
        p = os.path.join(root, f)
        if os.path.exists(p):
            out.append(p)
    return out


def tree_hash(with_tests=False):
    h = hashlib.sha256()
    subdirs = ["src", "include", "cmake"] + (["test"] if with_tests else [])
    tops = ["CMakeLists.txt", "pomerol.pc.in", "pomerolConfig.cmake.in", "pomerol.lmod.in", "Doxyfile.in"]
    for p in _files(REPO, subdirs, tops):
        h.update(os.path.relpath(p, REPO).encode())
        with open(p, "rb") as f:
            h.update(hashlib.sha256(f.read()).digest())
    return h.hexdigest()[:16]


def harness_hash():
    h = hashlib.sha256()
    for p in _files(HARNESS, ["."], []):
        h.update(os.path.relpath(p, HARNESS).encode())
        with open(p, "rb") as f:
            h.update(hashlib.sha256(f.read()).digest())
    return h.hexdigest()[:16]


def log(msg):
    sys.stderr.write("[build] %s\n" % msg)
    sys.stderr.flush()


def run(cmd, cwd=None, logfile=None):
    with open(logfile, "ab") as lf:
        lf.write(("\n$ " + " ".join(cmd) + "\n").encode())
        lf.flush()
        r = subprocess.run(cmd, cwd=cwd, stdout=lf, stderr=subprocess.STDOUT)
    return r.returncode


def prune(keep):
    """Keep the tree hash in use, the six most recent others, and anything touched within the last two hours
    (several checks may be building different trees at the same time)."""
    if not os.path.isdir(BUILD_ROOT):
        return
    now = time.time()
    ds = [d for d in os.listdir(BUILD_ROOT) if os.path.isdir(os.path.join(BUILD_ROOT, d)) and d != keep and not d.startswith("tlc-")]
    def mtime(d):
        try:
            return os.path.getmtime(os.path.join(BUILD_ROOT, d))
        except OSError:          # removed meanwhile by a concurrent check
            return now
    ds.sort(key=mtime, reverse=True)
    for d in ds[6:]:
        if now - mtime(d) > 7200:
            shutil.rmtree(os.path.join(BUILD_ROOT, d), ignore_errors=True)


def ensure_lib(variant):
    """Returns directory containing lib/libpomerol.so and include/ for the variant."""
    th = tree_hash(with_tests=(variant == "off"))
    vdir = os.path.join(BUILD_ROOT, th, variant)
    os.makedirs(vdir, exist_ok=True)
    lock = open(os.path.join(vdir, ".lock"), "w")
    fcntl.flock(lock, fcntl.LOCK_EX)
    try:
        stamp = os.path.join(vdir, ".ok")
        if os.path.exists(stamp):
            os.utime(os.path.join(BUILD_ROOT, th))
            return vdir
        t0 = time.time()
        logfile = os.path.join(vdir, "build.log")
        open(logfile, "w").close()
        bdir = os.path.join(vdir, "cmake")
        shutil.rmtree(bdir, ignore_errors=True)
        os.makedirs(bdir)
        cfg = ["cmake", "-G", "Ninja", "-S", REPO, "-B", bdir, "-DDocumentation=OFF"] + VARIANTS[variant]["cmake"]
        if run(cfg, logfile=logfile) != 0:
            log("cmake configure failed, see %s" % logfile)
            sys.exit(2)
        if run(["cmake", "--build", bdir, "-j", "16"], logfile=logfile) != 0:
            log("library build failed, see %s" % logfile)
            sys.stderr.write(open(logfile, errors="replace").read()[-3000:])
            sys.exit(2)
        open(stamp, "w").write("%f\n" % (time.time() - t0))
        log("built %s/%s in %.0fs" % (th, variant, time.time() - t0))
        prune(th)
        return vdir
    finally:
        fcntl.flock(lock, fcntl.LOCK_UN)
        lock.close()


def ensure_harness(variant, name, extra_libs=(), no_access=True):
    """Compile harness/<name>.cpp against the variant's library. Returns path of the binary."""
    vdir = ensure_lib(variant)
    hh = harness_hash()
    bindir = os.path.join(vdir, "bin-" + hh)
    os.makedirs(bindir, exist_ok=True)
    exe = os.path.join(bindir, name)
    lock = open(exe + ".lock", "w")
    fcntl.flock(lock, fcntl.LOCK_EX)
    try:
        if os.path.exists(exe):
            return exe
        # drop binaries of older harness versions -- but never ones a concurrently running check may still be using
        for d in os.listdir(vdir):
            if d.startswith("bin-") and d != "bin-" + hh and time.time() - os.path.getmtime(os.path.join(vdir, d)) > 7200:
                shutil.rmtree(os.path.join(vdir, d), ignore_errors=True)
        bdir = os.path.join(vdir, "cmake")
        logfile = os.path.join(vdir, "harness-%s.log" % name)
        open(logfile, "w").close()
        inc = ["-I" + os.path.join(REPO, "include"), "-I" + os.path.join(REPO, "src"), "-I" + os.path.join(bdir, "include"),
               "-I/usr/include/eigen3", "-I" + HARNESS] + ["-I" + p for p in MPI_INC]
        cmd = (["g++", "-std=c++11", "-w", "-fopenmp"] + VARIANTS[variant]["cxx"] + (["-fno-access-control"] if no_access else [])
               + inc + [os.path.join(HARNESS, name + ".cpp"), "-o", exe + ".tmp",
                        "-L" + bdir, "-Wl,-rpath," + bdir, "-lpomerol",
                        "-lboost_mpi", "-lboost_serialization", "-lmpi_cxx", "-lmpi"] + list(extra_libs))
        if run(cmd, logfile=logfile) != 0:
            log("harness %s failed to compile, see %s" % (name, logfile))
            sys.stderr.write(open(logfile, errors="replace").read()[-4000:])
            sys.exit(2)
        os.rename(exe + ".tmp", exe)
        return exe
    finally:
        fcntl.flock(lock, fcntl.LOCK_UN)
        lock.close()


if __name__ == "__main__":
    v = sys.argv[1] if len(sys.argv) > 1 else "plain"
    if len(sys.argv) > 2:
        print(ensure_harness(v, sys.argv[2]))
    else:
        print(ensure_lib(v))
