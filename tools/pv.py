"""Shared glue for the checks: TLC runner, harness runner, verdicts, known findings, evidence."""
import json, os, re, shutil, subprocess, sys, tempfile, time, hashlib

VERIF = os.path.dirname(os.path.dirname(os.path.abspath(__file__)))
SPEC = os.path.join(VERIF, "spec")
OUT = os.path.join(VERIF, "out")
# evidence describes /repo; a run against another tree (VERIF_REPO: seeded changes, self-test mutants) must not overwrite it
EVID = os.path.join(VERIF, "evidence") if os.environ.get("VERIF_REPO", "/repo") == "/repo" or VERIF.startswith("/root/.vp/") else os.path.join(VERIF, "out", "evidence-other-tree")
os.makedirs(EVID, exist_ok=True)
sys.path.insert(0, os.path.join(VERIF, "tools"))
import build  # noqa: E402

REPO = build.REPO
SEED = int(os.environ.get("VERIF_SEED", "1") or 1)


def log(msg):
    sys.stderr.write(msg.rstrip("\n") + "\n")
    sys.stderr.flush()


# ---------------------------------------------------------------------------------------
# TLC
# ---------------------------------------------------------------------------------------
class TlcResult:
    def __init__(self):
        self.ok = False          # finished without violation or error
        self.violated = None     # name of violated invariant/property, or "deadlock", or None
        self.error = None        # infrastructure / evaluation error text
        self.generated = 0
        self.distinct = 0
        self.pv = []             # parsed @@PV json lines
        self.stdout = ""
        self.wall = 0.0
        self.coverage = {}       # action -> (taken, generated)   (-coverage runs)
        self.cmd = ""

    def __repr__(self):
        return "TlcResult(ok=%s violated=%s gen=%d distinct=%d pv=%d err=%s)" % (
            self.ok, self.violated, self.generated, self.distinct, len(self.pv), (self.error or "")[:200])


_RE_STATES = re.compile(r"(\d+) states generated, (\d+) distinct states found")
_RE_COV = re.compile(r"^<(\w+) line .*>: (\d+):(\d+)", re.M)


def run_tlc(module, cfg=None, workers=4, env=None, timeout=900, simulate=None, depth=None, seed=None,
            coverage=False, deadlock=None, depth_first=False, heap="4g", extra=()):
    """Run TLC on spec/<module>.tla with spec/<cfg>.cfg. Returns TlcResult.
    simulate = N (num traces per worker) switches to -simulate."""
    cfg = cfg or module
    meta = tempfile.mkdtemp(prefix="tlc-", dir=os.path.join(VERIF, "build")) if os.path.isdir(os.path.join(VERIF, "build")) \
        else tempfile.mkdtemp(prefix="tlc-")
    cmd = ["tlc", "-workers", str(workers), "-metadir", meta, "-noGenerateSpecTE", "-config", cfg + ".cfg"]
    if simulate:
        cmd += ["-simulate", "num=%d" % simulate]
        if depth:
            cmd += ["-depth", str(depth)]
    if seed is not None:
        cmd += ["-seed", str(seed)]
    if coverage:
        cmd += ["-coverage", "1"]
    if deadlock is False:
        cmd += ["-deadlock"]
    cmd += list(extra) + [module + ".tla"]
    e = dict(os.environ)
    jopts = "-Xmx%s -Xss512m -XX:+UseParallelGC" % heap
    if depth_first:
        jopts += " -Dtlc2.tool.queue.IStateQueue=StateDeque"
    e["JAVA_TOOL_OPTIONS"] = jopts
    if env:
        e.update({k: str(v) for k, v in env.items()})
    r = TlcResult()
    r.cmd = " ".join(cmd)
    t0 = time.time()
    try:
        p = subprocess.run(["timeout", str(timeout)] + cmd, cwd=SPEC, env=e, stdout=subprocess.PIPE,
                           stderr=subprocess.STDOUT, text=True, errors="replace")
        out = p.stdout
        rc = p.returncode
    finally:
        shutil.rmtree(meta, ignore_errors=True)
    r.wall = time.time() - t0
    r.stdout = out
    for line in out.splitlines():
        if line.startswith("@@PV "):
            try:
                r.pv.append(json.loads(line[5:]))
            except Exception as ex:  # malformed line = infrastructure error
                r.error = "bad @@PV line: %s (%s)" % (line[:200], ex)
        elif line.startswith("\"@@PV "):
            # PrintT of a string prints it with quotes and escapes
            try:
                s = json.loads(line)
                r.pv.append(json.loads(s[5:]))
            except Exception as ex:
                r.error = "bad @@PV line: %s (%s)" % (line[:200], ex)
    m = None
    for m in _RE_STATES.finditer(out):
        pass
    if m:
        r.generated, r.distinct = int(m.group(1)), int(m.group(2))
    for m2 in _RE_COV.finditer(out):
        r.coverage[m2.group(1)] = (int(m2.group(2)), int(m2.group(3)))
    mv = re.search(r"Error: Invariant (\S+) is violated", out)
    if mv:
        r.violated = mv.group(1)
    elif re.search(r"Error: Action property (\S+) is violated|Error: Temporal properties were violated", out):
        mm = re.search(r"Error: Action property (\S+) is violated", out)
        r.violated = mm.group(1) if mm else "temporal"
    elif "Error: Deadlock reached" in out:
        r.violated = "deadlock"
    elif "is violated" in out and "Error:" in out:
        mm = re.search(r"Error: (.*) is violated", out)
        r.violated = mm.group(1) if mm else "unknown"
    if rc == 124:
        r.error = "TLC timeout after %ss" % timeout
    elif r.violated is None and r.error is None:
        if "Model checking completed. No error has been found." in out or (simulate and rc == 0) \
                or "Finished computing initial states" in out and rc == 0:
            r.ok = True
        elif simulate and "The number of states generated" in out:
            r.ok = True
        else:
            mm = re.search(r"Error: (.*(?:\n.*){0,12})", out)
            r.error = "TLC failed (rc=%s): %s" % (rc, mm.group(1) if mm else out[-1500:])
    return r


def tlc_or_die(res, what):
    """Infrastructure failure of a TLC run -> exit 2 (never a violation)."""
    if res.error:
        log("INFRA: %s: %s" % (what, res.error))
        log(res.stdout[-3000:])
        sys.exit(2)


# ---------------------------------------------------------------------------------------
# harness
# ---------------------------------------------------------------------------------------
def harness(variant, name):
    return build.ensure_harness(variant, name)


def run_driver(exe, scenarios, timeout=600, env=None, threads=1, mpi=0, scen_timeout=None):
    """Feed ndjson scenarios to a driver on stdin; returns list of parsed ndjson output records."""
    e = dict(os.environ)
    e["OMP_NUM_THREADS"] = str(threads)
    e["ASAN_OPTIONS"] = "detect_leaks=0:abort_on_error=0:halt_on_error=1"
    e["UBSAN_OPTIONS"] = "print_stacktrace=1:halt_on_error=1"
    e["PV_SCEN_TIMEOUT"] = str(int(scen_timeout) if scen_timeout else min(600, int(timeout)))
    if env:
        e.update({k: str(v) for k, v in env.items()})
    inp = "".join(json.dumps(s, separators=(",", ":")) + "\n" for s in scenarios)
    cmd = ["timeout", str(timeout), exe]
    p = subprocess.run(cmd, input=inp, stdout=subprocess.PIPE, stderr=subprocess.PIPE, text=True, env=e, errors="replace")
    recs = []
    for line in p.stdout.splitlines():
        if line.startswith("{"):
            try:
                recs.append(json.loads(line))
            except Exception:
                pass
    return recs, p.returncode, p.stderr


def run_driver_ranks(exe, scenarios, nranks, timeout=600, env=None, threads=1, tag="ranks"):
    """The same scenarios on every rank of an mpiexec run (the library's collective steps run in lockstep).
    Returns (per-rank record lists without Done lines, per-rank number of completed scenarios, rc, stderr tail)."""
    import tempfile, shutil
    d = tempfile.mkdtemp(prefix="ranks-", dir=os.path.join(VERIF, "build"))
    try:
        sf = os.path.join(d, "scen.ndjson")
        with open(sf, "w") as f:
            for s in scenarios:
                f.write(json.dumps(s, separators=(",", ":")) + "\n")
        e = dict(os.environ)
        e.update({"OMP_NUM_THREADS": str(threads), "PV_SCEN": sf, "PV_OUT": os.path.join(d, "out"),
                  "OMPI_ALLOW_RUN_AS_ROOT": "1", "OMPI_ALLOW_RUN_AS_ROOT_CONFIRM": "1", "OMPI_MCA_rmaps_base_oversubscribe": "1",
                  "OMPI_MCA_btl_vader_single_copy_mechanism": "none"})
        if env:
            e.update({k: str(v) for k, v in env.items()})
        p = subprocess.run(["timeout", "-k", "5", str(timeout), "mpiexec", "--oversubscribe", "-np", str(nranks), exe],
                           stdin=subprocess.DEVNULL, stdout=subprocess.PIPE, stderr=subprocess.PIPE, text=True, env=e, errors="replace")
        per, done = [], []
        for r in range(nranks):
            recs = []
            fn = os.path.join(d, "out.%d" % r)
            if os.path.exists(fn):
                for line in open(fn, errors="replace"):
                    if line.startswith("{"):
                        try:
                            recs.append(json.loads(line))
                        except Exception:
                            pass
            done.append(len([x for x in recs if x.get("e") == "Done"]))
            per.append([x for x in recs if x.get("e") != "Done"])
        return per, done, p.returncode, p.stderr[-1500:]
    finally:
        shutil.rmtree(d, ignore_errors=True)


def sanitizer_summary(err):
    """one line: kind of sanitizer report and the first frames inside pomerol"""
    m = re.search(r"ERROR: AddressSanitizer: (\S+)", err) or re.search(r"(runtime error: [^\n]*)", err)
    if not m:
        return None
    frames = re.findall(r"#\d+ 0x[0-9a-f]+ in ((?:Pomerol|pMPI)::[^\n(]*)", err)
    return "SANITIZER %s in %s" % (m.group(1), " <- ".join(frames[:3]) if frames else "?")


def run_driver_resilient(exe, scenarios, timeout=600, env=None, threads=1, max_restarts=3000, max_crashes=40, scen_timeout=None):
    """Runs all scenarios; when the driver dies (crash, sanitizer abort, hang) the scenario it died in is recorded
    and the run continues with the scenarios after it. Returns (records without Done lines, {id: stderr tail})."""
    recs, crashed = [], {}
    todo = list(scenarios)
    restarts, hangs = 0, 0
    while todo and restarts <= max_restarts:
        out, rc, err = run_driver(exe, todo, timeout=timeout, env=env, threads=threads, scen_timeout=scen_timeout)
        done = [r["id"] for r in out if r.get("e") == "Done"]
        recs.extend(r for r in out if r.get("e") != "Done")
        if len(done) >= len(todo):
            break
        bad = todo[len(done)]
        crashed[bad.get("id")] = "rc=%s %s%s" % (rc, "(killed by the watchdog: no progress) " if rc in (-14, 142) else "", sanitizer_summary(err) or err[-1500:])
        todo = todo[len(done) + 1:]
        restarts += 1
        hangs = sum(1 for v in crashed.values() if "killed by the watchdog" in v)
        if hangs >= 3:
            log("driver hung %d times (each costs the scenario time-out); the remaining %d scenarios are not executed" % (hangs, len(todo)))
            break
        if len(crashed) >= max_crashes:
            # the tree is broken badly enough: every crash is already a violation; do not spend hours restarting the driver
            log("driver died %d times; the remaining %d scenarios are not executed" % (len(crashed), len(todo)))
            break
    if todo and restarts > max_restarts and len(crashed) < max_crashes and hangs < 3:
        log("INFRA: driver restarted %d times, %d scenarios not executed" % (restarts, len(todo)))
        sys.exit(2)
    return recs, crashed


# ---------------------------------------------------------------------------------------
# verdicts / known findings / evidence
# ---------------------------------------------------------------------------------------
def load_known():
    p = os.path.join(VERIF, "known_findings.json")
    if not os.path.exists(p):
        return []
    return json.load(open(p)).get("findings", [])


class Check:
    """Collects what a check run did, prints verdict lines, writes the evidence file."""

    def __init__(self, pid, level="model_checking"):
        self.pid = pid
        self.level = level
        self.tier = os.environ.get("VERIF_TIER", "quick")
        if self.tier not in ("quick", "thorough"):
            self.tier = "quick"
        self.seed = SEED
        self.t0 = time.time()
        self.states = 0
        self.transitions = 0
        self.traces = 0
        self.evaluations = 0
        self.nontrivial = set()
        self.samples = []
        self.violations = []     # (what, replay_path)
        self.known_hits = {}     # finding id -> text
        self.tlc_cmds = []
        self.notes = []
        self.assumptions = []
        self.trusted = []
        self.rule = ""
        self.exhaustive = False
        self.extra = {}
        self.known = [k for k in load_known() if k.get("property") == pid and k.get("status") == "open"]
        os.makedirs(os.path.join(OUT, pid), exist_ok=True)

    # -- accounting
    def add_tlc(self, res, what=""):
        tlc_or_die(res, what)
        self.states += res.distinct
        self.transitions += res.generated
        self.tlc_cmds.append(res.cmd)

    def sample(self, obj, limit=4):
        if len(self.samples) < limit:
            self.samples.append(obj)

    def nontriv(self, key):
        self.nontrivial.add(key if isinstance(key, (str, int, tuple)) else json.dumps(key, sort_keys=True))

    # -- verdicts
    def violation(self, what, replay_obj, cls=None):
        """cls = a short classification string matched against known findings' `match`."""
        for k in self.known:
            if cls is not None and re.search(k["match"], cls):
                self.known_hits.setdefault(k["id"], k.get("what", cls))
                return False
        h = hashlib.sha1(json.dumps(replay_obj, sort_keys=True, default=str).encode()).hexdigest()[:10]
        path = os.path.join(OUT, self.pid, "replay-%s.json" % h)
        with open(path, "w") as f:
            json.dump({"property": self.pid, "what": what, "class": cls, "replay": replay_obj}, f, indent=1, default=str)
        self.violations.append((what, path))
        if len(self.violations) <= 10:
            log("violation: %s" % what)
        return True

    def finish(self):
        wall = time.time() - self.t0
        cov = {
            "states": max(self.states, 0),
            "transitions": max(self.transitions, 0),
            "traces_validated_against_impl": self.traces,
            "evaluations": self.evaluations,
            "distinct_nontrivial": len(self.nontrivial),
            "rule": self.rule,
            "samples": self.samples if self.samples else ["(none)"],
            "checker_cmd": "; ".join(self.tlc_cmds[:6]),
            "trusted_base": self.trusted,
            "exhaustive": self.exhaustive,
            "known_findings_hit": sorted(self.known_hits.keys()),
            "notes": self.notes,
        }
        cov.update(self.extra)
        ev = {"property_id": self.pid, "tier": self.tier, "seed": self.seed, "level": self.level,
              "coverage": cov, "assumptions": self.assumptions, "wall_s": round(wall, 2),
              "violations": len(self.violations)}
        os.makedirs(EVID, exist_ok=True)
        with open(os.path.join(EVID, self.pid + ".json"), "w") as f:
            json.dump(ev, f, indent=1, default=str)
        for kid, txt in sorted(self.known_hits.items()):
            print("KNOWN-FINDING: property=%s %s: %s" % (self.pid, kid, txt))
        if self.violations:
            seen = set()
            for what, path in self.violations[:20]:
                if path in seen:
                    continue
                seen.add(path)
                print("VIOLATION property=%s replay=%s" % (self.pid, path))
            print("%s: %d violation(s); first: %s" % (self.pid, len(self.violations), self.violations[0][0]))
            sys.stdout.flush()
            sys.exit(1)
        print("%s: OK tier=%s states=%d transitions=%d traces=%d evaluations=%d nontrivial=%d wall=%.1fs" % (
            self.pid, self.tier, self.states, self.transitions, self.traces, self.evaluations, len(self.nontrivial), wall))
        sys.stdout.flush()
        sys.exit(0)


# ---------------------------------------------------------------------------------------
# trace validation
# ---------------------------------------------------------------------------------------
class TraceVerdict:
    def __init__(self):
        self.accepted = False
        self.matched = 0       # number of trace lines matched (longest prefix)
        self.total = 0
        self.res = None
        self.path = None


def validate_trace(module, cfg, lines, tag, depth_first=False, timeout=900, heap="4g", env=None):
    """lines: list of dicts (one trace event each). Returns TraceVerdict.
    The trace spec must define POSTCONDITION TraceAccepted printing <<"@@REJECT", matched, total>> on failure."""
    os.makedirs(OUT, exist_ok=True)
    # one file per process: the same check may be running against another tree at the same time
    path = os.path.join(OUT, "%s.%d.ndjson" % (tag, os.getpid()))
    os.makedirs(os.path.dirname(path), exist_ok=True)
    with open(path, "w") as f:
        for ln in lines:
            f.write(json.dumps(ln, separators=(",", ":")) + "\n")
    e = {"TRACE": path}
    if env:
        e.update(env)
    r = run_tlc(module, cfg, workers=1, env=e, timeout=timeout, depth_first=depth_first, heap=heap)
    v = TraceVerdict()
    v.res = r
    v.path = path
    v.total = len(lines)
    m = re.search(r"@@REJECT\"?, (\d+), (\d+)", r.stdout)
    if m:
        v.matched = int(m.group(1))
        v.accepted = False
        r.error = None
        r.violated = "TraceAccepted"
    elif r.ok:
        v.accepted = True
        v.matched = len(lines)
    if not os.environ.get("VERIF_KEEP_TRACES"):
        try:
            os.remove(path)
        except OSError:
            pass
    return v
