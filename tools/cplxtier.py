"""Complex matrix-element build: the same trace specifications applied to complex-Hermitian models run against the `cplx` variant
of the library (POMEROL_COMPLEX_MATRIX_ELEMENTS=ON)."""
import json, random
import pv, models


def run(c, query, module, tag, what, n_models, partitions=({"mode": "default"}, {"mode": "ignore"}), seed_offset=77):
    """c: pv.Check. Builds n_models complex models x partitions, runs `query` in the cplx harness, validates the events with `module`."""
    rng = random.Random(c.seed + seed_offset)
    try:
        exe = pv.harness("cplx", "pv_driver")
    except SystemExit:
        # the tree builds with real matrix elements (the check got this far) but not with POMEROL_COMPLEX_MATRIX_ELEMENTS=ON: the property is
        # decided on the real build alone and the fact is recorded (a tree that does not build at all makes the check exit 2 earlier)
        c.notes.append("complex build of this tree fails to compile: complex-build tier skipped")
        c.extra["complex_build"] = "does not compile"
        return
    scen = []
    for m in models.complex_models(rng, n_models):
        for part in partitions:
            s = dict(m)
            s["id"] = "cplx:%s:%s" % (m["id"], part["mode"])
            s["partition"] = part
            s["queries"] = [query]
            scen.append(s)
    recs, crashed = pv.run_driver_resilient(exe, scen, timeout=3000, scen_timeout=180)
    byid = {r["id"]: r for r in recs if r.get("e") == "Q"}
    ev, sc_of = [], {}
    for s in scen:
        c.evaluations += 1
        sc_of[s["id"]] = s
        if s["id"] in crashed:
            c.violation("complex build: library crashed on %s (%s): %s" % (s["id"], json.dumps(s["build"])[:200], crashed[s["id"]][:200]), dict(s, variant="cplx"), cls="cplx:crash")
            continue
        r = byid.get(s["id"])
        if r is None or "fail" in r or "ex" in r:
            c.violation("complex build: %s failed on %s: %s" % (what, s["id"], (r or {}).get("fail") or (r or {}).get("ex")), dict(s, variant="cplx"), cls="cplx:exception")
            continue
        ev.append(r)
        c.nontriv(s["id"])
    pos, guard = 0, 0
    while pos < len(ev) and guard < 40:
        guard += 1
        v = pv.validate_trace(module, module, ev[pos:], "%s/cplx-%d" % (tag, guard % 3), timeout=3000, heap="8g")
        pv.tlc_or_die(v.res, module)
        c.states += v.res.distinct
        c.transitions += v.res.generated
        if v.accepted:
            c.traces += len(ev) - pos
            break
        bad = ev[pos + v.matched]
        c.traces += v.matched
        s = sc_of[bad["id"]]
        c.violation("complex build: %s of %s (sites %s, build %s, partition %s) violates the definition" % (what, s["id"], s["sites"], json.dumps(s["build"])[:240], json.dumps(s["partition"])),
                    dict(s, variant="cplx"), cls="cplx:" + tag)
        pos += v.matched + 1
    c.extra["complex_build_scenarios"] = len(scen)
    if scen:
        c.sample({"complex_build_model": scen[0]["build"], "sites": scen[0]["sites"]})
