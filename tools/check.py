import importlib, os, sys
VERIF = os.path.dirname(os.path.dirname(os.path.abspath(__file__)))
sys.path.insert(0, os.path.join(VERIF, "tools"))
sys.path.insert(0, os.path.join(VERIF, "checks"))


def main():
    args = sys.argv[1:]
    if not args:
        print("usage: check <ID> [--tier quick|thorough] [--replay file]")
        sys.exit(2)
    pid = args[0].upper()
    tier = os.environ.get("VERIF_TIER", "quick")
    replay = None
    i = 1
    while i < len(args):
        if args[i] == "--tier":
            tier = args[i + 1]; i += 2
        elif args[i] == "--replay":
            replay = args[i + 1]; i += 2
        else:
            i += 1
    os.environ["VERIF_TIER"] = tier
    try:
        mod = importlib.import_module(pid.lower())
    except ImportError as e:
        print("no check for %s (%s)" % (pid, e))
        sys.exit(2)
    if replay:
        sys.exit(mod.replay(replay))
    mod.main()


if __name__ == "__main__":
    try:
        main()
    except SystemExit:
        raise
    except Exception:
        import traceback
        traceback.print_exc()
        sys.exit(2)
