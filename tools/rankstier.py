"""Several MPI ranks: the same scenarios run in lockstep on every rank of an mpiexec run (pv_driver with PV_SCEN / PV_OUT);
the events of EVERY rank are validated with the same trace specification as the single-rank events. A rank that did not
diagonalise a block itself (or did not compute an operator itself) must still hold data that satisfies the definition."""
import json
import pv


def run(c, scen, module, tag, what, nranks=3, variant="plain", timeout=1500):
    exe = pv.harness(variant, "pv_driver")
    scen = [dict(s, id="np%d:%s" % (nranks, s["id"])) for s in scen]
    per, done, rc, err = pv.run_driver_ranks(exe, scen, nranks, timeout=timeout)
    sc_of = {s["id"]: s for s in scen}
    c.extra.setdefault("rank_tier", []).append({"ranks": nranks, "scenarios": len(scen), "variant": variant})
    if min(done) < len(scen):
        k = min(done)
        c.violation("%d ranks: the run did not complete (rc=%s) in scenario %s: %s" % (nranks, rc, scen[k]["id"] if k < len(scen) else "?", err[-300:].replace("\n", " | ")),
                    dict(scen[min(k, len(scen) - 1)], ranks=nranks), cls="ranks:%s:termination" % tag)
    for rank in range(nranks):
        ev = []
        for r in per[rank]:
            if r.get("e") != "Q":
                continue
            c.evaluations += 1
            if "fail" in r or "ex" in r:
                c.violation("%d ranks, rank %d: %s failed on %s: %s" % (nranks, rank, what, r.get("id"), r.get("fail") or r.get("ex")),
                            dict(sc_of.get(r.get("id"), {}), ranks=nranks, rank=rank), cls="ranks:%s:exception" % tag)
                continue
            ev.append(r)
        pos, guard = 0, 0
        while pos < len(ev) and guard < 12:
            guard += 1
            v = pv.validate_trace(module, module, ev[pos:], "%s/rank%d-%d" % (tag, rank, guard % 3), timeout=3000, heap="8g")
            pv.tlc_or_die(v.res, module)
            c.states += v.res.distinct
            c.transitions += v.res.generated
            if v.accepted:
                c.traces += len(ev) - pos
                break
            bad = ev[pos + v.matched]
            c.traces += v.matched
            s = sc_of.get(bad["id"], {})
            c.violation("%d ranks, rank %d: %s of %s (sites %s, build %s, partition %s) violates the definition" % (
                nranks, rank, what, bad["id"], s.get("sites"), json.dumps(s.get("build"))[:200], json.dumps(s.get("partition"))),
                dict(s, ranks=nranks, rank=rank), cls="ranks:" + tag)
            pos += v.matched + 1
        if ev:
            c.nontriv("np%d rank %d" % (nranks, rank))
