#!/bin/bash
# Builds /repo with the POMEROL_VERIF guard OFF (variant "off", tests enabled) and runs the repository's own suite.
cd "$(dirname "$0")/.."
dir=$(python3-vt tools/build.py off) || exit 2
export OMPI_ALLOW_RUN_AS_ROOT=1 OMPI_ALLOW_RUN_AS_ROOT_CONFIRM=1 OMPI_MCA_rmaps_base_oversubscribe=1
exec ctest --test-dir "$dir/cmake" -j8 --timeout 900
