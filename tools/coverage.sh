#!/bin/bash
# Audit (not a registered check): which lines/functions of the library do the quick checks execute?
# Builds the "plain" variant with gcov instrumentation under build/cov/, runs the given checks (default: all) against /repo
# through the alias /repo/. (so that evidence files are not overwritten), and prints the functions of src/ that were never called.
cd "$(dirname "$0")/.."
export VERIF_COVERAGE=1 VERIF_REPO=/repo/.
ids=${@:-C01 C02 C03 C04 C05 C07 C08 C09 C10 C11 C12 C13 C14 C15 C18 C19 C20}
for id in $ids; do ./check $id --tier quick 2>&1 | tail -1 | cut -c1-100; done
d=$(ls -d build/cov/*/plain/cmake | head -1)
gcovr -r /repo --object-directory "$d" --filter '/repo/src/' --filter '/repo/include/' --txt -o out/coverage.txt 2>/dev/null
gcovr -r /repo --object-directory "$d" --filter '/repo/src/' --filter '/repo/include/' --json -o out/coverage.json 2>/dev/null
tail -40 out/coverage.txt
