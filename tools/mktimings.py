#!/usr/bin/env python3
"""Refreshes the last column (quick wall time) of the table in DESIGN.md section 0.4 from a tools/runall.sh log."""
import re, sys, os
VERIF = os.path.dirname(os.path.dirname(os.path.abspath(__file__)))
log = open(sys.argv[1]).read()
t = {m.group(1): m.group(2) for m in re.finditer(r"^(C\d\d) rc=0 (\d+)s", log, re.M)}
p = os.path.join(VERIF, "DESIGN.md")
out = []
for line in open(p).read().split("\n"):
    m = re.match(r"^\| (C\d\d) \|.*\| (\d+) s \|\s*$", line)
    if m and m.group(1) in t:
        line = re.sub(r"\| \d+ s \|\s*$", "| %s s |" % t[m.group(1)], line)
    out.append(line)
open(p, "w").write("\n".join(out))
print("timings:", t)
