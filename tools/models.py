"""Catalogue of general integer models (built through the lattice presets / addTerm) for the relational checks.
Amplitudes are numerators over den=4 unless stated."""


def P(name, *args):
    return ["Preset", 1, [name] + list(args)]


def T(ops, v, vi=None):
    t = {"ops": ops, "v": v}
    if vi is not None:
        t["vi"] = vi
    return ["AddTerm", 1, t]


def model(mid, sites, build, den=4, **kw):
    m = {"kind": "model", "id": mid, "sites": sites, "den": den, "build": build}
    m.update(kw)
    return m


def hubbard_atom(U=4, eps=-2):
    return model("atom(U=%s,e=%s)" % (U, eps), [["A", 1, 2]], [P("addCoulombS", "A", U, eps)])


def dimer(t=-4, U=8, eps=-4, eps2=None):
    b = [P("addCoulombS", "A", U, eps), P("addCoulombS", "B", U, eps if eps2 is None else eps2), P("addHopping4", "A", "B", t)]
    return model("dimer(t=%s,U=%s,e=%s,%s)" % (t, U, eps, eps2), [["A", 1, 2], ["B", 1, 2]], b)


def spinless_chain(n=3, t=4, eps=(0, 4, -4, 8)):
    sites = [[chr(65 + i), 1, 1] for i in range(n)]
    b = [P("addLevel", chr(65 + i), eps[i]) for i in range(n)]
    b += [P("addHopping4", chr(65 + i), chr(66 + i), t) for i in range(n - 1)]
    return model("chain%d(t=%s)" % (n, t), sites, b)


def spinflip_atom(h=4, U=8, eps=-4):
    """one site, S_z broken by a transverse field h (c+_up c_dn + h.c.)"""
    b = [P("addCoulombS", "A", U, eps), P("addHopping8", "A", "A", h, 0, 0, 1, 0)]
    return model("sxatom(h=%s,U=%s)" % (h, U), [["A", 1, 2]], b)


def pair_atom(delta=4, eps=-4, U=0):
    """one site with a pair field delta (c+_up c+_dn + h.c.): N broken, S_z conserved"""
    b = [P("addCoulombS", "A", U, eps),
         T([[1, "A", 0, 1], [1, "A", 0, 0]], delta), T([[0, "A", 0, 0], [0, "A", 0, 1]], delta)]
    return model("pairatom(d=%s,e=%s,U=%s)" % (delta, eps, U), [["A", 1, 2]], b)


def kanamori(U=16, J=4, eps=-8):
    return model("kanamori(U=%s,J=%s)" % (U, J), [["A", 2, 2]], [P("addCoulombP3", "A", U, J, eps)])


def heisenberg_dimer(J=4, U=8):
    b = [P("addCoulombS", "A", U, -U // 2), P("addCoulombS", "B", U, -U // 2), P("addSS", "A", "B", J)]
    return model("ssdimer(J=%s,U=%s)" % (J, U), [["A", 1, 2], ["B", 1, 2]], b)


def mixed_sites(t=4):
    """a spinful site hybridised with a spinless one (heterogeneous spin counts)"""
    b = [P("addCoulombS", "A", 8, -4), P("addLevel", "B", 4), P("addHopping8", "A", "B", t, 0, 0, 0, 0)]
    return model("mixed(t=%s)" % t, [["A", 1, 2], ["B", 1, 1]], b)


def free_two_orbital(t=4, e1=0, e2=8):
    b = [P("addLevel", "A", e1), P("addHopping6", "A", "A", t, 0, 1), T([[1, "A", 1, 0], [0, "A", 1, 0]], e2), T([[1, "A", 1, 1], [0, "A", 1, 1]], e2)]
    return model("free2orb(t=%s)" % t, [["A", 2, 2]], b)


SMALL = [hubbard_atom, dimer, spinflip_atom, pair_atom, mixed_sites]


def catalogue(thorough=False):
    ms = [hubbard_atom(), hubbard_atom(U=0, eps=4), dimer(), dimer(t=4, U=0, eps=0, eps2=8), spinless_chain(3), spinflip_atom(),
          pair_atom(), mixed_sites(), kanamori(), heisenberg_dimer(), free_two_orbital()]
    if thorough:
        ms += [dimer(t=-8, U=16, eps=-8), spinless_chain(4, t=-4), kanamori(U=12, J=0), spinflip_atom(h=-8, U=0), pair_atom(delta=-8, U=8)]
    return ms
