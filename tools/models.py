"""Catalogue of general integer models (built through the lattice presets / addTerm) for the relational checks.
Amplitudes are numerators over den=4 unless stated."""


def P(name, *args):
    return ["Preset", 1, [name] + list(args)]


def T(ops, v, vi=None):
    t = {"ops": ops, "v": v}
    if vi is not None:
        t["vi"] = vi
    return ["AddTerm", 1, t]


def model(mid, sites, build, den=4, **kw):
    m = {"kind": "model", "id": mid, "sites": sites, "den": den, "build": build}
    m.update(kw)
    return m


def hubbard_atom(U=4, eps=-2):
    return model("atom(U=%s,e=%s)" % (U, eps), [["A", 1, 2]], [P("addCoulombS", "A", U, eps)])


def dimer(t=-4, U=8, eps=-4, eps2=None):
    b = [P("addCoulombS", "A", U, eps), P("addCoulombS", "B", U, eps if eps2 is None else eps2), P("addHopping4", "A", "B", t)]
    return model("dimer(t=%s,U=%s,e=%s,%s)" % (t, U, eps, eps2), [["A", 1, 2], ["B", 1, 2]], b)


def spinless_chain(n=3, t=4, eps=(0, 4, -4, 8)):
    sites = [[chr(65 + i), 1, 1] for i in range(n)]
    b = [P("addLevel", chr(65 + i), eps[i]) for i in range(n)]
    b += [P("addHopping4", chr(65 + i), chr(66 + i), t) for i in range(n - 1)]
    return model("chain%d(t=%s)" % (n, t), sites, b)


def spinflip_atom(h=4, U=8, eps=-4):
    """one site, S_z broken by a transverse field h (c+_up c_dn + h.c.)"""
    b = [P("addCoulombS", "A", U, eps), P("addHopping8", "A", "A", h, 0, 0, 1, 0)]
    return model("sxatom(h=%s,U=%s)" % (h, U), [["A", 1, 2]], b)


def pair_atom(delta=4, eps=-4, U=0):
    """one site with a pair field delta (c+_up c+_dn + h.c.): N broken, S_z conserved"""
    b = [P("addCoulombS", "A", U, eps),
         T([[1, "A", 0, 1], [1, "A", 0, 0]], delta), T([[0, "A", 0, 0], [0, "A", 0, 1]], delta)]
    return model("pairatom(d=%s,e=%s,U=%s)" % (delta, eps, U), [["A", 1, 2]], b)


def kanamori(U=16, J=4, eps=-8):
    return model("kanamori(U=%s,J=%s)" % (U, J), [["A", 2, 2]], [P("addCoulombP3", "A", U, J, eps)])


def heisenberg_dimer(J=4, U=8):
    b = [P("addCoulombS", "A", U, -U // 2), P("addCoulombS", "B", U, -U // 2), P("addSS", "A", "B", J)]
    return model("ssdimer(J=%s,U=%s)" % (J, U), [["A", 1, 2], ["B", 1, 2]], b)


def mixed_sites(t=4):
    """a spinful site hybridised with a spinless one (heterogeneous spin counts)"""
    b = [P("addCoulombS", "A", 8, -4), P("addLevel", "B", 4), P("addHopping8", "A", "B", t, 0, 0, 0, 0)]
    return model("mixed(t=%s)" % t, [["A", 1, 2], ["B", 1, 1]], b)


def free_two_orbital(t=4, e1=0, e2=8):
    b = [P("addLevel", "A", e1), P("addHopping6", "A", "A", t, 0, 1), T([[1, "A", 1, 0], [0, "A", 1, 0]], e2), T([[1, "A", 1, 1], [0, "A", 1, 1]], e2)]
    return model("free2orb(t=%s)" % t, [["A", 2, 2]], b)


def decoupled(eps=(8, -4, 2), U=None):
    """sites that do not talk to each other, with different levels: every block of H is exactly diagonal in the Fock basis, larger than 1x1,
    and its first Fock state is not its lowest level"""
    n = len(eps)
    sites = [[chr(65 + i), 1, 1 if U is None else 2] for i in range(n)]
    b = [P("addLevel", chr(65 + i), eps[i]) if U is None else P("addCoulombS", chr(65 + i), U, eps[i]) for i in range(n)]
    return model("decoupled(e=%s,U=%s)" % (",".join(map(str, eps)), U), sites, b)


def shifted(m, v=128):
    """m plus the constant v/den: the pair v (c c+ + c+ c) on the first mode, given anti-normal-ordered and normal-ordered through addTerm
    (the spectrum of the result is strictly positive for every catalogue / random model: no vacuum level at 0 to hide behind)"""
    l, o, s = sorted(m["sites"])[0][0], 0, 0
    m = dict(m)
    m["id"] = "shift%d:%s" % (v, m["id"])
    m["build"] = list(m["build"]) + [T([[0, l, o, s], [1, l, o, s]], v), T([[1, l, o, s], [0, l, o, s]], v)]
    return m


SMALL = [hubbard_atom, dimer, spinflip_atom, pair_atom, mixed_sites]


def catalogue(thorough=False):
    ms = [hubbard_atom(), hubbard_atom(U=0, eps=4), dimer(), dimer(t=4, U=0, eps=0, eps2=8), spinless_chain(3), spinflip_atom(),
          pair_atom(), mixed_sites(), kanamori(), heisenberg_dimer(), free_two_orbital(), shifted(hubbard_atom(U=8, eps=2), 64)]
    if thorough:
        ms += [dimer(t=-8, U=16, eps=-8), spinless_chain(4, t=-4), kanamori(U=12, J=0), spinflip_atom(h=-8, U=0), pair_atom(delta=-8, U=8)]
    return ms


# ---------------------------------------------------------------------------------------
# random Hermitian integer models built through the public lattice interface
def random_layout(rng, max_modes, spins=(1, 2, 2, 2), orbs=(1, 1, 2)):
    while True:
        n = rng.randint(1, 3)
        lay = [[chr(65 + i), rng.choice(orbs), rng.choice(spins)] for i in range(n)]
        m = sum(o * s for (_, o, s) in lay)
        if 1 <= m <= max_modes:
            rng.shuffle(lay)          # insertion order differs from label order
            return lay


def random_model(rng, mid, max_modes=4, allow_break=True, spins=(1, 2, 2, 2), magn=False):
    """returns a model dict; terms are Hermitian by construction"""
    lay = random_layout(rng, max_modes, spins)
    S = {l: (o, s) for (l, o, s) in lay}
    labs = sorted(S)
    b = []
    amp = lambda: rng.choice([4, -4, 8, -8, 12, 2])
    for l in labs:
        if rng.random() < 0.8:
            b.append(P("addCoulombS", l, rng.choice([0, 8, -4, 16]), rng.choice([0, -4, 4, 2])))
        elif rng.random() < 0.5:
            b.append(P("addLevel", l, amp()))
        if S[l][0] > 1 and S[l][1] > 1 and rng.random() < 0.5:
            b.append(P("addCoulombP3", l, rng.choice([8, 16]), rng.choice([0, 4]), rng.choice([0, -4])))
        if S[l][1] == 2 and magn and rng.random() < 0.2:     # documentation/code factor 2 (known finding F13): off by default
            b.append(P("addMagnetization", l, rng.choice([2, -4])))
        if S[l][0] > 1 and rng.random() < 0.6:
            b.append(P("addHopping6", l, l, amp(), 0, 1))
    for i in range(len(labs)):
        for j in range(i + 1, len(labs)):
            l1, l2 = labs[i], labs[j]
            r = rng.random()
            if r < 0.5:
                if S[l1] == S[l2]:
                    b.append(P("addHopping4", l1, l2, amp()))
                else:
                    b.append(P("addHopping8", l1, l2, amp(), rng.randrange(S[l1][0]), rng.randrange(S[l2][0]),
                               rng.randrange(S[l1][1]), rng.randrange(S[l2][1])))
            elif r < 0.65 and S[l1] == S[l2] and S[l1][1] == 2:
                b.append(P("addSS", l1, l2, rng.choice([4, -8])))
            elif r < 0.75 and S[l1] == S[l2] and S[l1][1] == 2:
                b.append(P("addSzSz", l1, l2, rng.choice([4, -8])))
    if allow_break:
        l = rng.choice(labs)
        r = rng.random()
        if r < 0.2 and S[l][1] >= 2:       # transverse field: S_z broken
            b.append(P("addHopping8", l, l, amp(), 0, 0, 1, 0))
        elif r < 0.35 and S[l][1] >= 2:    # pair field: N broken
            v = amp()
            b += [T([[1, l, 0, 1], [1, l, 0, 0]], v), T([[0, l, 0, 0], [0, l, 0, 1]], v)]
        elif r < 0.45 and len(labs) > 1:   # inter-site pairing
            l2 = [x for x in labs if x != l][0]
            v = amp()
            b += [T([[1, l, 0, 0], [1, l2, 0, 0]], v), T([[0, l2, 0, 0], [0, l, 0, 0]], v)]
    if not b:
        b.append(P("addLevel", labs[0], 4))
    return model(mid, lay, b)


def nmodes(m):
    return sum(o * s for (_, o, s) in m["sites"])


def linear_candidates(rng, m):
    """candidate integrals of motion, linear in the occupation numbers (list of opspecs)"""
    M = nmodes(m)
    c = [[[1, 1, [i]] for i in range(M)],                     # N
         [[i + 1, 1, [i]] for i in range(M)],                 # sum (i+1) n_i
         [[1, 2, [i]] for i in range(M)],                     # N/2
         [[(-1) ** i, 2, [i]] for i in range(M)]]             # alternating halves
    c += [[[1, 1, [i]]] for i in range(M)]                    # n_i
    # uniform non-dyadic weights: eigenvalues k*3/10, k*7/10, k/3 (one coefficient only: every state with k particles adds the same doubles)
    c += [[[3, 10, [i]] for i in range(M)], [[7, 10, [i]] for i in range(M)], [[1, 3, [i]] for i in range(M)]]
    return c


def parity(M):
    """the fermion parity (-1)^N = prod_i (1 - 2 n_i) as a polynomial in the occupation numbers: an integral of motion of EVERY model here
    (all terms have an even number of operators) that is NOT linear in the n_i; c and c^+ flip it, so each still has one target block"""
    import itertools
    return [[(-2) ** k, 1, list(S)] for k in range(M + 1) for S in itertools.combinations(range(M), k)]


def rename(m, mapping):
    """the same model with site labels renamed (labels occur in sites, preset arguments and term operators)"""
    def ren(x):
        return mapping.get(x, x) if isinstance(x, str) else x
    out = dict(m)
    out["sites"] = [[ren(l), o, s] for (l, o, s) in m["sites"]]
    nb = []
    for act in m["build"]:
        if act[0] == "Preset":
            nb.append(["Preset", act[1], [act[2][0]] + [ren(a) for a in act[2][1:]]])
        elif act[0] == "AddTerm":
            t = dict(act[2])
            t["ops"] = [[op[0], ren(op[1]), op[2], op[3]] for op in t["ops"]]
            nb.append(["AddTerm", act[1], t])
        elif act[0] == "Factory":
            nb.append(["Factory", act[1], [act[2][0]] + [ren(a) for a in act[2][1:]], act[3]])
        else:
            nb.append(act)
    out["build"] = nb
    return out



# ---------------------------------------------------------------------------------------
# complex-Hermitian models (complex matrix-element build only)
def complex_models(rng, n):
    """Hermitian models with complex hopping / spin-flip / pair amplitudes, entered as user terms t c^+_a c_b + conj(t) c^+_b c_a
    and through the complex overload of addHopping"""
    out = []
    # fixed members: 1x1 blocks with NEGATIVE energies (a spinless level), and two spinless levels with a complex hopping
    out.append(model("cplx-level", [["A", 1, 1]], [P("addLevel", "A", -4)]))
    out.append(model("cplx-hop2", [["A", 1, 1], ["B", 1, 1]], [P("addLevel", "A", -4), P("addLevel", "B", 4), P("addHopping8c", "A", "B", 2, 4, 0, 0, 0, 0)]))
    for k in range(max(0, n - 2)):
        lay = random_layout(rng, 4)
        S = {l: (o, s) for (l, o, s) in lay}
        tr = [(l, a, z) for (l, o, s) in sorted(lay) for a in range(o) for z in range(s)]
        b = []
        for l in sorted(S):
            b.append(P("addCoulombS", l, rng.choice([0, 8, -4]), rng.choice([0, -4, 4])))
        if len(tr) >= 2:
            for _ in range(rng.randint(1, 3)):
                x, y = rng.sample(tr, 2)
                re, im = rng.choice([0, 4, -8, 2]), rng.choice([4, -4, 8, 2])
                if rng.random() < 0.5:
                    b.append(P("addHopping8c", x[0], y[0], re, im, x[1], y[1], x[2], y[2]))
                else:
                    b.append(T([[1, x[0], x[1], x[2]], [0, y[0], y[1], y[2]]], re, im))
                    b.append(T([[1, y[0], y[1], y[2]], [0, x[0], x[1], x[2]]], re, -im))
            if rng.random() < 0.4:       # complex pair field
                x, y = rng.sample(tr, 2)
                re, im = rng.choice([4, 2]), rng.choice([4, -8])
                b.append(T([[1, x[0], x[1], x[2]], [1, y[0], y[1], y[2]]], re, im))
                b.append(T([[0, y[0], y[1], y[2]], [0, x[0], x[1], x[2]]], re, -im))
        out.append(model("cplx%d" % k, lay, b))
    return out
