"""The exact family (DESIGN.md section 5): model catalogue / generator, TLC evaluation of the definition level (LehmannGen.tla),
translation into harness scenarios, and the numeric comparator (the projection between the library's floats and the
specification's exact integers; it contains no physics beyond substituting beta and z into the specification's expression)."""
import json, math, os
import mpmath as mp
import pv

mp.mp.dps = 40

LAYOUTS = {
    1: [[["A", 1, 1]]],
    2: [[["A", 1, 2]], [["B", 1, 1], ["A", 1, 1]], [["A", 2, 1]]],
    3: [[["A", 1, 2], ["B", 1, 1]], [["A", 1, 1], ["B", 1, 2]], [["A", 3, 1]], [["A", 1, 3]], [["C", 1, 1], ["A", 1, 1], ["B", 1, 1]]],
    4: [[["A", 1, 2], ["B", 1, 2]], [["A", 2, 2]], [["A", 1, 1], ["B", 1, 3]], [["A", 2, 1], ["B", 1, 2]], [["A", 1, 1], ["B", 1, 1], ["C", 1, 2]]],
}

PARAMS = [  # (eps per mode (cycled), U per pair (cycled))
    ([0], [0]), ([1], [0]), ([-1, 0, 1, 2], [0]), ([1, 1, 1, 1], [0]), ([-1, -1, -1, -1], [2]), ([0, 1], [2, 0, -1]),
    ([-2, 1], [-3]), ([1000, 1001, 999, 1000], [1]), ([-1000, -999], [2, 0]), ([1, 2], [-3]), ([0, 0, 1], [1, 1, 2]), ([2, -1, 0, 1], [3, -2, 0, 1, 0, 2]),
]


def triples(layout):
    """single-particle states in site-major order of the label-sorted sites: the spec's mode k <-> k-th triple"""
    out = []
    for (l, o, s) in sorted(layout):
        for a in range(o):
            for z in range(s):
                out.append((l, a, z))
    return out


def make_model(mid, M, eps, U, rot=(), bog=(), layout=None):
    return {"id": mid, "M": M, "eps": list(eps), "U": [list(u) for u in U], "rot": [list(p) for p in rot], "bog": [list(p) for p in bog],
            "ph": [], "layout": layout or LAYOUTS[M][0], "gf": [], "avg": [], "sus": [], "docc": [], "chi": []}


def catalogue(rng, Ms=(2, 3), per_M=8, transforms=True, prefix="E"):
    """a spread of models: every layout, parameter sets incl. degenerate / offset ones, identity / rotation / Bogoliubov on a random pair"""
    out = []
    n = 0
    for M in Ms:
        for k in range(per_M):
            lay = LAYOUTS[M][k % len(LAYOUTS[M])]
            ep, uu = PARAMS[(k * 5 + M) % len(PARAMS)] if k >= 2 else PARAMS[[4, 11][k]]
            eps = [ep[i % len(ep)] for i in range(M)]
            pairs = [(i, j) for i in range(M) for j in range(i + 1, M)]
            U = [(i, j, uu[t % len(uu)]) for t, (i, j) in enumerate(pairs) if uu[t % len(uu)] != 0]
            rot, bog = [], []
            if transforms and M >= 2:
                kind = rng.choice(["id", "rot", "rot", "bog", "rot+rot", "rot+bog"]) if M >= 4 else rng.choice(["id", "rot", "rot", "bog"])
                modes = list(range(M))
                rng.shuffle(modes)
                if kind in ("rot", "rot+rot", "rot+bog"):
                    rot.append(sorted(modes[:2]))
                if kind == "bog":
                    bog.append(sorted(modes[:2]))
                if kind == "rot+rot":
                    rot.append(sorted(modes[2:4]))
                if kind == "rot+bog":
                    bog.append(sorted(modes[2:4]))
            n += 1
            out.append(make_model("%s%d" % (prefix, n), M, eps, U, rot, bog, lay))
    return out


def random_model(rng, mid, M):
    lay = rng.choice(LAYOUTS[M])
    eps = [rng.choice([-3, -2, -1, 0, 0, 1, 1, 2]) for _ in range(M)]
    pairs = [(i, j) for i in range(M) for j in range(i + 1, M)]
    U = [(i, j, rng.choice([-2, -1, 1, 2, 3])) for (i, j) in pairs if rng.random() < 0.5]
    modes = list(range(M))
    rng.shuffle(modes)
    rot, bog = [], []
    kind = rng.choice(["id", "rot", "rot", "bog", "rot2"])
    if M >= 2 and kind == "rot":
        rot.append(sorted(modes[:2]))
    if M >= 2 and kind == "bog":
        bog.append(sorted(modes[:2]))
    if kind == "rot2" and M >= 4:
        rot += [sorted(modes[:2]), sorted(modes[2:4])]
    return make_model(mid, M, eps, U, rot, bog, lay)


# ---------------------------------------------------------------------------------------
def evaluate(models, tag, timeout=1800, workers=8):
    """runs LehmannGen.tla on the models; returns (TlcResult, {id: prediction})"""
    os.makedirs(os.path.join(pv.OUT, os.path.dirname(tag)), exist_ok=True)
    path = os.path.join(pv.OUT, tag + "-models.ndjson")
    with open(path, "w") as f:
        for m in models:
            f.write(json.dumps({k: m[k] for k in ("id", "M", "eps", "U", "rot", "bog", "ph", "gf", "avg", "sus", "docc", "chi")}, separators=(",", ":")) + "\n")
    r = pv.run_tlc("LehmannGen", "LehmannGen", workers=workers, env={"MODELS": path}, timeout=timeout, heap="8g")
    return r, {p["id"]: p for p in r.pv}


def scenario(m, pred, **kw):
    """harness model scenario: the Hamiltonian printed by the specification, added term by term through Lattice::addTerm"""
    tr = triples(m["layout"])
    build = []
    for t in pred["hc"]:
        ops = [[k, tr[i][0], tr[i][1], tr[i][2]] for (k, i) in t["ops"]]
        term = {"ops": ops, "v": t["num"]}
        if t.get("numi"):
            term["vi"] = t["numi"]           # complex amplitude: complex matrix-element build only
        build.append(["AddTerm", 1, term])
    sc = {"kind": "model", "id": m["id"], "sites": m["layout"], "den": pred["DE"], "build": build}
    sc.update(kw)
    return sc


def index_map(m, tab):
    """spec mode k -> library index, through the index table the library reported"""
    tr = triples(m["layout"])
    lib = {(t[0], t[1], t[2]): i for i, t in enumerate(tab)}
    return [lib[t] for t in tr]


# ---------------------------------------------------------------------------------------
# the comparator
def weights(pred, beta):
    E = [mp.mpf(e) for e in pred["E"]]
    e0 = min(E)
    b = mp.mpf(beta)
    un = [mp.e ** (-b * (e - e0)) for e in E]
    Z = sum(un)
    return [u / Z for u in un], E


def matsubara(beta, n):
    return mp.mpc(0, (2 * n + 1) * mp.pi / mp.mpf(beta))


def gf_value(pred, terms, beta, z):
    """G(z) from the specification's terms [n, m, pole, re, im] (numerators over D^2); returns (value, sum|terms|, npairs, dist)"""
    w, E = weights(pred, beta)
    D2 = pred["D"] ** 2
    val, tot, dist = mp.mpc(0), mp.mpf(0), mp.inf
    for (n, m, pole, re, im) in terms:
        num = mp.mpc(re, im) / D2 * (w[n] + w[m])
        d = z - pole
        val += num / d
        tot += abs(num / d)
        dist = min(dist, abs(d))
    return val, tot, len(terms), dist


def gf_tau(pred, terms, beta, tau):
    """G(tau) = - sum X_nm (w_n e^{-tau P} ... ) : -sum_{n,m} X_nm w_n e^{tau (E_n - E_m)}   for 0 <= tau <= beta   (from the definition)"""
    w, E = weights(pred, beta)
    D2 = pred["D"] ** 2
    val = mp.mpc(0)
    t = mp.mpf(tau)
    for (n, m, pole, re, im) in terms:
        val += -mp.mpc(re, im) / D2 * w[n] * mp.e ** (t * (E[n] - E[m]))
    return val


def avg_value(pred, terms, beta):
    w, E = weights(pred, beta)
    D2 = pred["D"] ** 2
    return sum((mp.mpc(re, im) / D2 * w[n] for (n, re, im) in terms), mp.mpc(0))


def docc_value(pred, terms, beta):
    w, E = weights(pred, beta)
    D4 = pred["D"] ** 4
    return sum((mp.mpc(re, im) / D4 * w[n] for (n, re, im) in terms), mp.mpc(0))


def sus_value(pred, terms, beta, nbos):
    """chi(iW_n) from [n, m, pole, re, im] over D^4"""
    w, E = weights(pred, beta)
    D4 = pred["D"] ** 4
    b = mp.mpf(beta)
    W = mp.mpc(0, 2 * nbos * mp.pi / b)
    val, tot, dist = mp.mpc(0), mp.mpf(0), mp.inf
    for (n, m, pole, re, im) in terms:
        x = mp.mpc(re, im) / D4
        if pole == 0:
            if nbos == 0:
                val += b * w[n] * x
                tot += abs(b * w[n] * x)
        else:
            t = -x * (w[n] - w[m]) / (W - pole)
            val += t
            tot += abs(t)
            dist = min(dist, abs(W - pole))
    return val, tot, len(terms), dist


def sus_tau(pred, terms, beta, tau):
    """<A(tau) B> = sum A_nm B_mn w_n e^{tau (E_n - E_m)}"""
    w, E = weights(pred, beta)
    D4 = pred["D"] ** 4
    t = mp.mpf(tau)
    return sum((mp.mpc(re, im) / D4 * w[n] * mp.e ** (t * (E[n] - E[m])) for (n, m, pole, re, im) in terms), mp.mpc(0))


def cplx(p):
    return mp.mpc(float(p[0]), float(p[1]))          # via float: the library may print nan / inf


# ---------------------------------------------------------------------------------------
# two-particle Green's function: time-ordered triple integral of the specification's paths
# an exponent is (e, f) meaning  e + i pi f / beta  (e = integer energy difference, f = integer frequency number); it vanishes iff e = f = 0
PERMS3 = [(1, 2, 3), (1, 3, 2), (2, 1, 3), (2, 3, 1), (3, 1, 2), (3, 2, 1)]
PERMSIGN = [1, -1, -1, 1, 1, -1]


def _integrate(terms, A, beta):
    """terms: list of (coef, k, L) meaning coef * t^k * exp(L t); returns the terms of  int_0^T exp(A t) f(t) dt  as a function of T"""
    out = []
    for (c_, k, L) in terms:
        Lp = (L[0] + A[0], L[1] + A[1])
        if Lp == (0, 0):
            out.append((c_ / (k + 1), k + 1, (0, 0)))
        else:
            lam = mp.mpc(Lp[0], mp.pi * Lp[1] / beta)
            for j in range(k + 1):
                out.append((c_ * (-1) ** j * mp.factorial(k) / mp.factorial(k - j) / lam ** (j + 1), k - j, Lp))
            out.append((-c_ * (-1) ** k * mp.factorial(k) / lam ** (k + 1), 0, (0, 0)))
    return out


def time_ordered_integral(A1, A2, A3, beta):
    """int_{beta > t1 > t2 > t3 > 0} exp(A1 t1 + A2 t2 + A3 t3); returns a list of (coef, k, (e, f)) to be evaluated at T = beta"""
    f = [(mp.mpc(1), 0, (0, 0))]
    f = _integrate(f, A3, beta)      # function of t2
    f = _integrate(f, A2, beta)      # function of t1
    f = _integrate(f, A1, beta)      # function of beta
    return f


def chi_value(pred, paths, beta, n1, n2, n3):
    """chi(n1, n2; n3) from the specification's paths [perm, a, b, c, d, re, im] (numerators over D^4); returns (value, sum of |terms|).
    Paths with the same ordering, the same three energy differences and the same E_a share their integral: numerators are summed first."""
    w, E = weights(pred, beta)
    D4 = pred["D"] ** 4
    b = mp.mpf(beta)
    fr = {1: 2 * n1 + 1, 2: 2 * n2 + 1, 3: -(2 * n3 + 1)}          # c_i(t1): +w1, c_j(t2): +w2, c^+_k(t3): -w3
    Ei = [int(e) for e in pred["E"]]
    e0 = min(Ei)
    Z = sum(mp.e ** (-b * (e - e0)) for e in Ei)
    groups = {}
    for (pi, a, bb, cc, d, re, im) in paths:
        key = (pi, Ei[a] - Ei[bb], Ei[bb] - Ei[cc], Ei[cc] - Ei[d], Ei[a])
        g = groups.get(key)
        if g is None:
            groups[key] = [re, im, abs(complex(re, im))]
        else:
            g[0] += re
            g[1] += im
            g[2] += abs(complex(re, im))
    val, tot = mp.mpc(0), mp.mpf(0)
    for key, (re, im, mag) in groups.items():
        pi, d1, d2, d3, ea = key
        p = PERMS3[pi - 1]
        terms = time_ordered_integral((d1, fr[p[0]]), (d2, fr[p[1]]), (d3, fr[p[2]]), b)
        # evaluate at T = beta with the weight folded in:  w_a e^{beta e} = exp(-beta (E_a - E_0 - e)) / Z  (no overflow)
        s_ = mp.mpc(0)
        for (c_, k, L) in terms:
            s_ += c_ * b ** k * (mp.e ** (-b * (ea - e0 - L[0])) / Z) * (-1) ** (L[1] % 2)
        val += PERMSIGN[pi - 1] * mp.mpc(re, im) / D4 * s_
        tot += mag / D4 * abs(s_)
    return val, tot


def with_phases(rng, ms):
    """copies of the models with gauge phases c'_p = i c_p on one or two modes that take part in a rotation / Bogoliubov pair
    (only there does the phase make the Hamiltonian complex); for the complex matrix-element build"""
    out = []
    for m in ms:
        cand = [p for pair in m["rot"] + m["bog"] for p in pair]
        if not cand:
            continue
        mm = dict(m)
        mm["id"] = m["id"] + "ph"
        mm["ph"] = sorted(rng.choice(pair) for pair in m["rot"] + m["bog"])      # one mode of every pair: the pair's mixing terms become complex
        out.append(mm)
    return out


def run_split(exe_real, scen, ms, timeout=3000):
    """runs the scenarios of phased (complex) models in the complex matrix-element build and the others in the real build"""
    phased = {m["id"] for m in ms if m.get("ph")}
    real = [s for s in scen if s["id"] not in phased]
    cpl = [s for s in scen if s["id"] in phased]
    recs, crashed = pv.run_driver_resilient(exe_real, real, timeout=timeout)
    if cpl:
        r2, c2 = pv.run_driver_resilient(pv.harness("cplx", "pv_driver"), cpl, timeout=timeout)
        recs += r2
        crashed.update(c2)
    return recs, crashed
