#!/usr/bin/env python3
"""Regenerates MANIFEST.json from the table of claimed checks below and validates it."""
import json, os, sys
VERIF = os.path.dirname(os.path.dirname(os.path.abspath(__file__)))
props = [json.loads(l)["id"] for l in open(os.path.join(VERIF, "properties.jsonl"))]

CLAIMED = {
 "C20": dict(cat="model_checking", ref="6 C20",
   text="TLC model-checks the lattice-builder state machine (spec/Lattice.tla) for the validation, zero-filter, lookup, retrieval-by-order and copy properties on the bounded state graph; every explored transition is replayed into the real Lattice/LatticePresets and randomised call histories recorded from the real code are validated against the specification (LatticeTrace.tla).",
   note="TLC; harness projection of site map/term storage; amplitudes restricted to multiples of 1/4; labels {A,B,Z}, <=3 orbitals/spins",
   tech="TLA+ state machine + TLC; replay of every transition and trace validation of recorded call histories"),
 "C18": dict(cat="model_checking", ref="6 C18",
   text="TLC proves design level (both enumeration orders of prepare) satisfies the definition level (bijection onto 0..N-1, mutual inverses) for all 1638 (lattice, mode) pairs up to 3 sites x 3 orbitals x 3 spins; every one of them is built in the real library under shuffled insertion orders/labellings and the recorded getInfo/getIndex tables are validated against the definition level by TLC (IndexTrace.tla).",
   note="TLC; harness/pv_index.hpp; label hash collisions not explored",
   tech="TLA+ specification of the index enumeration + TLC; trace validation of recorded lookup tables"),
 "C15": dict(cat="model_checking", ref="6 C15",
   text="TLC checks transparency, exactness of the precomputed window and fill coverage of the storage layout (spec/MatsubaraStore.tla) for every window size N<=4 (thorough 6) on the box +-(2N+3); the real MatsubaraContainer4 template is instantiated over a probe source whose value encodes its arguments and its Fill/Lookup events are validated against the specification by TLC (StoreTrace.tla); Apalache proves Transparent and WindowExact for every N >= 0 and every integer triple (spec/StoreApa.tla); real Vertex4 objects are read through the storage and through value() bit-for-bit on the same box, and value() is compared with chi - chi0 assembled from the library's own chi and G.",
   note="TLC; probe encoding; lookups before the first compute() (null source) are outside the specification; bounded N",
   tech="TLA+ specification of the storage layout + TLC; trace validation of probe-instrumented template; bitwise relational check on Vertex4; Apalache (SMT) for the layout with unbounded window size"),
 "C13": dict(cat="model_checking", ref="6 C13",
   text="TLC model-checks the container state machine (spec/Container4.tla): alias soundness under the two exchange symmetries (with sign), owner soundness, NonTrivialElements = elements of ElementsMap, evaluability after bulk computation, on every state reachable in 3 (thorough 4) calls; every explored transition is replayed into a real TwoParticleGFContainer comparing outcome, maps, element identities, statuses and every evaluated value against a directly constructed TwoParticleGF; random histories on 2-4 mode models are validated by TLC (ContainerTrace.tla); the exchange symmetries are checked on direct objects.",
   note="TLC; harness projection by element address; clearTerms=false only; single rank",
   tech="TLA+ state machine + TLC; replay of every transition; trace validation of recorded histories"),
 "C16": dict(cat="model_checking", ref="6 C16",
   text="TLC explores every interleaving of master steps, worker steps and message deliveries of the dispatcher protocol (spec/Dispatcher.tla, one action per MPI call, R consecutive rounds) for small P, J, R and checks exactly-once, map truthfulness/completeness, drained channels, stack and Finish safety, and termination under weak fairness; real runs of mpi_skel::run under mpiexec with seeded delays at every MPI call are recorded by PMPI interposition and TLC finds, for every run, an interleaving of the per-rank logs that is a behaviour of the specification (DispatcherTrace.tla), comparing the returned maps on all ranks.",
   note="TLC; PMPI logger; eager sends of one int, per-pair FIFO, effective MPI_Cancel; real schedules are sampled",
   tech="TLA+ protocol specification + TLC (safety and liveness); trace validation of per-rank PMPI logs with per-rank cursors"),
 "C06": dict(cat="model_checking", ref="6 C06",
   text="TLC checks, on the per-rank programs of collectives of Hamiltonian::prepare/compute, TwoParticleGF::compute and computeAll split/nosplit (spec/MpiProgram.tla), that no collective is mismatched, no rank is left waiting, every rank ends with all eigen-data, the full tables reach the ranks the interface returns them to and kept terms are evaluable everywhere, for all dispatch outcomes, P<=3 (thorough 5) and component layouts incl. vanishing components, fewer components than ranks and non-dividing counts; real multi-rank/multi-thread runs are validated against the specification (MpiProgramTrace.tla) and everything each rank holds is compared with the single-rank single-thread run; time-outs are non-termination.",
   note="TLC; PMPI logger and lexer; rendezvous matching of collectives; tolerance 1e-11 on sums, bitwise on eigen-data; real schedules sampled",
   tech="TLA+ specification of per-rank collective programs + TLC; trace validation of PMPI logs; per-rank data comparison against the 1-rank run"),
 "C05": dict(cat="model_checking", ref="6 C05",
   text="TLC proves the transcription of normalize_and_insert (spec/OperatorAlgebra.tla) equal to composition of Jordan-Wigner actions (spec/Fermion.tla) for every product of <=4 (thorough 5) elementary operators over 3 modes, and the CAR; the real Operator arithmetic (A*B, A+B, A-B, alpha*A, -A, commutator, anticommutator, associativity triples, commutes, ==, normal ordering of the product, specialised N and S_z) is evaluated on enumerated and random polynomials and every Fock-space matrix and flag is recomputed exactly by TLC from A, B, C (AlgebraTrace.tla).",
   note="TLC; harness/pv_algebra.hpp; integer coefficients; real build",
   tech="TLA+ definition of the fermionic algebra + TLC; trace validation of the library's operator arithmetic (exact integer matrices)"),
 "C04": dict(cat="model_checking", ref="6 C04",
   text="TLC checks, for every preset call on every two-site layout with <=6 modes, that the transcribed term list (spec/LatticeTerms.tla) has the matrix of the operator written in the documentation (spec/Hamiltonian.tla), is Hermitian and that Kanamori (U'=U-2J) and spin-spin exchange commute with S^+; the real library builds lattices by the same calls and its Fock-space Hamiltonian matrix (symmetries ignored) is compared entry by entry, as exact integers, with the documented operators by TLC (HamTrace.tla): presets, term factories, user terms of 2/4/6 operators in arbitrary order.",
   note="TLC; hfock projection; amplitudes multiples of 1/4; real build and complex build (complex user terms, complex addHopping); addMagnetization doc/code factor 2 is known finding F13",
   tech="TLA+ documented-operator definitions + TLC; trace validation of the library's Hamiltonian matrix (exact integers)"),
 "C07": dict(cat="model_checking", ref="6 C07",
   text="TLC checks that the design level of the symmetry analysis (acceptance, quantum numbers, blocks in order of first appearance, first-state image rule, bimap insertion; spec/Symmetry.tla) satisfies the definition level (blocks without gaps, H block diagonal, every c, c^+, c^+c single-target, bimaps faithful) for a catalogue of models under default/ignored/all single and pairs of linear custom candidates; on the real library (catalogue + random heterogeneous lattices incl. spinless and 3-component sites) the recorded partition, (block, position) addresses and bimaps are checked against the definition level with the exact Hamiltonian by TLC (SymmetryTrace.tla), and the analysis must complete without error.",
   note="TLC; exact H from the documented operators (C04); candidates diagonal in the Fock basis; F14 (non-linear candidates) and F17 (non-dyadic coefficients) are open known findings",
   tech="TLA+ design/definition levels of the symmetry analysis + TLC; trace validation of recorded partitions and block maps"),
 "C03": dict(cat="model_checking", ref="6 C03",
   text="On catalogue + random Hermitian models under several partitions TLC (SpectrumTrace.tla) checks: prepared block matrices equal the exact Fock-space Hamiltonian (exact integers), H has no element between recorded blocks, every block has as many eigenpairs as states with residual and orthonormality below 1e-9 against that exact matrix (hence the union of block spectra is the full spectrum, no reference eigensolver needed), ground energy is the minimum over blocks, getEigenValues() is the concatenation and getEigenValue(label) is the entry at (block, position) of the label.",
   note="TLC; residual arithmetic by Eigen in the harness against matrices TLC proved exact; tolerance 1e-9; real build and complex build (complex-Hermitian user terms)",
   tech="TLA+ exact Hamiltonian + TLC trace validation of the recorded eigen-system (exact matrices, quantised residuals)"),
 "C10": dict(cat="model_checking", ref="6 C10",
   text="Every stored c^+_i, c_i (container adjoint shortcut and one-by-one) and c^+_i c_j of catalogue + random models under several partitions is rotated back to the Fock basis with the stored eigenvectors and compared by TLC (FieldOpTrace.tla) with the exact Jordan-Wigner matrix of spec/Fermion.tla to 1e-9 per entry; the part-by-part adjoint relation of stored c and c^+ is checked; CAR of the Jordan-Wigner matrices is checked by TLC, so the assembled anticommutators follow.",
   note="TLC; rotation arithmetic by Eigen in the harness; tolerance 1e-9; real build and complex build (complex-Hermitian user terms)",
   tech="TLA+ Jordan-Wigner definition + TLC trace validation of rotated-back stored operators"),
 "C09": dict(cat="model_checking", ref="6 C09",
   text="On the exact family (Fock-diagonal integer models under rational canonical transformations; spec/Lehmann.tla) TLC checks the model obligations (canonical transformation, Hermitian expansion, sum rules) and prints the exact spectrum and average data; the library's weights for every state label, average energy, total/per-index occupancy, double occupancy and EnsembleAverage for all (i,j) are compared with the Gibbs state of the specification for beta from 1e-3 to 1e3 and offsets +-1000; on general models non-negativity, normalisation and the ratio law are checked against the library's own eigenvalues.",
   note="TLC; mpmath comparator (projection between floats and exact integers); exact family for absolute values; tolerance 1e-9 + beta*1e-11*max|E|",
   tech="TLA+ exact Lehmann definition + TLC; specification-predicted values compared with the library's outputs"),
 "C01": dict(cat="model_checking", ref="6 C01",
   text="TLC evaluates the definition of G_ij (Lehmann sum over ALL eigenstate pairs with exact integer matrix elements, symbolic weights; spec/Lehmann.tla) for every model of the exact family and checks sum rule and conjugation symmetry coefficient-wise; the library's values for every (i,j) (diagonal and off-diagonal; no S_z or N conservation, multi-orbital, degenerate spectra), Matsubara numbers -3..2, +-50, off-axis z, several beta, from a stand-alone object and from GFContainer, are compared with the specification within the deviation the property allows.",
   note="TLC; mpmath comparator; exact family only (rational spectra); real build",
   tech="TLA+ exact Lehmann definition + TLC; specification-predicted values compared with the library's outputs"),
 "C11": dict(cat="model_checking", ref="6 C11",
   text="Sum rule and conjugation symmetry are TLC invariants of the Lehmann data; on the exact family of_tau is compared with the specification on a tau grid incl. both ends for beta up to 400 (both overflow-avoiding branches); on general models (irrational spectra) conjugation symmetry on/off the axis, the 1/z tail, Im G_ii<0, G_ii(tau)<=0, G(0+)+G(beta-)=-delta, G_ii(beta-)=-<n_i> and the Matsubara-sum duality are checked on the library's own outputs.",
   note="TLC; comparator; Matsubara-sum duality at 3e-3 (1200 frequencies, analytic tail)",
   tech="TLA+ Lehmann invariants + TLC; specification-predicted G(tau); relational checks on library outputs"),
 "C14": dict(cat="model_checking", ref="6 C14",
   text="TLC evaluates the definition of chi_AB (bosonic Lehmann sum incl. the beta-proportional zero-pole contribution, exact integers; spec/Lehmann.tla) on the exact family; the library's Susceptibility at n in -2..2 and on a tau grid, for density-density, spin-flip and random operator pairs, without subtraction and with the three ways of supplying <A>,<B>, is compared with the specification; the subtracted object must differ from the plain one by beta<A><B> at W=0 only.",
   note="TLC; comparator; exact family only",
   tech="TLA+ exact Lehmann definition + TLC; specification-predicted values compared with the library's outputs"),
 "C02": dict(cat="model_checking", ref="6 C02",
   text="TLC enumerates, for every model of the exact family and every requested quadruple, all closed paths of exact matrix elements for the six time orderings of the documented definition (spec/Lehmann.tla ChiPaths, exact integers, symbolic weights) after checking the model obligations; the comparator integrates the time-ordered exponentials symbolically (exact case split on vanishing exponents, so resonances are derived, not transcribed) and the library's values are compared on four evaluation paths: operator(), the table of compute(false,freqs) and on-demand values afterwards, the table of compute(true,freqs); all 16 quadruples x all 64 triples of {-2..1}^3 x 3 betas on two-mode models (half-filled atom, free, fully degenerate, rotated, Bogoliubov), sampled on 3-4 modes; table lengths incl. empty frequency lists and vanishing components.",
   note="TLC; comparator incl. ~40 lines of symbolic integration of exponentials (DESIGN.md fallback: the integration is in the comparator, not in TLC); exact family only",
   tech="TLA+ path enumeration from the definition + TLC; symbolic time-ordered integration in the comparator; comparison with the library on all evaluation paths"),
 "C08": dict(cat="model_checking", ref="6 C08",
   text="Soundness of every accepted linear partition is model-checked in Symmetry.tla (shared with C07); on the real library general integer models (irrational spectra) are computed under 7 partitions each (default, ignored, {N}, alternating, {N,alt}, random linear sets) and spectrum, weights, averages, occupancies, all G_ij (Matsubara, off-axis, tau), chi for 9 quadruples x 8 triples and 5 susceptibilities are recorded as quantised observations; TLC (ObsTrace.tla) requires every observation to agree with the first one under the same (model, observable, arguments) within one quantum.",
   note="TLC; quantisation 1e-8 (statics) / 1e-6 (G, chi, susceptibility: documented dropping of residues below 1e-8 depends on the eigenbasis)",
   tech="TLA+ observation-invariance trace specification + TLC over recorded observables under different partitions"),
 "C12": dict(cat="model_checking", ref="6 C12",
   text="TLC computes (z-h)^-1 = Adj(z)/Det(z) by the Faddeev-LeVerrier recursion in exact integers for a catalogue of integer symmetric h (spec/Wick.tla) and checks the defining polynomial identity; the library's G_ij on and off the axis, chi for all/sampled quadruples x all 64 triples of {-2..1}^3 against the antisymmetrised product of those exact propagators, and Vertex4::value against 0, for zero, degenerate, block-diagonal and spin-mixing h at three betas; the same with complex-Hermitian Gaussian-integer h (spec/WickC.tla) against the complex matrix-element build.",
   note="TLC; comparator evaluating the rational functions; real symmetric and complex Hermitian h; not limited to rational spectra",
   tech="TLA+ exact rational-function oracle + TLC; comparison of the library's G, chi and vertex"),
 "C19": dict(cat="model_checking", ref="6 C19",
   text="TLC checks that the truncation design (retain rule, stripe filter; spec/Truncation.tla) satisfies its definition (a stripe is skipped only if all its blocks are discarded, a block only if no weight exceeds eps, so lost terms have all weights <= eps); on the real library the retain flags against its own weights and the world stripes of G, chi and susceptibility before/after truncation are validated by TLC (TruncTrace.tla), values are checked against the property's bounds and eps = 0 must leave every value bit-for-bit unchanged.",
   note="TLC; python comparison of doubles for (max weight > eps) and for the bounds",
   tech="TLA+ truncation rule + TLC; trace validation of recorded flags and stripe selections; relational bounds"),
 "C17": dict(cat="exploration", ref="6 C17",
   text="TLC model-checks the three index-chasing loops (spec/Chase.tla) for all pairs of index sets within 0..4: no index() on an invalid iterator and exactly the common indices found; the library and harness are rebuilt with AddressSanitizer + UndefinedBehaviorSanitizer and the scenario families of the other properties (lattice histories, index tables, storage, operator algebra with == shape probes, container histories, and the complete workflow incl. truncation, empty frequency lists, both table paths, vertex storage, under default and ignored symmetries on catalogue, random and exact-family models) are replayed; any sanitizer report is a violation.",
   note="sanitizers observe executed paths only; single rank; leak detection off",
   tech="TLA+ model of the chasing loops + TLC for the inputs; sanitizer-instrumented replay of specification-generated scenario families"),
}
NOT_YET = "check not built yet in this round (planned in DESIGN.md section 6); not claimed until it runs"

m = {"version": 1, "setup_cmd": "./setup.sh",
     "hooks": {"guard": "POMEROL_VERIF",
               "enable": "tools/build.py configures /repo with -DCMAKE_CXX_FLAGS=-DPOMEROL_VERIF (variants plain/asan/cplx)",
               "baseline_off_cmd": "tools/baseline_off.sh", "source_commits": [], "add_only": True},
     "engines": [
         {"name": "tlc", "path": "/opt/veriftools/tla/tla2tools.jar", "serves_properties": sorted(CLAIMED),
          "kind_free_text": "TLC 1.8 explicit-state model checker for the TLA+ modules in spec/; also validates traces recorded from libpomerol"},
         {"name": "pv_driver", "path": "harness/pv_driver.cpp", "serves_properties": sorted(CLAIMED),
          "kind_free_text": "C++ harness around libpomerol's public API (replays specification behaviours, records traces)"}],
     "checks": [], "not_applicable": [], "notes": "see DESIGN.md"}
WF_OBJ = {"C01": "the GreensFunction object", "C02": "the TwoParticleGF object (incl. the table returned by compute)", "C03": "the Hamiltonian object",
          "C07": "the Symmetrizer and StatesClassification objects", "C18": "the IndexClassification object (all objects are constructed before it is prepared)", "C04": "the IndexHamiltonian object", "C09": "the DensityMatrix and EnsembleAverage objects", "C10": "the field operators and their container",
          "C14": "the Susceptibility object", "C15": "the Vertex4 object"}
for pid, what in WF_OBJ.items():
    CLAIMED[pid]["text"] += (" In addition TLC model-checks the life-cycle state machine of the computable objects (spec/Workflow.tla: statuses, which call changes whose data,"
                             " repeated calls are no-ops, getters served exactly when finished, completion under fairness) and every transition of its state graph plus simulated"
                             " 40-call histories are replayed on real objects; WorkflowTrace.tla requires outcome, statuses, changed-data set and equality with the canonical"
                             " linear order for " + what + ".")
    CLAIMED[pid]["tech"] += "; TLC-generated call histories of the life-cycle state machine replayed and trace-validated"
CLAIMED["C17"]["text"] += (" Every documented transition of the life-cycle state machine (spec/Workflow.tla) and simulated 40-call histories are executed by the sanitised library as well.")
CLAIMED["C17"]["tech"] += "; TLC-generated call histories of the life-cycle state machine under ASan/UBSan"
for pid in ("C03", "C10"):
    CLAIMED[pid]["text"] += " A subset of the scenarios is re-run on 3 MPI ranks (5 in thorough) and the events recorded on every rank are validated with the same trace specification."
for pid in ("C08", "C12", "C02"):
    CLAIMED[pid]["text"] += " A subset of the scenarios is re-run on 3 MPI ranks and the observables of every rank are judged by the same specification (C08: against the single-rank references in ObsTrace.tla; C12: against the exact propagators of Wick.tla; C02: the root's tables and every rank's on-demand values against Lehmann.tla's exact family)."
CLAIMED["C18"]["text"] += " In the relabelling tier chi is also read through a TwoParticleGFContainer (stored component or alias, depending on labels and ordering mode)."
CLAIMED["C16"]["text"] += " Job ids are an arbitrary set (Dispatcher.tla constant JobIds), model-checked and replayed with sparse id lists for the list constructor."
hooks_file = os.path.join(VERIF, "hooks.json")
if os.path.exists(hooks_file):
    m["hooks"]["source_commits"] = json.load(open(hooks_file))["source_commits"]
for p in props:
    if p in CLAIMED:
        c = CLAIMED[p]
        m["checks"].append({"property_id": p, "quick_cmd": "./check %s --tier quick" % p,
                            "thorough_cmd": "./check %s --tier thorough" % p,
                            "evidence_file": "evidence/%s.json" % p,
                            "replay_cmd_template": "./check %s --replay {path}" % p, "engine": "tlc",
                            "level_claimed": {"category": c["cat"], "text": c["text"], "design_ref": c["ref"]},
                            "level_note": c["note"], "technique": c["tech"]})
    else:
        m["not_applicable"].append({"property_id": p, "reason": NOT_YET})
json.dump(m, open(os.path.join(VERIF, "MANIFEST.json"), "w"), indent=1)
try:
    import jsonschema
    jsonschema.validate(m, json.load(open("/root/.vp/MANIFEST.schema.json")))
    es = json.load(open("/root/.vp/EVIDENCE.schema.json"))
    for p in CLAIMED:
        f = os.path.join(VERIF, "evidence", p + ".json")
        if os.path.exists(f):
            jsonschema.validate(json.load(open(f)), es)
        else:
            print("warning: no evidence yet for", p)
    print("MANIFEST ok:", sorted(CLAIMED))
except ImportError:
    print("jsonschema not available; not validated")
