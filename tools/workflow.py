"""Workflow histories: every transition of spec/Workflow.tla (TLC prints each with a call sequence reaching its pre-state)
is replayed on the real objects and the recorded events are validated by spec/WorkflowTrace.tla; longer random histories
come from TLC's simulator.  The result is computed once per (tree, harness, specification, tier, seed) and shared by the
checks that use it: each check is answerable for the objects of its property
   IC -> C18   HS -> C04   SYM, S -> C07   H, HP -> C03   DM, EA -> C09   CX, C, QA, OPS -> C10   GF -> C01   X -> C02   SU -> C14   V -> C15
and C17 replays the documented transitions under ASan/UBSan.
Calls the code rejects by exStatusMismatch (Guarded in the specification) are replayed and validated as well, but a
disagreement on one of them is reported as a note, not as a violation: no listed property speaks about misuse."""
import fcntl, hashlib, json, os, random, time
import pv, models, build

OWNER = {"IC": "C18", "HS": "C04", "SYM": "C07", "S": "C07", "H": "C03", "HP": "C03", "DM": "C09", "EA": "C09", "CX": "C10", "C": "C10", "QA": "C10", "OPS": "C10",
         "GF": "C01", "X": "C02", "SU": "C14", "V": "C15"}


def transitions():
    res = pv.run_tlc("WorkflowMC", "WorkflowEmit", workers=1, timeout=900)
    pv.tlc_or_die(res, "WorkflowMC/Emit")
    return res, res.pv


def wf_models(thorough):
    ms = [dict(models.hubbard_atom(), ij=[0, 0], beta="2.0"), dict(models.dimer(), ij=[0, 2], beta="1.0")]
    if thorough:
        ms += [dict(models.dimer(), ij=[1, 1], beta="3.0"), dict(models.spinflip_atom(), ij=[0, 1], beta="1.0"), dict(models.mixed_sites(), ij=[0, 0], beta="0.5")]
    return ms


def path_scenarios(ms, trans, stride=1, offset=0, tag="wf"):
    scen = []
    for mi, m in enumerate(ms):
        for k, t in enumerate(trans):
            if (k + offset) % stride:
                continue
            calls = [list(c) for c in t["pre"]] + [[t["obj"], t["op"]]]
            scen.append({"kind": "workflow", "id": "%s:%s:%d" % (tag, m["id"], k), "sites": m["sites"], "build": m["build"],
                         "beta": m["beta"], "ij": m["ij"], "calls": calls, "log": "last", "doc": bool(t.get("doc", True)), "complete": True})
    return scen


def history_scenarios(ms, hists, tag="sim"):
    scen = []
    for k, h in enumerate(hists):
        m = ms[k % len(ms)]
        scen.append({"kind": "workflow", "id": "%s:%s:%d" % (tag, m["id"], k), "sites": m["sites"], "build": m["build"],
                     "beta": m["beta"], "ij": m["ij"], "calls": [list(c) for c in h], "doc": True, "complete": True})
    return scen


def simulate(seed, num, depth=40):
    res = pv.run_tlc("WorkflowMC", "WorkflowSim", workers=1, timeout=900, simulate=num, depth=depth + 1, seed=seed)
    pv.tlc_or_die(res, "WorkflowMC/Sim")
    hs, seen = [], set()
    for p in res.pv:
        if "hist" in p:
            key = json.dumps(p["hist"])
            if key not in seen:
                seen.add(key)
                hs.append(p["hist"])
    return res, hs


def _validate(scen, recs, crashed, out, what):
    """validates the events of all scenarios; returns list of findings {id, obj, op, doc, kind, detail, scenario}"""
    sc_of = {s["id"]: s for s in scen}
    finds = []
    for s in scen:
        if s["id"] in crashed:
            finds.append({"id": s["id"], "obj": s["calls"][-1][0], "op": s["calls"][-1][1], "doc": s.get("doc", True), "kind": "crash",
                          "detail": crashed[s["id"]][:300], "scenario": s})
    ev = []
    for r in recs:
        if r.get("e") == "WFail":
            finds.append({"id": r.get("id"), "obj": "?", "op": "?", "doc": True, "kind": "setup", "detail": r.get("fail"), "scenario": sc_of.get(r.get("id"))})
        elif r.get("e") in ("WReset", "WCall", "WEnd") and r.get("id") not in crashed:
            ev.append(r)
    pos, guard = 0, 0
    while pos < len(ev) and guard < 60:
        guard += 1
        v = pv.validate_trace("WorkflowTrace", "WorkflowTrace", ev[pos:], "wf/%s-%d" % (what, guard % 4), timeout=1800)
        pv.tlc_or_die(v.res, "WorkflowTrace")
        out["states"] += v.res.distinct
        out["transitions"] += v.res.generated
        out.setdefault("tlc_cmd", v.res.cmd)
        if v.accepted:
            out["accepted_events"] += len(ev) - pos
            break
        out["accepted_events"] += v.matched
        bad = ev[pos + v.matched]
        s = sc_of.get(bad.get("id"), {})
        if bad["e"] == "WEnd":
            finds.append({"id": bad["id"], "obj": ",".join(bad["differs"]), "op": "end", "doc": True, "kind": "final-data",
                          "detail": "finished objects %s differ from the canonical order" % bad["differs"], "scenario": s, "differs": bad["differs"]})
        else:
            finds.append({"id": bad["id"], "obj": bad.get("obj"), "op": bad.get("op"), "doc": s.get("doc", True), "kind": "event",
                          "detail": "call %s.%s in statuses %s: outcome %s (%s), result %s, statuses after %s, data changed in %s" % (
                              bad.get("obj"), bad.get("op"), json.dumps(bad.get("st0"), separators=(",", ":")), bad.get("out"), bad.get("ex"), bad.get("ret"),
                              json.dumps(bad.get("st"), separators=(",", ":")), bad.get("changed")), "scenario": s, "changed": bad.get("changed")})
        # continue with the next scenario
        nxt = pos + v.matched + 1
        while nxt < len(ev) and ev[nxt]["e"] != "WReset":
            nxt += 1
        pos = nxt
        if len(finds) >= 40:
            break
    return finds


def _key(tier, seed, variant):
    h = hashlib.sha256()
    for f in ("Workflow.tla", "WorkflowMC.tla", "WorkflowTrace.tla", "WorkflowEmit.cfg", "WorkflowSim.cfg", "WorkflowTrace.cfg"):
        h.update(open(os.path.join(pv.SPEC, f), "rb").read())
    h.update(open(os.path.abspath(__file__), "rb").read())
    h.update(open(os.path.join(os.path.dirname(os.path.abspath(__file__)), "models.py"), "rb").read())
    return "%s-%s-%s-%s-%s" % (build.harness_hash(), h.hexdigest()[:12], tier, seed, variant)


def conformance(tier, seed, variant="plain"):
    """runs (or loads) the replay of the transition graph + simulated histories for the current tree; returns the result dict"""
    th = build.tree_hash()
    d = os.path.join(build.BUILD_ROOT, th)
    os.makedirs(d, exist_ok=True)
    path = os.path.join(d, "wf-%s.json" % _key(tier, seed, variant))
    lock = open(path + ".lock", "w")
    fcntl.flock(lock, fcntl.LOCK_EX)
    try:
        if os.path.exists(path):
            r = json.load(open(path))
            r["cached"] = True
            return r
        t0 = time.time()
        thorough = tier == "thorough"
        out = {"states": 0, "transitions": 0, "accepted_events": 0, "scenarios": 0, "variant": variant, "tier": tier}
        mc = pv.run_tlc("WorkflowMC", "WorkflowMC", workers=8, timeout=1800)
        if not mc.ok:
            pv.log("INFRA: Workflow.tla violates its own properties: %s\n%s" % (mc.violated or mc.error, mc.stdout[-1500:]))
            raise SystemExit(2)
        out["states"] += mc.distinct
        out["transitions"] += mc.generated
        out["mc_cmd"] = mc.cmd
        if thorough and variant == "plain":
            lv = pv.run_tlc("Workflow", "WorkflowLive", workers=8, timeout=3600, heap="8g")
            if not lv.ok:
                pv.log("INFRA: Workflow.tla: Completes does not hold under fairness: %s\n%s" % (lv.violated or lv.error, lv.stdout[-1500:]))
                raise SystemExit(2)
            out["liveness_cmd"] = lv.cmd
        res, trans = transitions()
        out["graph"] = {"distinct": res.distinct, "transitions": len(trans), "documented": sum(1 for t in trans if t["doc"])}
        out["states"] += res.distinct
        out["transitions"] += res.generated
        out["emit_cmd"] = res.cmd
        ms = wf_models(thorough)
        exe = pv.harness(variant, "pv_driver")
        if variant == "asan":
            trans = [t for t in trans if t["doc"]]
        # the graph has several hundred thousand transitions: every one is replayed in the thorough tier on the first model; otherwise a
        # seed-dependent sample (stride) that still visits every (object, call) in every status of that object many times
        def stride_for(target):
            return max(1, len(trans) // target)
        if variant == "asan":
            plan = [(ms[:1], stride_for(60000 if thorough else 6000)), (ms[1:2], stride_for(3000 if thorough else 350))] + ([(ms[2:], stride_for(1500))] if thorough else [])
        else:
            plan = [(ms[:1], 1 if thorough else stride_for(24000)), (ms[1:2], stride_for(24000 if thorough else 1200))] + ([(ms[2:], stride_for(6000))] if thorough else [])
        scen = []
        for (mm, stride) in plan:
            scen += path_scenarios(mm, trans, stride=stride, offset=seed)
        sres, hists = simulate(seed, 6 if not thorough else 60)
        out["simulated_histories"] = len(hists)
        out["sim_cmd"] = sres.cmd
        rng = random.Random(seed)
        rng.shuffle(hists)
        scen += history_scenarios(ms[:1] if not thorough else ms, hists[: (60 if not thorough else 1200)])
        out["scenarios"] = len(scen)
        recs, crashed = pv.run_driver_resilient(exe, scen, timeout=3000, scen_timeout=120)
        out["findings"] = _validate(scen, recs, crashed, out, variant)
        out["wall"] = round(time.time() - t0, 1)
        out["sample"] = {"model": ms[0]["build"], "calls": scen[len(scen) // 2]["calls"]}
        json.dump(out, open(path, "w"))
        out["cached"] = False
        return out
    finally:
        fcntl.flock(lock, fcntl.UNLOCK if hasattr(fcntl, "UNLOCK") else fcntl.LOCK_UN)
        lock.close()


def attach(c, objs, what, variant="plain"):
    """adds to check c the part of the workflow conformance its property is answerable for"""
    r = conformance(c.tier, c.seed, variant)
    mine = 0
    for f in r["findings"]:
        fobjs = set((f.get("obj") or "").split(",")) | set(f.get("changed") or []) | set(f.get("differs") or [])
        if f["kind"] == "setup":
            continue                                   # the model could not be built: reported by the checks that own the model pipeline
        if variant == "asan":
            if f["kind"] == "crash":
                c.violation("workflow history %s: the library crashed: %s" % (json.dumps(f["scenario"]["calls"][-6:]), f["detail"]), f["scenario"], cls="workflow:crash")
            continue
        if not (fobjs & set(objs)):
            continue
        if not f["doc"]:
            c.extra.setdefault("workflow_guarded_call_notes", []).append(f["detail"][:300])
            continue
        mine += 1
        if f["kind"] == "crash":
            c.violation("%s: library crashed in the workflow history ending with %s: %s" % (what, json.dumps(f["scenario"]["calls"][-4:]), f["detail"]), f["scenario"], cls="workflow:crash")
        else:
            c.violation("%s: after the documented call history %s the objects do not behave as specified (Workflow.tla): %s" % (
                what, json.dumps(f["scenario"]["calls"][-8:]), f["detail"]), f["scenario"], cls="workflow:" + f["kind"])
    # the replay is computed once per (tree, harness, specification, tier, seed) and shared by the checks that use it; the counts describe
    # that run whether this invocation performed it or found its result under build/<tree-hash>/ (extra.workflow_*.cached says which)
    c.states += r["states"]
    c.transitions += r["transitions"]
    c.traces += r["scenarios"]
    c.evaluations += r["accepted_events"]
    c.nontriv("workflow transition graph (%d transitions, %d scenarios replayed, %s build)" % (r["graph"]["transitions"], r["scenarios"], variant))
    c.extra["workflow_" + variant] = {k: r[k] for k in ("graph", "scenarios", "accepted_events", "simulated_histories", "wall", "cached") if k in r}
    for k in ("mc_cmd", "liveness_cmd", "emit_cmd", "tlc_cmd", "sim_cmd"):
        if k in r and r[k] not in c.tlc_cmds:
            c.tlc_cmds.append(r[k])
    return r
