"""Running the multi-rank driver (harness/pv_mpi.cpp) and turning its per-rank logs into trace files."""
import json, os, shutil, subprocess, time
import pv

ENV = {"OMPI_ALLOW_RUN_AS_ROOT": "1", "OMPI_ALLOW_RUN_AS_ROOT_CONFIRM": "1", "OMPI_MCA_rmaps_base_oversubscribe": "1",
       "OMPI_MCA_btl_vader_single_copy_mechanism": "none", "OMPI_MCA_mpi_yield_when_idle": "1"}


class MpiRun:
    def __init__(self):
        self.rc = None
        self.timed_out = False
        self.logs = []        # per rank: list of events
        self.stderr = ""
        self.wall = 0.0
        self.dir = None


def run_mpi(exe, scenario, nranks, tag, timeout=60, threads=1):
    d = os.path.join(pv.OUT, "%s.%d" % (tag, os.getpid()))       # per process: the same check may be running on another tree
    shutil.rmtree(d, ignore_errors=True)
    os.makedirs(d)
    sc = dict(scenario)
    sc.setdefault("watchdog", max(5, int(timeout) - 5))
    with open(os.path.join(d, "sc.json"), "w") as f:
        json.dump(sc, f)
    e = dict(os.environ)
    e.update(ENV)
    e["OMP_NUM_THREADS"] = str(threads)
    if sc.get("maxus"):
        e["POMEROL_VERIF_MAXUS"] = str(sc["maxus"])      # hook in mpi_skel.hpp (POMEROL_VERIF builds only)
        e["POMEROL_VERIF_SEED"] = str(sc.get("seed", 1))
    cmd = ["timeout", "-k", "5", str(timeout), "mpiexec", "--oversubscribe", "-np", str(nranks), exe, os.path.join(d, "sc.json"), d]
    t0 = time.time()
    p = subprocess.run(cmd, stdout=subprocess.PIPE, stderr=subprocess.PIPE, text=True, env=e, errors="replace")
    r = MpiRun()
    r.wall = time.time() - t0
    r.rc = p.returncode
    r.timed_out = p.returncode in (124, 137)
    r.stderr = p.stderr[-3000:]
    r.dir = d
    for k in range(nranks):
        evs = []
        fn = os.path.join(d, "rank%d.ndjson" % k)
        if os.path.exists(fn):
            for line in open(fn, errors="replace"):
                try:
                    evs.append(json.loads(line))
                except Exception:
                    pass
        r.logs.append(evs)
    if not os.environ.get("VERIF_KEEP_TRACES"):
        shutil.rmtree(d, ignore_errors=True)
    return r


TAGS = {0: "Pending", 1: "Work", 2: "Finish"}


def dispatcher_trace(run, J, R, boss=True, ids=None):
    """Filter each rank's log to the events DispatcherTrace.tla consumes (selection by kind only)."""
    lines = []
    for k, evs in enumerate(run.logs):
        out = []
        for e in evs:
            t = e.get("e")
            if t == "Send":
                if e["tag"] == 1:
                    out.append(["SendWork", e["dst"], e["val"]])
                elif e["tag"] == 2:
                    out.append(["SendFinish", e["dst"]])
                elif e["tag"] == 0:
                    out.append(["SendDone"])
            elif t == "TestOk":
                if e.get("posted_tag") == -1:
                    out.append(["GotOrder", TAGS.get(e["tag"], str(e["tag"])), e["val"] if e["tag"] == 1 else -1])
                else:
                    out.append(["GotDone", e["src"]])
            elif t == "Run":
                out.append(["Run", e["job"]])
            elif t == "RoundEnd":
                out.append(["RoundEnd", e["map"]])
        lines.append({"rank": k, "J": J, "ids": list(ids) if ids is not None else list(range(J)), "R": R, "boss": bool(boss), "ev": out})
    return lines


def validate_dispatcher(lines, tag, timeout=300):
    """Returns (accepted, TlcResult). Acceptance = TLC reaches a state in which all logs are consumed (NotAccepted violated)."""
    path = os.path.join(pv.OUT, "%s.%d.ndjson" % (tag, os.getpid()))
    os.makedirs(os.path.dirname(path), exist_ok=True)
    with open(path, "w") as f:
        for ln in lines:
            f.write(json.dumps(ln, separators=(",", ":")) + "\n")
    r = pv.run_tlc("DispatcherTrace", "DispatcherTrace", workers=1, env={"TRACE": path}, timeout=timeout, depth_first=True)
    if not os.environ.get("VERIF_KEEP_TRACES"):
        try:
            os.unlink(path)
        except OSError:
            pass
    if r.violated == "NotAccepted":
        return True, r
    return False, r


P2P_KINDS = ("Send", "Irecv", "TestOk", "Cancel", "Run")


def program_trace(run):
    """Lex each rank's PMPI log of a workflow run into the events MpiProgramTrace.tla consumes (selection and grouping by
    kind only: a maximal run of point-to-point calls becomes one P2P episode carrying the Work orders sent in it)."""
    lines = []
    hdr = {"P": len(run.logs), "B": 0, "nparts": [], "clear": False, "split": True}
    for k, evs in enumerate(run.logs):
        out = []
        started = False
        p2p = None
        for e in evs:
            t = e.get("e")
            if t == "WorkflowBegin":
                started = True
                continue
            if not started:
                continue
            if t in ("Send", "Recv") and e["tag"] not in (0, 1, 2, -1):
                # point-to-point traffic of a Boost.MPI collective implemented as a tree (reduce of complex numbers)
                if p2p is not None:
                    out.append(["P2P", p2p])
                    p2p = None
                if not out or out[-1][0] != "RedP2P":
                    out.append(["RedP2P"])
                continue
            if t in P2P_KINDS:
                if p2p is None:
                    p2p = []
                if t == "Send" and e["tag"] == 1:
                    p2p.append([e["val"], e["dst"]])
                continue
            if p2p is not None:
                out.append(["P2P", p2p])
                p2p = None
            if t == "Barrier":
                out.append(["Barrier", e["comm"]])
            elif t == "Bcast":
                out.append(["Bcast", e["comm"], e["root"]])
            elif t == "Reduce":
                out.append(["Reduce", e["comm"], e["root"]])
            elif t == "Allreduce":
                out.append(["Allreduce", e["comm"]])
            elif t == "Split":
                out.append(["Split", e["comm"]])
            elif t == "Data" and e.get("what") == "eig" and k == 0:
                hdr["B"] = len(e["blocks"])
            elif t == "Enter" and e.get("what") == "computeAll" and k == 0:
                hdr["nparts"] = [c[2] for c in e["components"]]
                hdr["clear"] = e["clear"]
                hdr["split"] = e["split"]
        if p2p is not None:
            out.append(["P2P", p2p])
        lines.append({"rank": k, "ev": out})
    return [hdr] + lines


def validate_program(lines, tag, timeout=600):
    path = os.path.join(pv.OUT, tag + ".ndjson")
    os.makedirs(os.path.dirname(path), exist_ok=True)
    with open(path, "w") as f:
        for ln in lines:
            f.write(json.dumps(ln, separators=(",", ":")) + "\n")
    r = pv.run_tlc("MpiProgramTrace", "MpiProgramTrace", workers=1, env={"TRACE": path}, timeout=timeout, depth_first=True)
    return (r.violated == "NotAccepted"), r
